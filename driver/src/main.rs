// mirfacts — E0 of /verif: a rustc_private driver that dumps the type-checked
// program (items + unoptimised MIR with resolved callees and evaluated
// constants) of every workspace crate as one JSON file per crate per process.
// It performs no analysis; all rules live in /verif/analysis (Python).
//
// Injected with RUSTC_WORKSPACE_WRAPPER under `cargo +nightly check`.
// Env: VERIF_FACTS_DIR (output dir, required to emit), VERIF_CONFIG (label).
#![feature(rustc_private)]
extern crate rustc_abi;
extern crate rustc_driver;
extern crate rustc_hir;
extern crate rustc_interface;
extern crate rustc_middle;
extern crate rustc_span;
extern crate rustc_type_ir;

use rustc_driver::Compilation;
use rustc_hir::def::DefKind;
use rustc_hir::def_id::{DefId, LOCAL_CRATE};
use rustc_middle::mir::{self, Operand, Place, ProjectionElem, Rvalue, StatementKind, TerminatorKind};
use rustc_middle::ty::print::{with_no_trimmed_paths, with_no_visible_paths, with_resolve_crate_name};
use rustc_middle::ty::{self, Ty, TyCtxt};
use std::collections::BTreeMap;
use std::fmt::Write as _;

// ---------------------------------------------------------------- JSON
#[derive(Clone)]
enum J {
    Null,
    B(bool),
    N(i128),
    S(String),
    A(Vec<J>),
    O(Vec<(&'static str, J)>),
    M(BTreeMap<String, J>),
}
fn s<T: Into<String>>(x: T) -> J {
    J::S(x.into())
}
fn esc(out: &mut String, x: &str) {
    out.push('"');
    for c in x.chars() {
        match c {
            '"' => out.push_str("\\\""),
            '\\' => out.push_str("\\\\"),
            '\n' => out.push_str("\\n"),
            '\r' => out.push_str("\\r"),
            '\t' => out.push_str("\\t"),
            c if (c as u32) < 0x20 => {
                let _ = write!(out, "\\u{:04x}", c as u32);
            }
            c => out.push(c),
        }
    }
    out.push('"');
}
impl J {
    fn write(&self, out: &mut String) {
        match self {
            J::Null => out.push_str("null"),
            J::B(b) => out.push_str(if *b { "true" } else { "false" }),
            J::N(n) => {
                let _ = write!(out, "{}", n);
            }
            J::S(x) => esc(out, x),
            J::A(v) => {
                out.push('[');
                for (i, x) in v.iter().enumerate() {
                    if i > 0 {
                        out.push(',');
                    }
                    x.write(out);
                }
                out.push(']');
            }
            J::O(v) => {
                out.push('{');
                for (i, (k, x)) in v.iter().enumerate() {
                    if i > 0 {
                        out.push(',');
                    }
                    esc(out, k);
                    out.push(':');
                    x.write(out);
                }
                out.push('}');
            }
            J::M(v) => {
                out.push('{');
                for (i, (k, x)) in v.iter().enumerate() {
                    if i > 0 {
                        out.push(',');
                    }
                    esc(out, k);
                    out.push(':');
                    x.write(out);
                }
                out.push('}');
            }
        }
    }
}

// ---------------------------------------------------------------- context
struct Cx<'tcx> {
    tcx: TyCtxt<'tcx>,
    types: BTreeMap<String, J>,
    // non-local library functions (small core combinators) whose MIR is wanted so that the analysis can see through them
    extern_wanted: Vec<DefId>,
    extern_seen: std::collections::BTreeSet<String>,
}

const EXTERN_PREFIXES: &[&str] = &[
    "core::option::Option::<T>::",
    "core::result::Result::<T, E>::",
    "core::bool::<impl bool>::",
    "core::mem::replace",
    "core::mem::swap",
    "core::mem::take",
    "core::cmp::min",
    "core::cmp::max",
    "core::cmp::Ord::",
    "core::cmp::impls::",
    "core::num::<impl ",
    "<core::option::Option<T> as core::ops::try_trait::",
    "<core::result::Result<T, E> as core::ops::try_trait::",
    "<core::option::Option<T> as core::default::Default>",
    "core::slice::<impl [T]>::first",
    "core::slice::<impl [T]>::last",
    "core::slice::<impl [T]>::is_empty",
    "core::slice::<impl [T]>::split_first",
    "core::slice::<impl [T]>::split_last",
    "core::convert::identity",
    "core::iter::range::",
    "<core::ops::range::Range<",
    "<usize as core::iter::range::Step>::",
    "core::iter::traits::iterator::Iterator::for_each",
    "<I as core::iter::traits::collect::IntoIterator>::into_iter",
    "core::ops::function::impls::",
];

impl<'tcx> Cx<'tcx> {
    fn path(&self, did: DefId) -> String {
        self.tcx.def_path_str(did)
    }
    fn hash(&self, did: DefId) -> String {
        let h = self.tcx.def_path_hash(did);
        format!("{:016x}{:016x}", h.stable_crate_id().as_u64(), h.local_hash().as_u64())
    }
    fn krate(&self, did: DefId) -> String {
        self.tcx.crate_name(did.krate).to_string()
    }
    fn span(&self, sp: rustc_span::Span) -> String {
        let sm = self.tcx.sess.source_map();
        let lo = sm.lookup_char_pos(sp.lo());
        format!("{}:{}", lo.file.name.prefer_local_unconditionally(), lo.line)
    }
    fn line(&self, sp: rustc_span::Span) -> J {
        let sm = self.tcx.sess.source_map();
        let lo = sm.lookup_char_pos(sp.lo());
        J::N(lo.line as i128)
    }

    fn ty(&mut self, t: Ty<'tcx>) -> J {
        let key = t.to_string();
        if !self.types.contains_key(&key) {
            // insert placeholder first (recursive types)
            self.types.insert(key.clone(), J::Null);
            let info = self.ty_info(t);
            self.types.insert(key.clone(), info);
        }
        J::S(key)
    }
    fn args(&mut self, args: ty::GenericArgsRef<'tcx>) -> J {
        let mut v = vec![];
        for a in args.iter() {
            match a.kind() {
                ty::GenericArgKind::Type(t) => v.push(self.ty(t)),
                ty::GenericArgKind::Const(c) => v.push(s(format!("const {}", c))),
                ty::GenericArgKind::Lifetime(_) => {}
            }
        }
        J::A(v)
    }
    fn ty_info(&mut self, t: Ty<'tcx>) -> J {
        use rustc_type_ir::TyKind::*;
        match t.kind() {
            Bool => J::O(vec![("k", s("bool"))]),
            Char => J::O(vec![("k", s("char"))]),
            Int(i) => J::O(vec![
                ("k", s("int")),
                ("bits", J::N(i.bit_width().unwrap_or(64) as i128)),
                ("signed", J::B(true)),
                ("ptr", J::B(i.bit_width().is_none())),
            ]),
            Uint(u) => J::O(vec![
                ("k", s("int")),
                ("bits", J::N(u.bit_width().unwrap_or(64) as i128)),
                ("signed", J::B(false)),
                ("ptr", J::B(u.bit_width().is_none())),
            ]),
            Float(f) => J::O(vec![("k", s("float")), ("bits", J::N(f.bit_width() as i128))]),
            Adt(def, args) => {
                let a = self.args(args);
                J::O(vec![
                    ("k", s("adt")),
                    ("path", s(self.path(def.did()))),
                    ("krate", s(self.krate(def.did()))),
                    ("args", a),
                    ("is_box", J::B(def.is_box())),
                    ("is_enum", J::B(def.is_enum())),
                ])
            }
            Ref(_, inner, m) => {
                let i = self.ty(*inner);
                J::O(vec![("k", s("ref")), ("mut", J::B(m.is_mut())), ("inner", i)])
            }
            RawPtr(inner, m) => {
                let i = self.ty(*inner);
                J::O(vec![("k", s("ptr")), ("mut", J::B(m.is_mut())), ("inner", i)])
            }
            Array(inner, len) => {
                let i = self.ty(*inner);
                J::O(vec![("k", s("array")), ("inner", i), ("len", s(format!("{}", len)))])
            }
            Slice(inner) => {
                let i = self.ty(*inner);
                J::O(vec![("k", s("slice")), ("inner", i)])
            }
            Str => J::O(vec![("k", s("str"))]),
            Tuple(ts) => {
                let v: Vec<J> = ts.iter().map(|x| self.ty(x)).collect();
                J::O(vec![("k", s("tuple")), ("elems", J::A(v))])
            }
            Param(p) => J::O(vec![("k", s("param")), ("name", s(p.name.to_string()))]),
            Alias(..) => J::O(vec![("k", s("alias"))]),
            FnDef(did, args) => {
                let a = self.args(args);
                J::O(vec![("k", s("fndef")), ("path", s(self.path(*did))), ("krate", s(self.krate(*did))), ("args", a)])
            }
            FnPtr(..) => J::O(vec![("k", s("fnptr"))]),
            Closure(did, _) => J::O(vec![("k", s("closure")), ("path", s(self.path(*did))), ("hash", s(self.hash(*did)))]),
            Dynamic(..) => J::O(vec![("k", s("dyn"))]),
            Never => J::O(vec![("k", s("never"))]),
            _ => J::O(vec![("k", s("other"))]),
        }
    }

    fn place(&mut self, p: &Place<'tcx>) -> J {
        let mut proj = vec![];
        for e in p.projection.iter() {
            proj.push(match e {
                ProjectionElem::Deref => s("*"),
                ProjectionElem::Field(f, t) => {
                    let tt = self.ty(t);
                    J::A(vec![s("f"), J::N(f.as_usize() as i128), tt])
                }
                ProjectionElem::Index(l) => J::A(vec![s("i"), J::N(l.as_usize() as i128)]),
                ProjectionElem::ConstantIndex { offset, min_length, from_end } => {
                    J::A(vec![s("ci"), J::N(offset as i128), J::N(min_length as i128), J::B(from_end)])
                }
                ProjectionElem::Subslice { from, to, from_end } => {
                    J::A(vec![s("sub"), J::N(from as i128), J::N(to as i128), J::B(from_end)])
                }
                ProjectionElem::Downcast(name, v) => J::A(vec![
                    s("d"),
                    J::N(v.as_usize() as i128),
                    s(name.map(|n| n.to_string()).unwrap_or_default()),
                ]),
                ProjectionElem::OpaqueCast(_) => s("opaque"),
                ProjectionElem::UnwrapUnsafeBinder(_) => s("unbind"),
            });
        }
        J::A(vec![J::N(p.local.as_usize() as i128), J::A(proj)])
    }

    fn want_extern(&mut self, did: DefId) {
        if did.is_local() {
            return;
        }
        let p = self.path(did);
        if !EXTERN_PREFIXES.iter().any(|q| p.starts_with(q)) {
            return;
        }
        if !matches!(self.tcx.def_kind(did), DefKind::Fn | DefKind::AssocFn | DefKind::Closure) || !self.tcx.is_mir_available(did) {
            return;
        }
        let h = self.hash(did);
        if self.extern_seen.insert(h) {
            self.extern_wanted.push(did);
        }
    }

    fn callee_info(&mut self, owner: DefId, did: DefId, args: ty::GenericArgsRef<'tcx>) -> J {
        let tcx = self.tcx;
        self.want_extern(did);
        let mut o: Vec<(&'static str, J)> = vec![
            ("path", s(self.path(did))),
            ("krate", s(self.krate(did))),
            ("hash", s(self.hash(did))),
            ("args", self.args(args)),
            ("name", s(tcx.item_name(did).to_string())),
            ("kind", s(format!("{:?}", tcx.def_kind(did)))),
        ];
        if matches!(tcx.def_kind(did), DefKind::AssocFn) {
            if let Some(tr) = tcx.trait_of_assoc(did) {
                o.push(("trait", s(self.path(tr))));
                // Self type of the trait call
                if let Some(st) = args.types().next() {
                    o.push(("self_ty", self.ty(st)));
                }
            } else if let Some(im) = tcx.impl_of_assoc(did) {
                let st = tcx.type_of(im).instantiate_identity().skip_norm_wip();
                o.push(("impl_self", self.ty(st)));
                if tcx.impl_is_of_trait(im) {
                    let tr = tcx.impl_trait_ref(im).instantiate_identity().skip_norm_wip();
                    o.push(("impl_trait", s(self.path(tr.def_id))));
                }
            }
        }
        // resolution under the caller's environment
        let env = ty::TypingEnv::post_analysis(tcx, owner);
        let res = std::panic::catch_unwind(std::panic::AssertUnwindSafe(|| ty::Instance::try_resolve(tcx, env, did, args)));
        match res {
            Ok(Ok(Some(inst))) => {
                let rd = inst.def_id();
                self.want_extern(rd);
                let kind = match inst.def {
                    ty::InstanceKind::Item(_) => "item",
                    ty::InstanceKind::Intrinsic(_) => "intrinsic",
                    ty::InstanceKind::Virtual(..) => "virtual",
                    ty::InstanceKind::ClosureOnceShim { .. } => "closure_once_shim",
                    ty::InstanceKind::FnPtrShim(..) => "fnptr_shim",
                    ty::InstanceKind::DropGlue(..) => "drop_glue",
                    ty::InstanceKind::CloneShim(..) => "clone_shim",
                    ty::InstanceKind::ReifyShim(..) => "reify_shim",
                    _ => "other",
                };
                let mut r: Vec<(&'static str, J)> = vec![
                    ("path", s(self.path(rd))),
                    ("krate", s(self.krate(rd))),
                    ("hash", s(self.hash(rd))),
                    ("args", self.args(inst.args)),
                    ("kind", s(kind)),
                ];
                if let Some(im) = tcx.impl_of_assoc(rd) {
                    let st = tcx.type_of(im).instantiate_identity().skip_norm_wip();
                    r.push(("impl_self", self.ty(st)));
                    if tcx.impl_is_of_trait(im) {
                        let tr = tcx.impl_trait_ref(im).instantiate_identity().skip_norm_wip();
                        r.push(("impl_trait", s(self.path(tr.def_id))));
                    }
                }
                o.push(("res", J::O(r)));
            }
            _ => o.push(("res", J::Null)),
        }
        J::O(o)
    }

    fn constant(&mut self, owner: DefId, c: &mir::ConstOperand<'tcx>) -> J {
        let tcx = self.tcx;
        let cty = c.const_.ty();
        let mut o: Vec<(&'static str, J)> = vec![("ty", self.ty(cty))];
        match cty.kind() {
            ty::FnDef(did, args) => {
                o.push(("fn", self.callee_info(owner, *did, args)));
                return J::O(o);
            }
            _ => {}
        }
        let env = ty::TypingEnv::post_analysis(tcx, owner);
        match c.const_ {
            mir::Const::Unevaluated(uv, _) => {
                let mut u: Vec<(&'static str, J)> = vec![
                    ("path", s(self.path(uv.def))),
                    ("krate", s(self.krate(uv.def))),
                    ("args", self.args(uv.args)),
                    ("name", s(tcx.opt_item_name(uv.def).map(|n| n.to_string()).unwrap_or_default())),
                ];
                if let Some(p) = uv.promoted {
                    u.push(("promoted", J::N(p.as_usize() as i128)));
                }
                if let Some(tr) = tcx.trait_of_assoc(uv.def) {
                    u.push(("trait", s(self.path(tr))));
                    if let Some(st) = uv.args.types().next() {
                        u.push(("self_ty", self.ty(st)));
                    }
                }
                o.push(("uneval", J::O(u)));
            }
            mir::Const::Ty(_, ct) => {
                o.push(("tyconst", s(format!("{}", ct))));
            }
            mir::Const::Val(..) => {}
        }
        let is_scalar_ty = cty.is_integral() || cty.is_floating_point() || cty.is_bool() || cty.is_char();
        let ev = std::panic::catch_unwind(std::panic::AssertUnwindSafe(|| c.const_.try_eval_scalar_int(tcx, env)));
        if let Ok(Some(si)) = ev {
            let bits = si.to_bits(si.size());
            o.push(("bits", s(format!("{}", bits))));
            o.push(("size", J::N(si.size().bytes() as i128)));
        } else if is_scalar_ty {
            o.push(("generic", J::B(true)));
        }
        o.push(("disp", s(format!("{}", c.const_))));
        J::O(o)
    }

    fn operand(&mut self, owner: DefId, op: &Operand<'tcx>) -> J {
        match op {
            Operand::Copy(p) => J::A(vec![s("cp"), self.place(p)]),
            Operand::Move(p) => J::A(vec![s("mv"), self.place(p)]),
            Operand::Constant(c) => J::A(vec![s("c"), self.constant(owner, c)]),
            #[allow(unreachable_patterns)]
            _ => J::A(vec![s("other"), s(format!("{:?}", op))]),
        }
    }

    fn rvalue(&mut self, owner: DefId, rv: &Rvalue<'tcx>) -> J {
        match rv {
            Rvalue::Use(op, ..) => J::A(vec![s("use"), self.operand(owner, op)]),
            Rvalue::Repeat(op, n) => J::A(vec![s("repeat"), self.operand(owner, op), s(format!("{}", n))]),
            Rvalue::Ref(_, bk, p) => {
                let m = matches!(bk, mir::BorrowKind::Mut { .. });
                J::A(vec![s("ref"), J::B(m), self.place(p)])
            }
            Rvalue::ThreadLocalRef(d) => J::A(vec![s("tls"), s(self.path(*d))]),
            Rvalue::RawPtr(k, p) => J::A(vec![s("rawptr"), s(format!("{:?}", k)), self.place(p)]),
            Rvalue::Cast(k, op, t) => {
                let kind = match k {
                    mir::CastKind::PointerCoercion(pc, _) => format!("PointerCoercion({:?})", pc),
                    other => format!("{:?}", other),
                };
                J::A(vec![s("cast"), s(kind), self.operand(owner, op), self.ty(*t)])
            }
            Rvalue::BinaryOp(op, ab) => {
                let (a, b) = &**ab;
                J::A(vec![s("bin"), s(format!("{:?}", op)), self.operand(owner, a), self.operand(owner, b)])
            }
            Rvalue::UnaryOp(op, a) => J::A(vec![s("un"), s(format!("{:?}", op)), self.operand(owner, a)]),
            Rvalue::Discriminant(p) => J::A(vec![s("discr"), self.place(p)]),
            Rvalue::Aggregate(kind, ops) => {
                let k = match &**kind {
                    mir::AggregateKind::Array(t) => J::A(vec![s("array"), self.ty(*t)]),
                    mir::AggregateKind::Tuple => J::A(vec![s("tuple")]),
                    mir::AggregateKind::Adt(did, variant, args, _, active) => {
                        let adt = self.tcx.adt_def(*did);
                        let vname = adt.variant(*variant).name.to_string();
                        J::A(vec![
                            s("adt"),
                            s(self.path(*did)),
                            J::N(variant.as_usize() as i128),
                            s(vname),
                            self.args(args),
                            match active {
                                Some(f) => J::N(f.as_usize() as i128),
                                None => J::Null,
                            },
                        ])
                    }
                    mir::AggregateKind::Closure(did, args) => {
                        J::A(vec![s("closure"), s(self.path(*did)), s(self.hash(*did)), self.args(args)])
                    }
                    mir::AggregateKind::RawPtr(t, m) => J::A(vec![s("rawptr"), self.ty(*t), J::B(m.is_mut())]),
                    other => J::A(vec![s("other"), s(format!("{:?}", other))]),
                };
                let v: Vec<J> = ops.iter().map(|o| self.operand(owner, o)).collect();
                J::A(vec![s("agg"), k, J::A(v)])
            }
            Rvalue::CopyForDeref(p) => J::A(vec![s("use"), J::A(vec![s("cp"), self.place(p)])]),
            other => J::A(vec![s("other"), s(format!("{:?}", other))]),
        }
    }

    fn body(&mut self, did: DefId) -> J {
        let tcx = self.tcx;
        let kind = tcx.def_kind(did);
        let body = if matches!(kind, DefKind::Const { .. } | DefKind::AssocConst { .. }) { tcx.mir_for_ctfe(did) } else { tcx.optimized_mir(did) };
        self.body_inner(did, body, None)
    }

    /// the promoted constants of a function (`&(MIN..=MAX)`, `&[]`): small MIR bodies of their own
    fn promoted_bodies(&mut self, did: DefId) -> Vec<J> {
        let tcx = self.tcx;
        let mut out = vec![];
        if !matches!(tcx.def_kind(did), DefKind::Fn | DefKind::AssocFn | DefKind::Closure) {
            return out;
        }
        let proms = tcx.promoted_mir(did);
        for (i, b) in proms.iter_enumerated() {
            let r = std::panic::catch_unwind(std::panic::AssertUnwindSafe(|| self.body_inner(did, b, Some(i.as_usize()))));
            if let Ok(j) = r {
                out.push(j);
            }
        }
        out
    }

    fn body_inner(&mut self, did: DefId, body: &mir::Body<'tcx>, promoted: Option<usize>) -> J {
        let tcx = self.tcx;
        let kind = tcx.def_kind(did);
        let mut o: Vec<(&'static str, J)> = vec![
            ("path", s(match promoted { Some(i) => format!("{}::promoted[{}]", self.path(did), i), None => self.path(did) })),
            ("hash", s(match promoted { Some(i) => format!("{}p{}", self.hash(did), i), None => self.hash(did) })),
            ("kind", s(match promoted { Some(_) => "Promoted".to_string(), None => format!("{:?}", kind) })),
            ("span", s(self.span(tcx.def_span(did)))),
            ("argc", J::N(body.arg_count as i128)),
        ];
        if promoted.is_some() {
            o.push(("root", s(self.path(did))));
        }
        let kind = if promoted.is_some() { DefKind::Mod } else { kind };   // (none of the per-item header fields below apply to a promoted body)
        if matches!(kind, DefKind::Fn | DefKind::AssocFn) {
            o.push(("pub", J::B(tcx.visibility(did).is_public())));
            o.push(("name", s(tcx.item_name(did).to_string())));
            let sig = tcx.fn_sig(did).instantiate_identity().skip_norm_wip();
            o.push(("unsafe", J::B(!sig.safety().is_safe())));
        }
        if matches!(kind, DefKind::Closure) {
            let parent = tcx.typeck_root_def_id(did);
            o.push(("root", s(self.path(parent))));
            o.push(("root_hash", s(self.hash(parent))));
        }
        if matches!(kind, DefKind::AssocFn) {
            if let Some(im) = tcx.impl_of_assoc(did) {
                let st = tcx.type_of(im).instantiate_identity().skip_norm_wip();
                let mut i: Vec<(&'static str, J)> = vec![("self_ty", self.ty(st)), ("impl", s(self.path(im)))];
                if tcx.impl_is_of_trait(im) {
                    let tr = tcx.impl_trait_ref(im).instantiate_identity().skip_norm_wip();
                    i.push(("trait", s(self.path(tr.def_id))));
                    i.push(("trait_args", self.args(tr.args)));
                }
                o.push(("impl", J::O(i)));
            } else if let Some(tr) = tcx.trait_of_assoc(did) {
                o.push(("trait_default", s(self.path(tr))));
            }
        }
        // names of the generic parameters in the order of the GenericArgs of a call to this item (parents first)
        {
            let mut chain = vec![];
            let mut cur = Some(did);
            while let Some(d) = cur {
                let g = tcx.generics_of(d);
                chain.push(g);
                cur = g.parent;
            }
            let mut names = vec![];
            for g in chain.iter().rev() {
                for p in &g.own_params {
                    names.push(s(p.name.to_string()));
                }
            }
            o.push(("generics", J::A(names)));
        }
        let locals: Vec<J> = body.local_decls.iter().map(|d| self.ty(d.ty)).collect();
        o.push(("locals", J::A(locals)));
        let mut names = BTreeMap::new();
        for vdi in &body.var_debug_info {
            if let mir::VarDebugInfoContents::Place(p) = &vdi.value {
                if p.projection.is_empty() {
                    names.insert(format!("{}", p.local.as_usize()), s(vdi.name.to_string()));
                } else {
                    // captured upvars etc: keep as place
                    names.insert(format!("{}@{:?}", vdi.name, p), self.place(p));
                }
            }
        }
        o.push(("names", J::M(names)));
        let mut blocks = vec![];
        for (_bb, data) in body.basic_blocks.iter_enumerated() {
            let mut stmts = vec![];
            for st in &data.statements {
                match &st.kind {
                    StatementKind::Assign(b) => {
                        let (p, rv) = &**b;
                        stmts.push(J::A(vec![s("="), self.place(p), self.rvalue(did, rv), self.line(st.source_info.span)]));
                    }
                    StatementKind::SetDiscriminant { place, variant_index } => {
                        stmts.push(J::A(vec![s("setdiscr"), self.place(place), J::N(variant_index.as_usize() as i128)]));
                    }
                    StatementKind::Intrinsic(i) => match &**i {
                        mir::NonDivergingIntrinsic::Assume(op) => stmts.push(J::A(vec![s("assume"), self.operand(did, op)])),
                        mir::NonDivergingIntrinsic::CopyNonOverlapping(c) => stmts.push(J::A(vec![
                            s("copy_nonoverlapping"),
                            self.operand(did, &c.src),
                            self.operand(did, &c.dst),
                            self.operand(did, &c.count),
                        ])),
                    },
                    StatementKind::StorageLive(_)
                    | StatementKind::StorageDead(_)
                    | StatementKind::Nop
                    | StatementKind::FakeRead(..)
                    | StatementKind::PlaceMention(..)
                    | StatementKind::AscribeUserType(..)
                    | StatementKind::Coverage(..)
                    | StatementKind::ConstEvalCounter
                    | StatementKind::BackwardIncompatibleDropHint { .. } => {}
                    #[allow(unreachable_patterns)]
                    other => stmts.push(J::A(vec![s("other"), s(format!("{:?}", other))])),
                }
            }
            let term = data.terminator();
            let line = self.line(term.source_info.span);
            let exp = J::B(term.source_info.span.from_expansion());
            let t = match &term.kind {
                TerminatorKind::Goto { target } => J::O(vec![("k", s("goto")), ("t", J::N(target.as_usize() as i128))]),
                TerminatorKind::SwitchInt { discr, targets } => {
                    let mut ts = vec![];
                    for (v, bb) in targets.iter() {
                        ts.push(J::A(vec![s(format!("{}", v)), J::N(bb.as_usize() as i128)]));
                    }
                    let dty = discr.ty(&body.local_decls, tcx);
                    J::O(vec![
                        ("k", s("switch")),
                        ("d", self.operand(did, discr)),
                        ("dty", self.ty(dty)),
                        ("ts", J::A(ts)),
                        ("o", J::N(targets.otherwise().as_usize() as i128)),
                        ("l", line),
                    ])
                }
                TerminatorKind::Return => J::O(vec![("k", s("return"))]),
                TerminatorKind::Unreachable => J::O(vec![("k", s("unreachable"))]),
                TerminatorKind::UnwindResume => J::O(vec![("k", s("resume"))]),
                TerminatorKind::UnwindTerminate(_) => J::O(vec![("k", s("terminate"))]),
                TerminatorKind::Drop { place, target, unwind, .. } => {
                    let pty = place.ty(&body.local_decls, tcx).ty;
                    J::O(vec![
                        ("k", s("drop")),
                        ("p", self.place(place)),
                        ("ty", self.ty(pty)),
                        ("t", J::N(target.as_usize() as i128)),
                        ("u", unwind_j(unwind)),
                        ("l", line),
                    ])
                }
                TerminatorKind::Call { func, args, destination, target, unwind, .. } => {
                    let fty = func.ty(&body.local_decls, tcx);
                    let callee = match fty.kind() {
                        ty::FnDef(cd, cargs) => self.callee_info(did, *cd, cargs),
                        _ => J::Null,
                    };
                    let av: Vec<J> = args.iter().map(|a| self.operand(did, &a.node)).collect();
                    J::O(vec![
                        ("k", s("call")),
                        ("f", if matches!(fty.kind(), ty::FnDef(..)) { J::Null } else { self.operand(did, func) }),
                        ("fty", self.ty(fty)),
                        ("callee", callee),
                        ("args", J::A(av)),
                        ("dest", self.place(destination)),
                        ("t", match target {
                            Some(t) => J::N(t.as_usize() as i128),
                            None => J::Null,
                        }),
                        ("u", unwind_j(unwind)),
                        ("l", line),
                        ("x", exp),
                    ])
                }
                TerminatorKind::Assert { cond, expected, msg, target, unwind } => {
                    let (mk, mops): (String, Vec<J>) = match &**msg {
                        mir::AssertKind::BoundsCheck { len, index } => {
                            ("BoundsCheck".into(), vec![self.operand(did, len), self.operand(did, index)])
                        }
                        mir::AssertKind::Overflow(op, a, b) => {
                            (format!("Overflow({:?})", op), vec![self.operand(did, a), self.operand(did, b)])
                        }
                        mir::AssertKind::OverflowNeg(a) => ("OverflowNeg".into(), vec![self.operand(did, a)]),
                        mir::AssertKind::DivisionByZero(a) => ("DivisionByZero".into(), vec![self.operand(did, a)]),
                        mir::AssertKind::RemainderByZero(a) => ("RemainderByZero".into(), vec![self.operand(did, a)]),
                        mir::AssertKind::MisalignedPointerDereference { .. } => ("Misaligned".into(), vec![]),
                        mir::AssertKind::NullPointerDereference => ("NullDeref".into(), vec![]),
                        other => (format!("{:?}", other).split('(').next().unwrap_or("").to_string(), vec![]),
                    };
                    J::O(vec![
                        ("k", s("assert")),
                        ("c", self.operand(did, cond)),
                        ("e", J::B(*expected)),
                        ("m", s(mk)),
                        ("mo", J::A(mops)),
                        ("t", J::N(target.as_usize() as i128)),
                        ("u", unwind_j(unwind)),
                        ("l", line),
                    ])
                }
                TerminatorKind::FalseEdge { real_target, .. } => J::O(vec![("k", s("goto")), ("t", J::N(real_target.as_usize() as i128))]),
                TerminatorKind::FalseUnwind { real_target, .. } => J::O(vec![("k", s("goto")), ("t", J::N(real_target.as_usize() as i128))]),
                other => J::O(vec![("k", s("other")), ("dbg", s(format!("{:?}", other)))]),
            };
            blocks.push(J::O(vec![("c", J::B(data.is_cleanup)), ("s", J::A(stmts)), ("t", t)]));
        }
        o.push(("blocks", J::A(blocks)));
        J::O(o)
    }

    fn const_value(&mut self, did: DefId) -> J {
        // evaluated monomorphic constant, if scalar
        let tcx = self.tcx;
        let generics = tcx.generics_of(did);
        if generics.count() != 0 || generics.parent_count != 0 {
            return J::Null;
        }
        let r = std::panic::catch_unwind(std::panic::AssertUnwindSafe(|| tcx.const_eval_poly(did)));
        match r {
            Ok(Ok(cv)) => match cv.try_to_scalar_int() {
                Some(si) => J::O(vec![("bits", s(format!("{}", si.to_bits(si.size())))), ("size", J::N(si.size().bytes() as i128))]),
                None => J::O(vec![("nonscalar", J::B(true))]),
            },
            _ => J::Null,
        }
    }
}

fn unwind_j(u: &mir::UnwindAction) -> J {
    match u {
        mir::UnwindAction::Cleanup(bb) => J::N(bb.as_usize() as i128),
        mir::UnwindAction::Continue => s("continue"),
        mir::UnwindAction::Unreachable => s("unreachable"),
        mir::UnwindAction::Terminate(_) => s("terminate"),
    }
}

struct Cb;
impl rustc_driver::Callbacks for Cb {
    fn after_analysis<'tcx>(&mut self, _c: &rustc_interface::interface::Compiler, tcx: TyCtxt<'tcx>) -> Compilation {
        let Ok(outdir) = std::env::var("VERIF_FACTS_DIR") else {
            return Compilation::Continue;
        };
        with_no_trimmed_paths!(with_no_visible_paths!(with_resolve_crate_name!(emit(tcx, &outdir))));
        Compilation::Continue
    }
}

fn emit<'tcx>(tcx: TyCtxt<'tcx>, outdir: &str) {
    let mut cx = Cx { tcx, types: BTreeMap::new(), extern_wanted: vec![], extern_seen: Default::default() };
    let crate_name = tcx.crate_name(LOCAL_CRATE).to_string();
    let mut bodies = vec![];
    let mut const_bodies = vec![];
    let mut promoted_bodies = vec![];
    for ldid in tcx.hir_body_owners() {
        let did = ldid.to_def_id();
        match tcx.def_kind(did) {
            DefKind::Fn | DefKind::AssocFn | DefKind::Closure => {
                bodies.push(cx.body(did));
                promoted_bodies.extend(cx.promoted_bodies(did));
            }
            // bodies of generic associated constants (e.g. `const CHANNELS: usize = N`) cannot be evaluated: keep their MIR
            // (and those of the other constants: an aggregate constant such as `Buffer::SILENT` has no scalar value to report)
            DefKind::AssocConst { .. } | DefKind::Const { .. } => {
                let r = std::panic::catch_unwind(std::panic::AssertUnwindSafe(|| cx.body(did)));
                if let Ok(b) = r {
                    const_bodies.push(b);
                }
            }
            _ => {}
        }
    }
    // small library combinators reached from this crate (bounded, transitively through the same whitelist)
    let mut extern_bodies = vec![];
    let mut rounds = 0;
    while let Some(did) = cx.extern_wanted.pop() {
        rounds += 1;
        if rounds > 400 {
            break;
        }
        let r = std::panic::catch_unwind(std::panic::AssertUnwindSafe(|| cx.body(did)));
        if let Ok(b) = r {
            extern_bodies.push(b);
        }
    }
    // items
    let mut adts = vec![];
    let mut traits = vec![];
    let mut impls = vec![];
    let mut consts = vec![];
    let mut fns_nobody = vec![];
    for id in tcx.hir_crate_items(()).definitions() {
        let did = id.to_def_id();
        match tcx.def_kind(did) {
            DefKind::Struct | DefKind::Enum | DefKind::Union => {
                let adt = tcx.adt_def(did);
                let mut variants = vec![];
                for v in adt.variants() {
                    let mut fields = vec![];
                    for f in &v.fields {
                        let fty = tcx.type_of(f.did).instantiate_identity().skip_norm_wip();
                        fields.push(J::O(vec![
                            ("name", s(f.name.to_string())),
                            ("ty", cx.ty(fty)),
                            ("pub", J::B(f.vis.is_public())),
                        ]));
                    }
                    variants.push(J::O(vec![("name", s(v.name.to_string())), ("fields", J::A(fields))]));
                }
                adts.push(J::O(vec![
                    ("path", s(cx.path(did))),
                    ("kind", s(format!("{:?}", tcx.def_kind(did)))),
                    ("pub", J::B(tcx.visibility(did).is_public())),
                    ("variants", J::A(variants)),
                    ("span", s(cx.span(tcx.def_span(did)))),
                ]));
            }
            DefKind::Trait => {
                let mut items = vec![];
                for it in tcx.associated_items(did).in_definition_order() {
                    let Some(name) = it.opt_name() else { continue };
                    items.push(J::O(vec![
                        ("name", s(name.to_string())),
                        ("kind", s(match it.kind {
                            ty::AssocKind::Const { .. } => "const",
                            ty::AssocKind::Fn { .. } => "fn",
                            ty::AssocKind::Type { .. } => "type",
                        })),
                        ("default", J::B(it.defaultness(tcx).has_value())),
                        ("path", s(cx.path(it.def_id))),
                    ]));
                }
                traits.push(J::O(vec![("path", s(cx.path(did))), ("items", J::A(items))]));
            }
            DefKind::Impl { of_trait } => {
                let st = tcx.type_of(did).instantiate_identity().skip_norm_wip();
                let mut o: Vec<(&'static str, J)> = vec![
                    ("path", s(cx.path(did))),
                    ("self_ty", cx.ty(st)),
                    ("derived", J::B(tcx.is_automatically_derived(did))),
                    ("span", s(cx.span(tcx.def_span(did)))),
                ];
                if of_trait {
                    let tr = tcx.impl_trait_ref(did).instantiate_identity().skip_norm_wip();
                    o.push(("trait", s(cx.path(tr.def_id))));
                    o.push(("trait_args", cx.args(tr.args)));
                }
                let preds: Vec<J> = tcx
                    .predicates_of(did)
                    .instantiate_identity(tcx)
                    .predicates
                    .iter()
                    .map(|p| s(format!("{}", p.skip_norm_wip())))
                    .collect();
                o.push(("preds", J::A(preds)));
                let mut items = vec![];
                for it in tcx.associated_items(did).in_definition_order() {
                    let Some(name) = it.opt_name() else { continue };
                    let mut io: Vec<(&'static str, J)> = vec![("name", s(name.to_string())), ("path", s(cx.path(it.def_id))), ("hash", s(cx.hash(it.def_id)))];
                    match it.kind {
                        ty::AssocKind::Const { .. } => {
                            io.push(("kind", s("const")));
                            io.push(("value", cx.const_value(it.def_id)));
                            let cty = tcx.type_of(it.def_id).instantiate_identity().skip_norm_wip();
                            io.push(("ty", cx.ty(cty)));
                        }
                        ty::AssocKind::Fn { .. } => io.push(("kind", s("fn"))),
                        ty::AssocKind::Type { .. } => {
                            io.push(("kind", s("type")));
                            let aty = tcx.type_of(it.def_id).instantiate_identity().skip_norm_wip();
                            io.push(("ty", cx.ty(aty)));
                        }
                    }
                    items.push(J::O(io));
                }
                o.push(("items", J::A(items)));
                impls.push(J::O(o));
            }
            DefKind::Const { .. } => {
                let cty = tcx.type_of(did).instantiate_identity().skip_norm_wip();
                consts.push(J::O(vec![("path", s(cx.path(did))), ("ty", cx.ty(cty)), ("value", cx.const_value(did))]));
            }
            DefKind::Fn | DefKind::AssocFn => {
                // signature table (also covers trait methods without a body)
                let sig = tcx.fn_sig(did).instantiate_identity().skip_norm_wip();
                fns_nobody.push(J::O(vec![
                    ("path", s(cx.path(did))),
                    ("hash", s(cx.hash(did))),
                    ("pub", J::B(tcx.visibility(did).is_public())),
                    ("unsafe", J::B(!sig.safety().is_safe())),
                    ("sig", s(format!("{}", sig))),
                ]));
            }
            _ => {}
        }
    }
    let types = std::mem::take(&mut cx.types);
    let doc = J::O(vec![
        ("crate", s(crate_name.clone())),
        ("config", s(std::env::var("VERIF_CONFIG").unwrap_or_default())),
        ("adts", J::A(adts)),
        ("traits", J::A(traits)),
        ("impls", J::A(impls)),
        ("consts", J::A(consts)),
        ("fns", J::A(fns_nobody)),
        ("bodies", J::A(bodies)),
        ("const_bodies", J::A(const_bodies)),
        ("promoted_bodies", J::A(promoted_bodies)),
        ("extern_bodies", J::A(extern_bodies)),
        ("types", J::M(types)),
    ]);
    let mut out = String::new();
    doc.write(&mut out);
    let kind = if tcx.crate_types().iter().any(|t| matches!(t, rustc_session_config::CrateType::Executable)) { "bin" } else { "lib" };
    let _ = std::fs::create_dir_all(outdir);
    let fname = format!("{}/{}.{}.json", outdir, crate_name, kind);
    std::fs::write(&fname, out).expect("write facts");
}

mod rustc_session_config {
    pub use rustc_session::config::CrateType;
}
extern crate rustc_session;

fn main() {
    let mut a: Vec<String> = std::env::args().collect();
    // RUSTC_WORKSPACE_WRAPPER passes the real rustc path as argv[1]
    if a.len() > 1 {
        a.remove(1);
    }
    rustc_driver::run_compiler(&a, &mut Cb);
}
