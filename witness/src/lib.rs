//! E6 — compile-fail witnesses: programs an external user might write that MUST NOT type-check, each paired
//! with a compiling twin that differs only in the offending line (so a witness cannot pass merely because a
//! path is wrong).  Nothing here is executed (`compile_fail` / `no_run`).  Run with
//! `cargo +nightly test --doc --offline` (the stable toolchain ignores the error codes).

/// C03: frames of different channel counts cannot be combined.
/// ```compile_fail,E0271
/// use dasp_frame::Frame;
/// let a = [0.0f32; 2];
/// let b = [0.0f32; 3];
/// let _c: [f32; 2] = a.zip_map(b, |x, y| x + y);
/// ```
/// twin:
/// ```no_run
/// use dasp_frame::Frame;
/// let a = [0.0f32; 2];
/// let b = [0.0f32; 2];
/// let _c: [f32; 2] = a.zip_map(b, |x, y| x + y);
/// ```
pub fn c03_zip_map_channel_mismatch() {}

/// C03/C04: an unsigned frame cannot be added to an unsigned frame — the operand must be the signed twin,
/// i.e. re-centring is in the types.
/// ```compile_fail,E0271
/// use dasp_frame::Frame;
/// let a = [128u8; 2];
/// let b = [128u8; 2];
/// let _c = a.add_amp(b);
/// ```
/// twin:
/// ```no_run
/// use dasp_frame::Frame;
/// let a = [128u8; 2];
/// let b = [0i8; 2];
/// let _c = a.add_amp(b);
/// ```
pub fn c03_add_amp_needs_signed_twin() {}

/// C06: the ring-buffer state cannot be forged with a struct literal (fields are private).
/// ```compile_fail,E0451
/// let _rb = dasp_ring_buffer::Fixed { first: 9, data: [0i32; 4] };
/// ```
/// twin:
/// ```no_run
/// let _rb = dasp_ring_buffer::Fixed::from([0i32; 4]);
/// ```
pub fn c06_fixed_fields_private() {}

/// C06: the unchecked constructor is `unsafe`.
/// ```compile_fail,E0133
/// let _rb = dasp_ring_buffer::Fixed::from_raw_parts_unchecked(9, [0i32; 4]);
/// ```
/// twin:
/// ```no_run
/// let _rb = unsafe { dasp_ring_buffer::Fixed::from_raw_parts_unchecked(1, [0i32; 4]) };
/// ```
pub fn c06_unchecked_ctor_is_unsafe() {}

/// C06: same for Bounded.
/// ```compile_fail,E0451
/// let _rb = dasp_ring_buffer::Bounded { start: 7, len: 9, data: [0i32; 4] };
/// ```
/// twin:
/// ```no_run
/// let _rb = dasp_ring_buffer::Bounded::from([0i32; 4]);
/// ```
pub fn c06_bounded_fields_private() {}

/// C09: `Input` (raw pointer + length) can only be built by `process`.
/// ```compile_fail,E0624
/// let _i = dasp_graph::Input::new(&[]);
/// ```
/// twin:
/// ```no_run
/// fn takes(_i: &dasp_graph::Input) {}
/// let _f = takes;
/// ```
pub fn c09_input_new_is_crate_private() {}

/// C15: the tuple constructor of the custom-width types is private (only new / From / new_unchecked construct).
/// ```compile_fail,E0603
/// let _x = dasp_sample::types::i24::I24(5);
/// ```
/// twin:
/// ```no_run
/// let _x = dasp_sample::types::i24::I24::new(5);
/// ```
pub fn c15_tuple_ctor_private() {}

/// C10: the unchecked in-place loop cannot be named outside the crate (the length assert cannot be bypassed).
/// ```compile_fail,E0603
/// let mut a = [[0.0f32; 1]; 2];
/// let b = [[0.0f32; 1]; 1];
/// unsafe { dasp_slice::zip_map_in_place_unchecked(&mut a[..], &b[..], |x, _| x) };
/// ```
/// twin:
/// ```no_run
/// let mut a = [[0.0f32; 1]; 2];
/// let b = [[0.0f32; 1]; 2];
/// dasp_slice::zip_map_in_place(&mut a[..], &b[..], |x, _| x);
/// ```
pub fn c10_unchecked_loop_private() {}

/// C12: a fork cannot be built over a ring buffer whose element type differs from the signal's frame type.
/// ```compile_fail,E0271
/// use dasp_signal::Signal;
/// let rb = dasp_ring_buffer::Bounded::from([[0i16; 2]; 4]);
/// let sig = dasp_signal::gen(|| [0.0f32; 2]);
/// let mut f = sig.fork(rb);
/// let (_a, _b) = f.by_ref();
/// ```
/// twin:
/// ```no_run
/// use dasp_signal::Signal;
/// let rb = dasp_ring_buffer::Bounded::from([[0.0f32; 2]; 4]);
/// let sig = dasp_signal::gen(|| [0.0f32; 2]);
/// let mut f = sig.fork(rb);
/// let (_a, _b) = f.by_ref();
/// ```
pub fn c12_fork_buffer_type_matches() {}
