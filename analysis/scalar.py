"""E4 scalarisation: a frame-valued term is evaluated per channel.

Frame::map(f, c) / zip_map(f, g, c) / from_fn(c) are the per-channel application of closure c (that is C03);
add_amp / mul_amp / scale_amp / offset_amp / to_float_frame / to_signed_frame are the matching sample operations,
and under the amplitude abstraction (C01/C02) sample conversions are the identity and EQUILIBRIUM is 0.
The result is a list of cases (conditions, rational function): closures with branches yield one case per path.
A condition is (rel, RF d) meaning `d rel 0` with rel in < <= > >= == !=."""
from fractions import Fraction

import poly as P
import terms as T

FRAME = 'dasp_frame::Frame::'
CMP = {'lt': '<', 'le': '<=', 'gt': '>', 'ge': '>=', 'eq': '==', 'ne': '!='}
OPREL = {'Lt': '<', 'Le': '<=', 'Gt': '>', 'Ge': '>=', 'Eq': '==', 'Ne': '!='}
NEG = {'<': '>=', '<=': '>', '>': '<=', '>=': '<', '==': '!=', '!=': '=='}


class Unsupported(Exception):
    pass


def ch(t):
    """the amplitude of one (generic) channel of frame term t (an opaque frame term stands for its generic channel)"""
    return P.atom(t)


class Scalar:
    def __init__(self, cx, path, zero_equilibrium=True, extra_leaf=None):
        self.cx = cx
        self.path = path
        self.zero_eq = zero_equilibrium
        self.extra_leaf = extra_leaf
        self.nph = 0

    # ---- frame level -------------------------------------------------------
    def cases(self, t, path=None, env=None):
        """list of (conds, RF) for frame- or sample-valued term t"""
        path = path or self.path
        env = env or {}
        from rules.common import deref, strip_epoch
        if t[0] == 'ref':
            t = deref(path, t)
        t = strip_epoch(t) if t[0] in ('deref', 'derefh', 'field') else t
        if t in env:
            return env[t]
        if t[0] == 'assoc' and t[2] == 'EQUILIBRIUM' and self.zero_eq:
            return [((), P.const(0))]
        if t[0] == 'app' and t[1].startswith(FRAME):
            name = t[1][len(FRAME):]
            a = t[2]
            if name == 'map':
                return self.apply_closure(a[1], [self.cases(a[0], path, env)], path, env)
            if name == 'zip_map':
                return self.apply_closure(a[2], [self.cases(a[0], path, env), self.cases(a[1], path, env)], path, env)
            if name in ('add_amp', 'offset_amp'):
                return self.combine(self.cases(a[0], path, env), self.cases(a[1], path, env), lambda x, y: x + y)
            if name in ('mul_amp', 'scale_amp'):
                return self.combine(self.cases(a[0], path, env), self.cases(a[1], path, env), lambda x, y: x * y)
            if name in ('to_float_frame', 'to_signed_frame'):
                return self.cases(a[0], path, env)
            if name == 'from_fn':
                return self.apply_closure(a[0], [[((), P.atom(('chan-index',)))]], path, env)
            raise Unsupported('frame operation %s' % name)
        # sample-level / scalar term
        return self.scalar_cases(t, path, env)

    def combine(self, xs, ys, f):
        return [(cx + cy, f(x, y)) for cx, x in xs for cy, y in ys]

    def apply_closure(self, clo, arg_cases, path, env):
        from rules.common import returning
        if clo[0] == 'ref':
            from rules.common import deref
            clo = deref(path, clo)
        if not (clo[0] == 'agg' and clo[1][0] == 'closure'):
            if clo[0] == 'fnitem':
                # a function item used as the mapping (e.g. Sample::to_sample): identity-like items are handled by the normaliser
                ph = [('ph', self.nph + i) for i in range(len(arg_cases))]
                self.nph += len(arg_cases)
                body_term = ('app', clo[1], tuple(ph), ())
                out = []
                for combo in self.product(arg_cases):
                    env2 = dict(env)
                    conds = ()
                    for p_, (c, v) in zip(ph, combo):
                        env2[p_] = [((), v)]
                        conds += c
                    for c2, v2 in self.scalar_cases(body_term, path, env2):
                        out.append((conds + c2, v2))
                return out
            raise Unsupported('mapping is not a closure literal: %s' % (clo[0],))
        ph = [('ph', self.nph + i) for i in range(len(arg_cases))]
        self.nph += len(arg_cases)
        cps = self.cx.closure_paths(clo, path, ph)
        if cps is None:
            raise Unsupported('closure body not found')
        cps = returning(cps)
        out = []
        for combo in self.product(arg_cases):
            env2 = dict(env)
            conds = ()
            for p_, (c, v) in zip(ph, combo):
                env2[p_] = [((), v)]
                conds += c
            for cp in cps:
                pc = self.path_conds(cp, env2)
                if pc is None:
                    continue
                for c2, v2 in self.cases(cp['ret'], cp, env2):
                    out.append((conds + pc + c2, v2))
        return out

    @staticmethod
    def product(lists):
        if not lists:
            yield ()
            return
        for x in lists[0]:
            for rest in Scalar.product(lists[1:]):
                yield (x,) + rest

    # ---- scalar level --------------------------------------------------------
    def normalizer(self, path, env):
        from rules.common import deref

        def resolve(t):
            if t[0] == 'ref':
                return deref(path, t)
            return t

        def leaf(t):
            if t in env:
                cs = env[t]
                if len(cs) == 1 and not cs[0][0]:
                    return cs[0][1]
                raise Unsupported('piecewise value used inside arithmetic')
            if t[0] == 'assoc' and t[2] == 'EQUILIBRIUM' and self.zero_eq:
                return P.const(0)
            if t[0] == 'assoc' and t[2] == 'IDENTITY':
                return P.const(1)
            if t[0] == 'app' and t[1] == 'dasp_sample::FloatSample::sample_sqrt':
                a = N(t[2][0])
                return P.atom(('fn', 'sqrt', (a.key(),)))
            if t[0] == 'app' and t[1].startswith(FRAME):
                cs = self.cases(t, path, env)
                if len(cs) == 1 and not cs[0][0]:
                    return cs[0][1]
                raise Unsupported('piecewise frame value inside arithmetic')
            if self.extra_leaf:
                return self.extra_leaf(t, N)
            return None
        N = P.Normalizer(resolve=resolve, leaf=leaf)
        return N

    def scalar_cases(self, t, path, env):
        # a two-element table indexed by a comparison (`[release, attack][(l < d) as usize]`) is a selection: one case each
        sel = self.find_select(t)
        if sel is not None:
            from rules.common import substitute
            term, cond, x0, x1 = sel
            out = []
            for truth, x in ((False, x0), (True, x1)):
                k = self.cond_of(cond, ('bool', truth), path, env)
                if k is None:
                    raise Unsupported('table indexed by something that is not a scalar comparison')
                for c2, v2 in self.scalar_cases(substitute(t, term, x), path, env):
                    out.append(((k,) + c2, v2))
            return out
        N = self.normalizer(path, env)
        return [((), N(t))]

    @staticmethod
    def find_select(t):
        if not isinstance(t, tuple) or not t:
            return None
        if t[0] == 'index' and len(t) == 3 and isinstance(t[1], tuple) and t[1][0] == 'agg' and t[1][1] and t[1][1][0] == 'array' and len(t[1][2]) == 2 \
                and isinstance(t[2], tuple) and t[2][0] == 'cast' and isinstance(t[2][2], tuple) \
                and (t[2][2][0] == 'op' or (t[2][2][0] == 'app' and str(t[2][2][1]).startswith(('core::cmp::PartialOrd::', 'core::cmp::PartialEq::'))) or t[2][2][0] == 'un'):
            return t, t[2][2], t[1][2][0], t[1][2][1]
        for x in t:
            r = Scalar.find_select(x)
            if r is not None:
                return r
        return None

    def cond_of(self, c, v, path, env):
        """(rel, RF) for a branch condition, or None if it is not a scalar comparison"""
        if v[0] != 'bool':
            return None
        truth = v[1]
        while c[0] == 'un' and c[1] == 'Not':
            c, truth = c[2], not truth
        N = self.normalizer(path, env)
        if c[0] == 'app' and c[1].startswith('core::cmp::PartialOrd::') or (c[0] == 'app' and c[1].startswith('core::cmp::PartialEq::')):
            rel = CMP[c[1].rsplit('::', 1)[-1]]
            a, b = N(c[2][0]), N(c[2][1])
        elif c[0] == 'op' and c[1] in OPREL:
            rel = OPREL[c[1]]
            a, b = N(c[2]), N(c[3])
        else:
            return None
        if not truth:
            rel = NEG[rel]
        return (rel, a - b)

    def path_conds(self, cp, env):
        out = ()
        for c, v, *_ in cp['conds']:
            k = self.cond_of(c, v, cp, env)
            if k is None:
                raise Unsupported('closure branches on something that is not a scalar comparison')
            out += (k,)
        return out


def canon_cond(c):
    """canonical form of (rel, d): make the leading coefficient sign canonical"""
    rel, d = c
    key = d.key()
    nd = -d
    if repr(nd.key()) < repr(key):
        flip = {'<': '>', '<=': '>=', '>': '<', '>=': '<=', '==': '==', '!=': '!='}
        return (flip[rel], nd.key())
    return (rel, key)


def cases_equal(got, want):
    """compare two case lists as piecewise functions given as sets of (cond set, value)"""
    def norm(cs):
        return sorted(((tuple(sorted(repr(canon_cond(c)) for c in conds)), v.key()) for conds, v in cs), key=repr)
    return norm(got) == norm(want)


def show_cases(cs):
    return ' | '.join('%s%r' % (('[' + ' & '.join('%r %s 0' % (d, rel) for rel, d in conds) + '] ') if conds else '', v) for conds, v in cs)
