"""Which function bodies the rules of the running check looked into by inlining them.

A private helper (`I11::wrap_overflow`) has no rule instance of its own: the rule about `From<i16>::from` interprets it
as part of its caller.  The engines note every workspace body they inline on behalf of a rule here, and the completeness
pass (ownership.py) counts a *non-public* function as examined when a rule inlined it -- its only users are the functions
of its own crate, each of which is either examined by a rule (with the helper inlined) or compared with the reference
(again with the helper inlined).  Public functions are not excused this way: users call them with arguments no caller in
the crate passes."""
INLINED = set()


def note(body):
    if body is not None and body.get('crate') != '<extern>' and body.get('path'):
        INLINED.add(body['path'])


def reset():
    INLINED.clear()
