"""E5 — ScaledInt / FloatExact abstract interpreter over MIR facts.

For one integer input s ranging over a cell [lo, hi], an integer value is

    v(s) = floor((s + r) / 2^k) * 2^m + d          (Form)

which is monotone non-decreasing in s.  The family is closed under + const,
<<, >> (floor), two's-complement reinterpretation (`as`), wrapping add and
xor with the sign bit, * and / by powers of two; whenever an operation would
behave differently on two parts of the cell (a comparison, a wrap-around, an
overflow flag) the evaluation raises Split(t) and the driver re-evaluates the
two sub-cells [lo, t-1], [t, hi] (trace partitioning on the input).  Workspace
callees are inlined, so helper functions / composed conversions need no
special treatment.  Anything outside the family raises Top (=> UNPROVEN).

Float values:  ('ffrom', Form, F, j)  = RN_F(form(s)) * 2^j     (int -> float)
               ('fin', F, j)          = s * 2^j, s in [-1, 1) a float of type F
               ('fcast', F0, F, j)    = RN_F(s) * 2^j for a float input of type F0
Scaling a binary float by a power of two is exact absent overflow/underflow;
the exponents met here (|j| <= 64 on values of magnitude <= 2^64) are far from
both.
"""
from fractions import Fraction

import examined


class Top(Exception):
    pass


class Split(Exception):
    def __init__(self, t):
        self.t = t


class NeedCell(Exception):
    """A float-source function reached its FloatToInt cast: continue on t = trunc(s*2^j)."""

    def __init__(self, j, F, lo, hi):
        self.j, self.F, self.lo, self.hi = j, F, lo, hi


class Form:
    __slots__ = ('k', 'r', 'm', 'd')

    def __init__(self, k=0, r=0, m=0, d=0):
        self.k, self.r, self.m, self.d = k, r, m, d
        if k == 0:
            self.d += self.r << self.m
            self.r = 0
        else:
            q, rem = divmod(self.r, 1 << k)
            self.r = rem
            self.d += q << self.m

    def ev(self, x):
        return (((x + self.r) >> self.k) << self.m) + self.d

    def key(self):
        return (self.k, self.r, self.m, self.d)

    def add(self, c):
        return Form(self.k, self.r, self.m, self.d + c)

    def shl(self, n):
        return Form(self.k, self.r, self.m + n, self.d << n)

    def shr(self, n):
        """floor(v / 2^n)"""
        if self.m >= n:
            if self.d % (1 << n) == 0:
                return Form(self.k, self.r, self.m - n, self.d >> n)
            # floor((Q*2^m + d)/2^n) with m>=n : = Q*2^(m-n) + floor(d/2^n)
            return Form(self.k, self.r, self.m - n, self.d >> n)
        # 0 <= m < n :  v = (Q + d1)*2^m + d0, 0 <= d0 < 2^m  ->  floor(v/2^n) = floor((Q + d1)/2^(n-m))
        d1 = self.d >> self.m
        n2 = n - self.m
        return Form(self.k + n2, self.r + (d1 << self.k), 0, 0)

    def __repr__(self):
        return 'floor((s%+d)/2^%d)*2^%d%+d' % (self.r, self.k, self.m, self.d)

    def breakpoints(self, lo, hi, limit):
        """points x in (lo, hi] where the value changes; None if more than limit"""
        per = 1 << self.k
        # value changes at x with (x + r) % per == 0
        first = lo + 1 + ((-(lo + 1 + self.r)) % per)
        if first > hi:
            return []
        n = (hi - first) // per + 1
        if n > limit:
            return None
        return [first + i * per for i in range(n)]


def forms_equal_on(f, g, lo, hi):
    """Exact decision of  forall x in [lo,hi]: f(x) == g(x); returns (bool, witness)."""
    if f.key() == g.key():
        return True, None
    bf = f.breakpoints(lo, hi, 2048)
    bg = g.breakpoints(lo, hi, 2048)
    if bf is not None and bg is not None:
        for x in sorted(set([lo] + bf + bg)):
            if f.ev(x) != g.ev(x):
                return False, x
        return True, None
    # at least one has > 2048 steps in the cell; the normal form is unique on such cells,
    # so different keys mean different functions.  Find a witness among early steps.
    pts = [lo, lo + 1, hi, hi - 1, (lo + hi) // 2]
    for h in (f, g):
        per = 1 << h.k
        first = lo + 1 + ((-(lo + 1 + h.r)) % per)
        pts += [first + i * per for i in range(0, 64) if first + i * per <= hi]
        pts += [first + i * per - 1 for i in range(0, 64) if lo <= first + i * per - 1 <= hi]
    for x in pts:
        if f.ev(x) != g.ev(x):
            return False, x
    return False, None


def first_ge(form, lo, hi, bound):
    """smallest x in [lo,hi] with form(x) >= bound, else hi+1 (form monotone)"""
    if form.ev(lo) >= bound:
        return lo
    if form.ev(hi) < bound:
        return hi + 1
    a, b = lo, hi
    while b - a > 1:
        mid = (a + b) // 2
        if form.ev(mid) >= bound:
            b = mid
        else:
            a = mid
    return b


def log2_exact(fr):
    if fr <= 0:
        return None
    n, d = fr.numerator, fr.denominator
    if d == 1 and n & (n - 1) == 0:
        return n.bit_length() - 1
    if n == 1 and d & (d - 1) == 0:
        return -(d.bit_length() - 1)
    return None


def float_fraction(bits, width):
    """Exact rational value of an IEEE bit pattern (finite)."""
    if width == 32:
        sign, e, m, bias, mb = bits >> 31, (bits >> 23) & 0xff, bits & 0x7fffff, 127, 23
        emax = 0xff
    else:
        sign, e, m, bias, mb = bits >> 63, (bits >> 52) & 0x7ff, bits & ((1 << 52) - 1), 1023, 52
        emax = 0x7ff
    if e == emax:
        return None
    if e == 0:
        v = Fraction(m, 1 << mb) * Fraction(2) ** (1 - bias)
    else:
        v = (1 + Fraction(m, 1 << mb)) * Fraction(2) ** (e - bias)
    return -v if sign else v


class Interp:
    """Abstract execution of one root function on one cell."""

    MAX_DEPTH = 8

    def __init__(self, facts, stats, adt_ranges=None):
        self.facts = facts
        self.stats = stats          # dict counters: obligations, cells, inlined
        self.adt_ranges = adt_ranges or {}   # adt path -> (lo, hi) obligation on construction
        self.lo = self.hi = None
        self.root = 'int'
        self.float_cell = None      # (j, F) once FloatToInt was passed

    # -- type helpers ---------------------------------------------------
    def ity(self, tyname):
        t = self.facts.ty(tyname)
        if t.get('k') != 'int':
            return None
        return t

    def trange(self, tyname):
        t = self.ity(tyname)
        b = t['bits']
        return (-(1 << (b - 1)), (1 << (b - 1)) - 1) if t['signed'] else (0, (1 << b) - 1)

    def interval(self, form):
        return form.ev(self.lo), form.ev(self.hi)

    def fits(self, form, rng):
        a, b = self.interval(form)
        return rng[0] <= a and b <= rng[1]

    def wrap_to(self, form, tyname):
        """two's complement reduction of form into type tyname on the current cell (may Split)."""
        rng = self.trange(tyname)
        a, b = self.interval(form)
        if rng[0] <= a and b <= rng[1]:
            return form
        w = self.ity(tyname)['bits']
        per = 1 << w
        t = (a - rng[0]) // per
        a2, b2 = a - t * per, b - t * per
        if rng[0] <= a2 and b2 <= rng[1]:
            return form.add(-t * per)
        # crosses a period boundary: split where form first reaches the next boundary
        boundary = rng[1] + 1 + t * per
        thr = first_ge(form, self.lo, self.hi, boundary)
        assert self.lo < thr <= self.hi, (a, b, boundary, thr)
        raise Split(thr)

    # -- values -----------------------------------------------------------
    def const(self, c):
        ty = c['ty']
        t = self.facts.ty(ty)
        if 'bits' in c:
            bits = int(c['bits'])
            if t.get('k') == 'int':
                w = t['bits']
                if t['signed'] and bits >= 1 << (w - 1):
                    bits -= 1 << w
                return ('const', bits, ty)
            if t.get('k') == 'bool':
                return ('bool', bool(bits))
            if t.get('k') == 'float':
                fr = float_fraction(bits, t['bits'])
                if fr is None:
                    raise Top('non-finite float constant')
                return ('fconst', fr, ty)
            if t.get('k') == 'adt':
                # evaluated newtype constant (e.g. I24::MIN): scalar payload
                a = self.facts.adts.get(t['path'])
                if a and len(a['variants']) == 1 and len(a['variants'][0]['fields']) == 1:
                    fty = a['variants'][0]['fields'][0]['ty']
                    ft = self.facts.ty(fty)
                    if ft.get('k') == 'int':
                        w = ft['bits']
                        if ft['signed'] and bits >= 1 << (w - 1):
                            bits -= 1 << w
                        return ('adt', t['path'], [('const', bits, fty)])
        if t.get('k') == 'tuple' and not t['elems']:
            return ('unit',)
        if 'fn' in c:
            return ('fnitem', c['fn'])
        raise Top('constant %s' % c.get('disp'))

    def read_place(self, env, place):
        local, proj = place
        if local not in env:
            raise Top('read of unassigned local _%d' % local)
        v = env[local]
        for p in proj:
            if p == '*':
                if v[0] == 'ref':
                    v = self.read_place(v[2], v[1])
                    continue
                raise Top('deref of non-reference')
            if isinstance(p, list) and p[0] == 'f':
                if v[0] in ('tuple',):
                    v = v[1][p[1]]
                elif v[0] == 'adt':
                    v = v[2][p[1]]
                elif v[0] == 'enum':
                    v = v[2][p[1]]
                else:
                    raise Top('field of %s' % v[0])
                continue
            if isinstance(p, list) and p[0] == 'd' and v[0] == 'enum':
                if p[1] != v[1]:
                    raise Top('downcast to a variant the value is not in')
                continue
            raise Top('projection %s' % (p,))
        return v

    def write_place(self, env, place, val):
        local, proj = place
        if not proj:
            env[local] = val
            return
        # field write into tuple/adt held in a local (possibly through a reference)
        base = env.get(local)
        if proj[0] == '*' and base is not None and base[0] == 'ref':
            self.write_place(base[2], [base[1][0], list(base[1][1]) + list(proj[1:])], val)
            return
        if len(proj) == 1 and isinstance(proj[0], list) and proj[0][0] == 'f' and base is not None and base[0] in ('tuple', 'adt'):
            fields = list(base[-1])
            fields[proj[0][1]] = val
            env[local] = base[:-1] + (fields,)
            return
        raise Top('write to projected place')

    def operand(self, env, op):
        if op[0] in ('cp', 'mv'):
            return self.read_place(env, op[1])
        if op[0] == 'c':
            return self.const(op[1])
        raise Top('operand ' + op[0])

    # -- integer ops -------------------------------------------------------
    def as_form(self, v):
        if v[0] == 'int':
            return v[1]
        return None

    def cmp(self, op, a, b):
        """comparison of two abstract ints; returns ('bool', x) (may Split)."""
        if a[0] == 'const' and b[0] == 'const':
            x, y = a[1], b[1]
            return ('bool', {'Lt': x < y, 'Le': x <= y, 'Gt': x > y, 'Ge': x >= y, 'Eq': x == y, 'Ne': x != y}[op])
        if a[0] == 'const' and b[0] == 'int':
            flip = {'Lt': 'Gt', 'Le': 'Ge', 'Gt': 'Lt', 'Ge': 'Le', 'Eq': 'Eq', 'Ne': 'Ne'}[op]
            return self.cmp(flip, b, a)
        if a[0] == 'int' and b[0] == 'const':
            f, K = a[1], b[1]
            lo, hi = self.lo, self.hi
            if op in ('Ge', 'Lt'):
                t = first_ge(f, lo, hi, K)
                res_hi = True   # value of Ge on the upper part
            elif op in ('Gt', 'Le'):
                t = first_ge(f, lo, hi, K + 1)
                res_hi = True
            else:  # Eq / Ne
                t1 = first_ge(f, lo, hi, K)
                t2 = first_ge(f, lo, hi, K + 1)
                if t1 == t2:
                    return ('bool', op == 'Ne')
                if t1 == lo and t2 == hi + 1:
                    return ('bool', op == 'Eq')
                raise Split(t1 if t1 > lo else t2)
            if t == lo:
                r = True
            elif t == hi + 1:
                r = False
            else:
                raise Split(t)
            # r = truth of Ge/Gt on the whole cell
            if op in ('Lt', 'Le'):
                r = not r
            return ('bool', r)
        raise Top('comparison %s of %s and %s' % (op, a[0], b[0]))

    def binop(self, op, a, b, ty_hint):
        wo = op.endswith('WithOverflow')
        base = op[:-len('WithOverflow')] if wo else op
        if base.endswith('Unchecked'):
            base = base[:-len('Unchecked')]
        if base in ('Lt', 'Le', 'Gt', 'Ge', 'Eq', 'Ne'):
            if a[0] in ('int', 'const') and b[0] in ('int', 'const'):
                return self.cmp(base, a, b)
            if a[0] == 'bool' and b[0] == 'bool' and base in ('Eq', 'Ne'):
                return ('bool', (a[1] == b[1]) == (base == 'Eq'))
            raise Top('comparison on %s,%s' % (a[0], b[0]))
        if a[0] == 'bool' and b[0] == 'bool' and base in ('BitAnd', 'BitOr', 'BitXor'):
            return ('bool', {'BitAnd': a[1] and b[1], 'BitOr': a[1] or b[1], 'BitXor': a[1] != b[1]}[base])
        # float arithmetic
        if a[0] in ('fin', 'ffrom', 'fcast', 'fparam') or b[0] in ('fin', 'ffrom', 'fcast', 'fparam') or (a[0] == 'fconst' and b[0] == 'fconst'):
            return self.float_binop(base, a, b)
        if a[0] == 'const' and b[0] == 'const':
            ty = a[2]
            x, y = a[1], b[1]
            if base == 'Add':
                z = x + y
            elif base == 'Sub':
                z = x - y
            elif base == 'Mul':
                z = x * y
            elif base == 'Shl':
                z = x << y
            elif base == 'Shr':
                z = x >> y
            elif base == 'BitAnd':
                z = x & y
            elif base == 'BitOr':
                z = x | y
            elif base == 'BitXor':
                z = x ^ y
            elif base == 'Div' and y != 0:
                z = abs(x) // abs(y) * (1 if (x >= 0) == (y >= 0) else -1)
            else:
                raise Top('const op ' + base)
            rng = self.trange(ty)
            fits = rng[0] <= z <= rng[1]
            w = self.ity(ty)['bits']
            zz = (z - rng[0]) % (1 << w) + rng[0]
            if wo:
                return ('tuple', [('const', zz, ty), ('bool', not fits)])
            return ('const', zz, ty)
        if a[0] == 'int' and b[0] == 'const':
            f, c, ty = a[1], b[1], a[2]
            if base == 'Add':
                nf = f.add(c)
            elif base == 'Sub':
                nf = f.add(-c)
            elif base == 'Shl':
                w = self.ity(ty)['bits']
                if not (0 <= c < w):
                    raise Top('shift amount %d out of range for %s' % (c, ty))
                nf = f.shl(c)
            elif base == 'Shr':
                w = self.ity(ty)['bits']
                if not (0 <= c < w):
                    raise Top('shift amount %d out of range for %s' % (c, ty))
                return ('int', f.shr(c), ty)
            elif base == 'Mul':
                if c > 0 and c & (c - 1) == 0:
                    nf = f.shl(c.bit_length() - 1)
                elif c == 1:
                    nf = f
                else:
                    raise Top('multiplication by non-power-of-two %d' % c)
            elif base == 'Div':
                if c > 0 and c & (c - 1) == 0:
                    n = c.bit_length() - 1
                    a_lo, a_hi = self.interval(f)
                    if a_lo >= 0:
                        return ('int', f.shr(n), ty)
                    if a_hi < 0:
                        # truncation toward zero on negatives = ceil
                        return ('int', f.add(c - 1).shr(n), ty)
                    raise Split(first_ge(f, self.lo, self.hi, 0))
                raise Top('division by non-power-of-two %d' % c)
            elif base == 'BitXor':
                w = self.ity(ty)['bits']
                rng = self.trange(ty)
                signbit = rng[0] if self.ity(ty)['signed'] else (1 << (w - 1))
                if c == signbit:
                    nf = f.add(1 << (w - 1))
                    return ('int', self.wrap_to(nf, ty), ty)
                raise Top('xor with %d' % c)
            elif base == 'BitAnd':
                w = self.ity(ty)['bits']
                full = -1 if self.ity(ty)['signed'] else (1 << w) - 1
                if c == full:
                    return a
                raise Top('bitand with %d' % c)
            else:
                raise Top('int op ' + base)
            rng = self.trange(ty)
            if wo:
                a_lo, a_hi = self.interval(nf)
                if rng[0] <= a_lo and a_hi <= rng[1]:
                    return ('tuple', [('int', nf, ty), ('bool', False)])
                if a_hi < rng[0] or a_lo > rng[1]:
                    return ('tuple', [('int', self.wrap_to(nf, ty), ty), ('bool', True)])
                # partially overflowing: split at the boundary
                if a_lo < rng[0]:
                    raise Split(first_ge(nf, self.lo, self.hi, rng[0]))
                raise Split(first_ge(nf, self.lo, self.hi, rng[1] + 1))
            return ('int', self.wrap_to(nf, ty), ty)
        if a[0] == 'const' and b[0] == 'int' and base in ('Add', 'Mul', 'BitXor', 'BitAnd'):
            return self.binop(op, b, a, ty_hint)
        raise Top('binop %s on %s,%s' % (op, a[0], b[0]))

    def float_binop(self, base, a, b):
        if a[0] == 'fconst' and b[0] == 'fconst':
            # constant folding is exact when both constants are powers of two in the normal range (the result is again one)
            ja, jb = log2_exact(a[1]), log2_exact(b[1])
            if ja is not None and jb is not None and base in ('Mul', 'Div') and abs(ja) < 120 and abs(jb) < 120:
                j = ja + jb if base == 'Mul' else ja - jb
                if abs(j) < 120:
                    return ('fconst', Fraction(2) ** j, a[2])
            raise Top('float constant arithmetic')
        if b[0] == 'fconst':
            j = log2_exact(b[1])
            if base in ('Sub', 'Add') and a[0] == 'ffrom':
                # an exactly converted integer minus an integer constant, the difference again exactly representable:
                # the IEEE operation is exact.  RN_F(form)*2^j -/+ c  =  (form -/+ c/2^j) * 2^j
                cj = b[1] / (Fraction(2) ** a[3])
                mant = 24 if a[2] == 'f32' else 53
                lo, hi = self.interval(a[1])
                if cj.denominator == 1 and max(abs(lo), abs(hi)) <= (1 << mant):
                    nf = a[1].add(-int(cj) if base == 'Sub' else int(cj))
                    lo2, hi2 = self.interval(nf)
                    if max(abs(lo2), abs(hi2)) <= (1 << mant):
                        return ('ffrom', nf, a[2], a[3])
                raise Top('float %s of a constant that is not exact on this range' % base)
            if j is None:
                raise Top('float %s by %s, which is not a power of two' % (base, b[1]))
            if base == 'Div':
                j = -j
            elif base != 'Mul':
                raise Top('float op %s' % base)
            if a[0] == 'fin':
                return ('fin', a[1], a[2] + j)
            if a[0] == 'ffrom':
                return ('ffrom', a[1], a[2], a[3] + j)
            if a[0] == 'fcast':
                return ('fcast', a[1], a[2], a[3] + j)
        if a[0] == 'fconst' and base == 'Mul':
            return self.float_binop(base, b, a)
        raise Top('float op %s on %s,%s' % (base, a[0], b[0]))

    def cast(self, kind, v, ty):
        t = self.facts.ty(ty)
        if kind == 'IntToInt':
            if v[0] == 'const':
                rng = self.trange(ty)
                w = t['bits']
                return ('const', (v[1] - rng[0]) % (1 << w) + rng[0], ty)
            if v[0] == 'int':
                return ('int', self.wrap_to(v[1], ty), ty)
            if v[0] == 'bool':
                return ('const', int(v[1]), ty)
            raise Top('IntToInt of ' + v[0])
        if kind == 'IntToFloat':
            if v[0] == 'int':
                return ('ffrom', v[1], ty, 0)
            if v[0] == 'const':
                # an integer constant that the float type represents exactly (a power of two, or below 2^mantissa)
                c = v[1]
                mant = 24 if ty == 'f32' else 53
                if abs(c) <= (1 << mant) or (c > 0 and c & (c - 1) == 0 and c.bit_length() < 120):
                    return ('fconst', Fraction(c), ty)
            raise Top('IntToFloat of ' + v[0])
        if kind == 'FloatToInt':
            if v[0] == 'fin':
                j = v[2]
                if j < 0:
                    raise Top('float->int of a value scaled below 1')
                tlo, thi = -(1 << j), (1 << j) - 1
                rng = self.trange(ty)
                self.stats['obligations'] += 1
                if not (rng[0] <= tlo and thi <= rng[1]):
                    return ('saturates', j, ty)
                if self.float_cell is None:
                    raise NeedCell(j, v[1], tlo, thi)
                if self.float_cell != (j, v[1]):
                    raise Top('two different float->int casts')
                return ('int', Form(), ty)
            raise Top('FloatToInt of ' + v[0])
        if kind == 'FloatToFloat':
            if v[0] == 'fin' and v[2] == 0:
                return ('fcast', v[1], ty, 0)
            if v[0] == 'ffrom':
                # double rounding is harmless only if the first rounding was exact
                mant = 24 if v[2] == 'f32' else 53
                a, b = self.interval(v[1])
                if max(abs(a), abs(b)) <= (1 << mant):
                    return ('ffrom', v[1], ty, v[3])
                raise Top('float->float after an inexact int->float (double rounding)')
            raise Top('FloatToFloat of %s' % (v,))
        if kind == 'Transmute':
            raise Top('transmute')
        raise Top('cast kind %s' % kind)

    # -- execution -----------------------------------------------------------
    def call(self, term, env, depth):
        callee = term['callee']
        if callee is None:
            raise Top('indirect call')
        args = [self.operand(env, a) for a in term['args']]
        res = callee.get('res') or {}
        target = self.facts.by_hash.get(res.get('hash')) or self.facts.by_hash.get(callee['hash'])
        if target is not None and 'blocks' in target:
            if depth >= self.MAX_DEPTH:
                raise Top('inlining depth exceeded at %s' % callee['path'])
            self.stats['inlined'] += 1
            examined.note(target)
            return self.run_body(target, args, depth + 1)
        path = (res.get('path') or callee['path'])
        name = callee['name']
        # core helpers with exact transfer functions
        if path.startswith('core::num::<impl ') and name in ('wrapping_add', 'wrapping_sub'):
            ty = path[len('core::num::<impl '):].split('>')[0]
            a, b = args
            op = 'Add' if name == 'wrapping_add' else 'Sub'
            if a[0] == 'const' and b[0] == 'int' and op == 'Add':
                a, b = b, a
            if a[0] == 'int' and b[0] == 'const':
                nf = a[1].add(b[1] if op == 'Add' else -b[1])
                return ('int', self.wrap_to(nf, ty), ty)
            return self.binop(op, a, b, ty)
        if path.startswith('core::num::<impl i') and name == 'unsigned_abs' and len(args) == 1 and args[0][0] == 'const':
            # |c| of a constant, in the unsigned type of the same width (`iN::MIN.unsigned_abs()` is 2^(N-1))
            ty = path[len('core::num::<impl '):].split('>')[0]
            return ('const', abs(args[0][1]), 'u' + ty[1:])
        if path.startswith('core::num::<impl ') and name == 'abs_diff' and len(args) == 2:
            # |a - b| in the unsigned type of the same width; with one constant operand the sign of a - b is decided per cell
            ty = path[len('core::num::<impl '):].split('>')[0]
            uty = ('u' + ty[1:]) if ty.startswith('i') else ty
            a, b = args
            if a[0] == 'const' and b[0] == 'int':
                a, b = b, a
            if a[0] == 'int' and b[0] == 'const':
                lo, hi = self.interval(a[1])
                if lo >= b[1]:
                    return ('int', self.wrap_to(a[1].add(-b[1]), uty), uty)
                if hi <= b[1]:
                    raise Top('abs_diff below a constant')      # (c - a: a decreasing form, outside the family)
                raise Split(first_ge(a[1], self.lo, self.hi, b[1]))
            raise Top('abs_diff of %s,%s' % (a[0], b[0]))
        if path.startswith('core::num::<impl ') and name in ('wrapping_add_unsigned', 'wrapping_add_signed') and len(args) == 2:
            ty = path[len('core::num::<impl '):].split('>')[0]
            a, b = args
            if a[0] == 'const' and b[0] == 'int':
                return ('int', self.wrap_to(b[1].add(a[1]), ty), ty)
            if a[0] == 'int' and b[0] == 'const':
                return ('int', self.wrap_to(a[1].add(b[1]), ty), ty)
            raise Top('%s of %s,%s' % (name, a[0], b[0]))
        if name == 'try_from' and callee.get('trait') == 'core::convert::TryFrom' and len(args) == 1:
            # uN::try_from(s) / iN::try_from(s): Ok(s as T) exactly when s is in T's range, else Err(_)
            dst = callee['args'][0]
            if self.facts.ty(dst).get('k') == 'int':
                return self.in_range_enum(args[0], self.trange(dst), lambda v: ('enum', 0, [self.cast('IntToInt', v, dst)]), ('enum', 1, [('unit',)]))
        if path.startswith('core::num::<impl ') and name in ('checked_sub', 'checked_add') and len(args) == 2 and args[1][0] == 'const':
            # Some(s -/+ c) exactly when the result is in the type's range, else None
            ty = path[len('core::num::<impl '):].split('>')[0]
            c = args[1][1] if name == 'checked_add' else -args[1][1]
            rng = self.trange(ty)
            shifted = (rng[0] - c, rng[1] - c)
            return self.in_range_enum(args[0], shifted, lambda v: ('enum', 1, [self.binop('Add', v, ('const', c, ty), ty)]), ('enum', 0, []))
        if name in ('from', 'into') and callee.get('trait') in ('core::convert::From', 'core::convert::Into'):
            targs = callee['args']
            dst, src = (targs[0], targs[1]) if name == 'from' else (targs[1], targs[0])
            ts, td = self.facts.ty(src), self.facts.ty(dst)
            if ts.get('k') == 'int' and td.get('k') == 'int':
                return self.cast('IntToInt', args[0], dst)
            if ts.get('k') == 'int' and td.get('k') == 'float':
                return self.cast('IntToFloat', args[0], dst)
            if ts.get('k') == 'float' and td.get('k') == 'float':
                return self.cast('FloatToFloat', args[0], dst)
        raise Top('call to %s is outside the domain' % path)

    def in_range_enum(self, v, rng, inside, outside):
        """`inside(v)` if the integer value v lies in rng on the whole cell, `outside` if it lies outside on the whole cell;
        a cell on which it does both is split at the boundary (Forms are monotone)"""
        if v[0] == 'const':
            return inside(v) if rng[0] <= v[1] <= rng[1] else outside
        if v[0] != 'int':
            raise Top('range test of %s' % v[0])
        a, b = self.interval(v[1])
        if rng[0] <= a and b <= rng[1]:
            return inside(v)
        if b < rng[0] or a > rng[1]:
            return outside
        if a < rng[0]:
            raise Split(first_ge(v[1], self.lo, self.hi, rng[0]))
        raise Split(first_ge(v[1], self.lo, self.hi, rng[1] + 1))

    def run_body(self, body, args, depth=0):
        env = {}
        for i, a in enumerate(args):
            env[i + 1] = a
        blocks = body['blocks']
        bb = 0
        steps = 0
        while True:
            steps += 1
            if steps > 400:
                raise Top('loop in %s' % body['path'])
            blk = blocks[bb]
            for st in blk['s']:
                if st[0] == '=':
                    _, place, rv, _line = st
                    self.write_place(env, place, self.rvalue(env, rv, body, place))
                elif st[0] in ('assume',):
                    pass
                else:
                    raise Top('statement %s' % st[0])
            t = blk['t']
            k = t['k']
            if k == 'goto':
                bb = t['t']
            elif k == 'return':
                if 0 not in env:
                    ret_ty = self.facts.ty(body['locals'][0])
                    if ret_ty.get('k') == 'tuple' and not ret_ty['elems']:
                        return ('unit',)
                    raise Top('return without value')
                return env[0]
            elif k == 'switch':
                d = self.operand(env, t['d'])
                if d[0] == 'bool':
                    val = int(d[1])
                elif d[0] == 'const':
                    val = d[1]
                else:
                    raise Top('switch on %s' % d[0])
                nxt = t['o']
                for v, tb in t['ts']:
                    if int(v) == val:
                        nxt = tb
                bb = nxt
            elif k == 'assert':
                c = self.operand(env, t['c'])
                self.stats['obligations'] += 1
                if c[0] != 'bool':
                    raise Top('assert on %s' % c[0])
                if c[1] != t['e']:
                    return ('panic', t['m'])
                bb = t['t']
            elif k == 'call':
                r = self.call(t, env, depth)
                if r[0] == 'panic':
                    return r
                self.write_place(env, t['dest'], r)
                if t['t'] is None:
                    return ('panic', 'diverging call')
                bb = t['t']
            elif k == 'drop':
                bb = t['t']
            elif k == 'unreachable':
                raise Top('unreachable reached')
            else:
                raise Top('terminator ' + k)

    def rvalue(self, env, rv, body, dest):
        k = rv[0]
        if k == 'use':
            return self.operand(env, rv[1])
        if k == 'bin':
            a = self.operand(env, rv[2])
            b = self.operand(env, rv[3])
            return self.binop(rv[1], a, b, None)
        if k == 'un':
            a = self.operand(env, rv[2])
            if rv[1] == 'Not' and a[0] == 'bool':
                return ('bool', not a[1])
            if rv[1] == 'Neg' and a[0] == 'const':
                return ('const', -a[1], a[2])
            raise Top('unary %s on %s' % (rv[1], a[0]))
        if k == 'cast':
            return self.cast(rv[1], self.operand(env, rv[2]), rv[3])
        if k == 'agg':
            kind = rv[1]
            vals = [self.operand(env, o) for o in rv[2]]
            if kind[0] == 'tuple':
                return ('tuple', vals)
            if kind[0] == 'adt':
                path = kind[1]
                if path in self.adt_ranges and len(vals) == 1:
                    self.stats['obligations'] += 1
                    rng = self.adt_ranges[path]
                    v = vals[0]
                    if v[0] == 'int':
                        if not self.fits(v[1], rng):
                            a, b = self.interval(v[1])
                            return ('badwrap', path, (a, b))
                    elif v[0] == 'const':
                        if not (rng[0] <= v[1] <= rng[1]):
                            return ('badwrap', path, (v[1], v[1]))
                    else:
                        raise Top('wrapper built from %s' % v[0])
                return ('adt', path, vals)
            raise Top('aggregate %s' % kind[0])
        if k == 'ref':
            return ('ref', rv[2], env)
        if k == 'discr':
            v = self.read_place(env, rv[1])
            if v[0] == 'enum':
                return ('const', v[1], 'isize')
            raise Top('discriminant of %s' % v[0])
        raise Top('rvalue %s' % k)


def summarize(facts, body, lo, hi, root='int', adt_ranges=None, stats=None, param_wrap=None, float_ty=None):
    """Evaluate `body` for every input in [lo, hi]; returns a list of cells
    (lo, hi, value).  For root='float' the cells range over t = trunc(s*2^j)
    and the result list is prefixed by the ('trunc', j, F) marker in stats."""
    stats = stats if stats is not None else {'obligations': 0, 'cells': 0, 'inlined': 0}
    out = []
    pty = body['locals'][1]

    def run(lo, hi, float_cell):
        it = Interp(facts, stats, adt_ranges)
        it.lo, it.hi = lo, hi
        it.float_cell = float_cell
        if root == 'int':
            v = ('int', Form(), param_wrap[1]) if param_wrap else ('int', Form(), pty)
            if param_wrap:
                v = ('adt', param_wrap[0], [v])
        else:
            v = ('fin', pty, 0)
        try:
            r = it.run_body(body, [v])
        except Split as s:
            assert lo < s.t <= hi, (lo, hi, s.t)
            run(lo, s.t - 1, float_cell)
            run(s.t, hi, float_cell)
            return
        except NeedCell as n:
            stats['float_root'] = (n.j, n.F)
            run(n.lo, n.hi, (n.j, n.F))
            return
        stats['cells'] += 1
        out.append((lo, hi, r))

    if root == 'int':
        run(lo, hi, None)
    else:
        run(0, 0, None)
    return out
