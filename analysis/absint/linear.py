"""E5 — small polyhedra over symbols: affine expressions with exact rationals and entailment by
Fourier–Motzkin elimination (rational relaxation; integer tightening of strict inequalities: e > 0 is e >= 1).
Sound for integers: an entailment proved over the rationals holds over the integers."""
from fractions import Fraction


class Aff:
    __slots__ = ('c', 'k')

    def __init__(self, c=None, k=0):
        self.c = {s: Fraction(v) for s, v in (c or {}).items() if v != 0}
        self.k = Fraction(k)

    @staticmethod
    def sym(s):
        return Aff({s: 1})

    @staticmethod
    def const(k):
        return Aff({}, k)

    def __add__(self, o):
        o = o if isinstance(o, Aff) else Aff.const(o)
        c = dict(self.c)
        for s, v in o.c.items():
            c[s] = c.get(s, 0) + v
        return Aff(c, self.k + o.k)

    def __neg__(self):
        return Aff({s: -v for s, v in self.c.items()}, -self.k)

    def __sub__(self, o):
        o = o if isinstance(o, Aff) else Aff.const(o)
        return self + (-o)

    def scale(self, f):
        return Aff({s: v * f for s, v in self.c.items()}, self.k * f)

    def is_const(self):
        return not self.c

    def __eq__(self, o):
        return isinstance(o, Aff) and self.c == o.c and self.k == o.k

    def __hash__(self):
        return hash((tuple(sorted(self.c.items())), self.k))

    def subst(self, s, e):
        if s not in self.c:
            return self
        v = self.c[s]
        r = Aff({t: w for t, w in self.c.items() if t != s}, self.k)
        return r + e.scale(v)

    def __repr__(self):
        parts = []
        for s, v in sorted(self.c.items()):
            parts.append(('%s' % s) if v == 1 else ('-%s' % s if v == -1 else '%s*%s' % (v, s)))
        if self.k != 0 or not parts:
            parts.append(str(self.k))
        return ' + '.join(parts).replace('+ -', '- ')


class Poly:
    """conjunction of constraints  e >= 0"""

    def __init__(self, cons=None):
        self.cons = list(cons or [])

    def copy(self):
        return Poly(self.cons)

    def ge0(self, e):
        self.cons.append(e)
        return self

    def ge(self, a, b):
        return self.ge0(_a(a) - _a(b))

    def le(self, a, b):
        return self.ge0(_a(b) - _a(a))

    def lt(self, a, b):          # integers: a < b  <=>  b - a - 1 >= 0
        return self.ge0(_a(b) - _a(a) - 1)

    def gt(self, a, b):
        return self.lt(b, a)

    def eq(self, a, b):
        self.ge(a, b)
        return self.le(a, b)

    # -- decision ------------------------------------------------------------
    def unsat(self):
        cons = [c for c in self.cons]
        syms = set()
        for c in cons:
            syms.update(c.c)
        for s in sorted(syms):
            pos, neg, rest = [], [], []
            for c in cons:
                v = c.c.get(s, 0)
                if v > 0:
                    pos.append(c)
                elif v < 0:
                    neg.append(c)
                else:
                    rest.append(c)
            new = rest
            for p in pos:
                for n in neg:
                    # p: a*s + P >= 0 (a>0), n: -b*s + N >= 0 (b>0)  =>  b*P + a*N >= 0
                    a, b = p.c[s], -n.c[s]
                    new.append(p.scale(b) + n.scale(a))
            # drop trivially true, detect false
            cons = []
            seen = set()
            for c in new:
                if c.is_const():
                    if c.k < 0:
                        return True
                    continue
                if c not in seen:
                    seen.add(c)
                    cons.append(c)
            if len(cons) > 4000:
                return False     # give up (sound: "not proved")
        return any(c.is_const() and c.k < 0 for c in cons)

    def entails_ge0(self, e):
        """facts |= e >= 0   (integers):  facts and e <= -1 unsatisfiable"""
        q = self.copy()
        q.ge0(-e - 1)
        return q.unsat()

    def entails_ge(self, a, b):
        return self.entails_ge0(_a(a) - _a(b))

    def entails_le(self, a, b):
        return self.entails_ge0(_a(b) - _a(a))

    def entails_lt(self, a, b):
        return self.entails_ge0(_a(b) - _a(a) - 1)

    def entails_gt(self, a, b):
        return self.entails_lt(b, a)

    def entails_eq(self, a, b):
        return self.entails_ge(a, b) and self.entails_le(a, b)

    def witness_hint(self):
        return [repr(c) + ' >= 0' for c in self.cons]


def _a(x):
    return x if isinstance(x, Aff) else Aff.const(x)
