"""Exact univariate polynomials over the rationals: Sturm root isolation and a rigorous bound of max |p| on an interval."""
from fractions import Fraction


def trim(p):
    p = list(p)
    while p and p[-1] == 0:
        p.pop()
    return p


def ev(p, x):
    r = Fraction(0)
    for c in reversed(p):
        r = r * x + c
    return r


def deriv(p):
    return trim([c * i for i, c in enumerate(p)][1:])


def polyrem(a, b):
    a, b = trim(a), trim(b)
    a = list(a)
    while len(a) >= len(b) and a:
        f = a[-1] / b[-1]
        s = len(a) - len(b)
        for i, c in enumerate(b):
            a[s + i] -= f * c
        a = trim(a)
    return a


def sturm(p):
    seq = [trim(p), deriv(p)]
    while seq[-1]:
        r = polyrem(seq[-2], seq[-1])
        if not r:
            break
        seq.append([-c for c in r])
    return [s for s in seq if s]


def changes(seq, x):
    signs = [ev(s, x) for s in seq]
    signs = [s for s in signs if s != 0]
    return sum(1 for a, b in zip(signs, signs[1:]) if (a > 0) != (b > 0))


def isolate_roots(p, lo, hi, eps=Fraction(1, 10 ** 12)):
    """disjoint intervals of width <= eps that together contain every root of p in [lo, hi]"""
    p = trim(p)
    if not p or len(p) == 1:
        return []
    # make square-free enough for Sturm counting: Sturm's theorem counts distinct roots even with multiplicities
    seq = sturm(p)
    out = []

    def rec(a, b):
        n = changes(seq, a) - changes(seq, b)
        if ev(p, a) == 0:
            out.append((a, a))
        if n <= 0:
            return
        if b - a <= eps:
            out.append((a, b))
            return
        m = (a + b) / 2
        rec(a, m)
        rec(m, b)
    rec(Fraction(lo), Fraction(hi))
    if ev(p, Fraction(hi)) == 0:
        out.append((Fraction(hi), Fraction(hi)))
    return out


def interval_eval(p, a, b):
    """enclosure of p([a,b]) by Horner with interval arithmetic (exact rationals)"""
    lo = hi = Fraction(0)
    for c in reversed(p):
        cands = [lo * a, lo * b, hi * a, hi * b]
        lo, hi = min(cands) + c, max(cands) + c
    return lo, hi


def max_abs(p, lo, hi):
    """rigorous upper bound of max |p| on [lo, hi]: endpoints and enclosures of all critical points"""
    p = trim(p)
    if not p:
        return Fraction(0)
    best = max(abs(ev(p, Fraction(lo))), abs(ev(p, Fraction(hi))))
    for a, b in isolate_roots(deriv(p), lo, hi):
        l, h = interval_eval(p, a, b)
        best = max(best, abs(l), abs(h))
    return best
