"""E5 — path-sensitive interval x congruence interpreter over MIR facts (used by C15).

Scalars are abstracted by  (interval, relation to an ideal value E):
    rel = None                 nothing known
    rel = ('E', True)          value == E exactly (as mathematical integers)
    rel = ('E', False)         value ≡ E (mod M)  for the modulus M of the run
E is either an input (identity specs) or the first arithmetic combination of
the inputs, which must be the operation the caller expects (e.g. Sub(in0, in1)).
Branches on comparisons with constants refine the interval of the compared
value (values are shared between copies through value ids).  Loops are handled
by iterating the header state to a fixpoint (join, then widening to the type
range); every back edge must make progress against its guard (termination).
Workspace callees are inlined; Option::{expect, unwrap} are modelled.
"""
import copy

import examined


class Top(Exception):
    pass


class AV:
    __slots__ = ('lo', 'hi', 'rel', 'ty', 'base')

    def __init__(self, lo, hi, ty, rel=None, base=None):
        self.lo, self.hi, self.ty, self.rel, self.base = lo, hi, ty, rel, base

    def __repr__(self):
        return '[%d,%d]%s' % (self.lo, self.hi, '' if self.rel is None else ('==E' if self.rel[1] else '≡E'))


class State:
    def __init__(self):
        self.vals = {}       # vid -> AV
        self.erange = None   # refined range of E on this path
        self.next = 0
        self.loop_progress = []   # (header, op, step)

    def new(self, av):
        self.next += 1
        self.vals[self.next] = av
        if av.base is None:
            av.base = (self.next, 0)
        return self.next

    def clone(self):
        s = State()
        s.vals = {k: AV(v.lo, v.hi, v.ty, v.rel, v.base) for k, v in self.vals.items()}
        s.erange = self.erange
        s.next = self.next
        s.loop_progress = self.loop_progress
        return s


class Interp:
    MAX_DEPTH = 8

    def __init__(self, facts, modulus, expect_op=None):
        self.facts = facts
        self.M = modulus
        self.expect_op = expect_op     # e.g. ('bin', 'Add') / ('un', 'Neg') / None for identity specs
        self.inputs = []               # vids of the inputs, in order
        self.results = []              # ('ret', tree, state) | ('panic', why, state)
        self.notes = []
        self.obligations = 0
        self.e_defined = False
        self.wrong_op = None

    # -- types ---------------------------------------------------------------
    def trange(self, ty):
        t = self.facts.ty(ty)
        if t.get('k') != 'int':
            raise Top('not an integer type: %s' % ty)
        b = t['bits']
        return (-(1 << (b - 1)), (1 << (b - 1)) - 1) if t['signed'] else (0, (1 << b) - 1)

    def tbits(self, ty):
        return self.facts.ty(ty)['bits']

    # -- values ----------------------------------------------------------------
    def const(self, st, c):
        t = self.facts.ty(c['ty'])
        if 'bits' in c:
            bits = int(c['bits'])
            if t.get('k') == 'int':
                w = t['bits']
                if t['signed'] and bits >= 1 << (w - 1):
                    bits -= 1 << w
                return ('s', st.new(AV(bits, bits, c['ty'])))
            if t.get('k') == 'bool':
                return ('b', bool(bits))
        if t.get('k') == 'tuple' and not t['elems']:
            return ('unit',)
        if t.get('k') == 'ref':
            u = c.get('uneval') or {}
            pb = getattr(self.facts, 'promoted', {}).get('%s::promoted[%s]' % (u.get('path'), u.get('promoted'))) if 'promoted' in u else None
            if pb is not None:
                # a promoted constant (`&(MIN..=MAX)`): evaluate the straight-line body that builds it
                out = []
                try:
                    self.explore(pb, 0, {}, st, {}, 1, lambda tree, st2: out.append(tree))
                except Top:
                    out = []
                if len(out) == 1 and out[0][0] == 'refval':
                    return out[0]
            return ('opaque',)        # &'static str panic messages etc.
        if 'fn' in c:
            return ('fnitem', c['fn'])
        raise Top('constant %s' % c.get('disp'))

    def read(self, st, env, place):
        local, proj = place
        if local not in env:
            raise Top('read of unassigned local _%d' % local)
        v = env[local]
        for p in proj:
            if p == '*' and v[0] == 'refval':
                v = v[1]
            elif isinstance(p, list) and p[0] == 'f':
                if v[0] == 'agg':
                    v = v[2][p[1]]
                else:
                    raise Top('field of %s' % v[0])
            elif isinstance(p, list) and p[0] == 'd':
                if v[0] != 'agg' or v[1][1] != p[1]:
                    raise Top('downcast mismatch')
            else:
                raise Top('projection %s' % (p,))
        return v

    def write(self, env, place, val):
        local, proj = place
        if not proj:
            env[local] = val
            return

        def upd(tree, proj):
            if not proj:
                return val
            p = proj[0]
            if isinstance(p, list) and p[0] == 'f' and tree[0] == 'agg':
                fs = list(tree[2])
                fs[p[1]] = upd(fs[p[1]], proj[1:])
                return ('agg', tree[1], fs)
            raise Top('write through projection %s' % (p,))
        env[local] = upd(env[local], proj)

    def operand(self, st, env, op):
        if op[0] in ('cp', 'mv'):
            return self.read(st, env, op[1])
        if op[0] == 'c':
            return self.const(st, op[1])
        raise Top('operand')

    # -- arithmetic --------------------------------------------------------------
    def arith(self, st, op, a, b):
        """a, b scalar trees; returns (tree, overflow_info) where overflow_info = (vid, exact_lo, exact_hi, ty)"""
        wo = op.endswith('WithOverflow')
        base = op[:-len('WithOverflow')] if wo else op
        if a[0] != 's' or (b is not None and b[0] != 's'):
            raise Top('arithmetic on non-scalars')
        x = st.vals[a[1]]
        y = st.vals[b[1]] if b is not None else None
        ty = x.ty
        rng = self.trange(ty)
        rel = None
        nbase = None
        is_e_def = False
        if base in ('Add', 'Sub', 'Mul', 'Neg'):
            ins = [a[1]] + ([b[1]] if b is not None else [])
            if self.inputs and all(i in self.inputs for i in ins) and self.expect_op is not None and not self.e_defined:
                # first arithmetic combination of the inputs: this defines E (must be the expected operation)
                want = self.expect_op
                got = ('un', base) if b is None else ('bin', base)
                order_ok = ins == self.inputs[:len(ins)]
                if got == want and order_ok and len(ins) == len(self.inputs):
                    is_e_def = True
                else:
                    self.wrong_op = 'computes %s(%s) where %s of the operands in order is expected' % (
                        base, ', '.join('in%d' % self.inputs.index(i) for i in ins), want[1])
        if base == 'Add':
            lo, hi = x.lo + y.lo, x.hi + y.hi
        elif base == 'Sub':
            lo, hi = x.lo - y.hi, x.hi - y.lo
        elif base == 'Mul':
            c = [x.lo * y.lo, x.lo * y.hi, x.hi * y.lo, x.hi * y.hi]
            lo, hi = min(c), max(c)
        elif base == 'Neg':
            lo, hi = -x.hi, -x.lo
        else:
            raise Top('arithmetic op %s' % base)
        if is_e_def:
            rel = ('E', True)
            self.e_defined = True
            st.erange = (lo, hi)
        elif base in ('Add', 'Sub') and y.lo == y.hi and x.rel is not None:
            c = y.lo
            if c == 0:
                rel = x.rel
            elif c % self.M == 0:
                rel = ('E', False)
            if x.base is not None:
                nbase = (x.base[0], x.base[1] + (c if base == 'Add' else -c))
        elif base in ('Add', 'Sub') and y.lo == y.hi and x.base is not None:
            c = y.lo
            nbase = (x.base[0], x.base[1] + (c if base == 'Add' else -c))
        fits = rng[0] <= lo and hi <= rng[1]
        if wo:
            # value is the wrapped result; the flag says whether the exact result left the type
            if fits:
                v = st.new(AV(lo, hi, ty, rel, nbase))
                return ('agg', ('tuple', 0), [('s', v), ('b', False)])
            # keep the exact interval; the assert below clips it (success) or takes it outside (failure)
            v = st.new(AV(lo, hi, ty, rel, nbase))
            return ('agg', ('tuple', 0), [('s', v), ('ovf', v)])
        if fits:
            return ('s', st.new(AV(lo, hi, ty, rel, nbase)))
        # wrapping semantics (overflow checks off): result is the exact value modulo 2^w
        w = self.tbits(ty)
        self.obligations += 1
        keeps = (1 << w) % self.M == 0
        if not keeps:
            self.notes.append('wrap-around of %s does not preserve the class modulo %d' % (ty, self.M))
        per = 1 << w
        t = (lo - rng[0]) // per
        if rng[0] <= lo - t * per and hi - t * per <= rng[1]:
            lo2, hi2 = lo - t * per, hi - t * per
        else:
            lo2, hi2 = rng
        nrel = ('E', False) if (rel is not None and keeps) else None
        return ('s', st.new(AV(lo2, hi2, ty, nrel, None)))

    def cast(self, st, v, ty):
        if v[0] == 'b':
            return ('s', st.new(AV(int(v[1]), int(v[1]), ty)))
        if v[0] != 's':
            raise Top('cast of %s' % v[0])
        x = st.vals[v[1]]
        rng = self.trange(ty)
        if rng[0] <= x.lo and x.hi <= rng[1]:
            return ('s', st.new(AV(x.lo, x.hi, ty, x.rel, x.base)))
        w = self.tbits(ty)
        keeps = (1 << w) % self.M == 0
        self.notes.append('cast to %s may wrap' % ty)
        return ('s', st.new(AV(rng[0], rng[1], ty, ('E', False) if (x.rel is not None and keeps) else None)))

    # -- branching ------------------------------------------------------------------
    def refine(self, st, vid, op, K, truth):
        """refine vals[vid] under (vid op K) == truth; returns False if infeasible"""
        av = st.vals[vid]
        if not truth:
            op = {'Gt': 'Le', 'Ge': 'Lt', 'Lt': 'Ge', 'Le': 'Gt', 'Eq': 'Ne', 'Ne': 'Eq'}[op]
        lo, hi = av.lo, av.hi
        if op == 'Gt':
            lo = max(lo, K + 1)
        elif op == 'Ge':
            lo = max(lo, K)
        elif op == 'Lt':
            hi = min(hi, K - 1)
        elif op == 'Le':
            hi = min(hi, K)
        elif op == 'Eq':
            lo, hi = max(lo, K), min(hi, K)
        elif op == 'Ne':
            if lo == K:
                lo += 1
            if hi == K:
                hi -= 1
        if lo > hi:
            return False
        # every alias (same base with offset) is refined consistently
        for other in st.vals.values():
            if other is not av and other.base is not None and av.base is not None and other.base[0] == av.base[0]:
                d = other.base[1] - av.base[1]
                other.lo, other.hi = max(other.lo, lo + d), min(other.hi, hi + d)
                if other.lo > other.hi:
                    return False
        av.lo, av.hi = lo, hi
        if av.rel == ('E', True) and st.erange is not None:
            st.erange = (max(st.erange[0], lo), min(st.erange[1], hi))
        return True

    # -- execution ---------------------------------------------------------------------
    def run(self, body, args, st):
        env = {i + 1: a for i, a in enumerate(args)}
        self.explore(body, 0, env, st, {}, 0, lambda tree, st2: self.results.append(('ret', tree, st2)))

    def back_edges(self, body):
        import mirutil
        color = {}
        be = set()

        def dfs(u):
            color[u] = 1
            for v in mirutil.successors(body['blocks'][u]['t']):
                if color.get(v) == 1:
                    be.add((u, v))
                elif v not in color:
                    dfs(v)
            color[u] = 2
        dfs(0)
        return be

    def explore(self, body, bb, env, st, headers, depth, k):
        """continuation-passing DFS; k(tree, state) is called at each return of this frame"""
        be = body.setdefault('_back_edges', None)
        if be is None:
            be = body['_back_edges'] = self.back_edges(body)
        heads = {v for _, v in be}
        steps = 0
        while True:
            steps += 1
            if steps > 2000:
                raise Top('runaway exploration in %s' % body['path'])
            if bb in heads:
                rec = headers.get(bb)
                snap = self.snapshot(env, st)
                if rec is None:
                    headers = dict(headers)
                    headers[bb] = {'snap': snap, 'n': 0, 'vids': self.place_vids(env)}
                else:
                    self.check_progress(body, bb, rec, env, st)
                    if self.leq(snap, rec['snap']):
                        return      # covered by the state already explored from this header
                    j = self.join(rec['snap'], snap, widen=rec['n'] >= 2)
                    env, st = self.restore(j, st)
                    headers = dict(headers)
                    headers[bb] = {'snap': self.snapshot(env, st), 'n': rec['n'] + 1, 'vids': self.place_vids(env)}
            blk = body['blocks'][bb]
            for s in blk['s']:
                if s[0] == '=':
                    self.write(env, s[1], self.rvalue(st, env, s[2]))
                elif s[0] == 'assume':
                    pass
                else:
                    raise Top('statement %s' % s[0])
            t = blk['t']
            kk = t['k']
            if kk == 'goto':
                bb = t['t']
            elif kk == 'return':
                k(env.get(0, ('unit',)), st)
                return
            elif kk == 'switch':
                d = self.operand(st, env, t['d'])
                if d[0] == 'b':
                    val = int(d[1])
                    bb = next((tb for v, tb in t['ts'] if int(v) == val), t['o'])
                    continue
                if d[0] == 'cmp':
                    _, op, vid, K = d
                    for truth in (False, True):
                        st2 = st.clone()
                        if not self.refine(st2, vid, op, K, truth):
                            continue
                        tb = next((tb for v, tb in t['ts'] if int(v) == int(truth)), t['o'])
                        self.explore(body, tb, copy.copy(env), st2, headers, depth, k)
                    return
                if d[0] == 'discr':
                    val = d[1]
                    bb = next((tb for v, tb in t['ts'] if int(v) == val), t['o'])
                    continue
                if d[0] == 's':
                    av = st.vals[d[1]]
                    if av.lo == av.hi:
                        bb = next((tb for v, tb in t['ts'] if int(v) == av.lo), t['o'])
                        continue
                raise Top('switch on %s' % d[0])
            elif kk == 'assert':
                c = self.operand(st, env, t['c'])
                self.obligations += 1
                if c[0] == 'b':
                    if c[1] == t['e']:
                        bb = t['t']
                        continue
                    self.results.append(('panic', t['m'], st))
                    return
                if c[0] == 'ovf':
                    av = st.vals[c[1]]
                    rng = self.trange(av.ty)
                    # failure branch: exact result outside the type
                    for part in ((av.lo, min(av.hi, rng[0] - 1)), (max(av.lo, rng[1] + 1), av.hi)):
                        if part[0] <= part[1]:
                            st3 = st.clone()
                            a3 = st3.vals[c[1]]
                            a3.lo, a3.hi = part
                            if a3.rel == ('E', True):
                                st3.erange = (max(st3.erange[0], part[0]), min(st3.erange[1], part[1]))
                            self.results.append(('panic', t['m'], st3))
                    lo, hi = max(av.lo, rng[0]), min(av.hi, rng[1])
                    if lo > hi:
                        return
                    if t['e'] is not False:
                        raise Top('assert expects overflow')
                    self.refine(st, c[1], 'Ge', lo, True)
                    self.refine(st, c[1], 'Le', hi, True)
                    bb = t['t']
                    continue
                if c[0] == 'cmp':
                    _, op, vid, K = c
                    st2 = st.clone()
                    if self.refine(st2, vid, op, K, not t['e']):
                        self.results.append(('panic', t['m'], st2))
                    if not self.refine(st, vid, op, K, t['e']):
                        return
                    bb = t['t']
                    continue
                raise Top('assert on %s' % c[0])
            elif kk == 'call':
                self.call(body, t, env, st, headers, depth, k)
                return
            elif kk == 'drop':
                bb = t['t']
            elif kk == 'unreachable':
                return
            else:
                raise Top('terminator %s' % kk)

    def call(self, body, t, env, st, headers, depth, k):
        callee = t['callee']
        if callee is None:
            raise Top('indirect call')
        args = [self.operand(st, env, a) for a in t['args']]
        res = callee.get('res') or {}
        target = self.facts.by_hash.get(res.get('hash')) or self.facts.by_hash.get(callee['hash'])
        path = res.get('path') or callee['path']

        def cont(ret, st2, env=env):
            env2 = copy.copy(env)
            self.write(env2, t['dest'], ret)
            if t['t'] is None:
                self.results.append(('panic', 'diverging call to ' + path, st2))
                return
            self.explore(body, t['t'], env2, st2, headers, depth, k)

        if target is not None and 'blocks' in target:
            if depth >= self.MAX_DEPTH:
                raise Top('inlining depth exceeded')
            cenv = {i + 1: a for i, a in enumerate(args)}
            examined.note(target)
            self.explore(target, 0, cenv, st, {}, depth + 1, cont)
            return
        name = callee['name']
        if path.startswith('core::option::Option::<T>::') and name in ('expect', 'unwrap'):
            o = args[0]
            if o[0] == 'agg' and o[1][0] == 'adt' and o[1][1] == 1:
                cont(o[2][0], st)
                return
            if o[0] == 'agg' and o[1][0] == 'adt' and o[1][1] == 0:
                self.results.append(('panic', 'Option::%s on None' % name, st))
                return
            raise Top('Option::%s on unknown option' % name)
        if path == 'core::ops::range::RangeInclusive::<Idx>::new' and len(args) == 2:
            cont(('agg', ('adt', 0, 'core::ops::range::RangeInclusive'), [args[0], args[1], ('b', False)]), st)
            return
        if name == 'contains' and path in ('core::ops::range::RangeInclusive::<Idx>::contains', 'core::ops::range::Range::<Idx>::contains') and len(args) == 2 \
                and args[0][0] == 'refval' and args[1][0] == 'refval' and args[0][1][0] == 'agg' and args[1][1][0] == 's':
            # (lo..=hi).contains(&x)  is  lo <= x && x <= hi   (exclusive upper bound for lo..hi): one state per outcome
            rng, x = args[0][1], args[1][1][1]
            lo_v, hi_v = rng[2][0], rng[2][1]
            if lo_v[0] == 's' and hi_v[0] == 's':
                lo_a, hi_a = st.vals[lo_v[1]], st.vals[hi_v[1]]
                if lo_a.lo == lo_a.hi and hi_a.lo == hi_a.hi:
                    L, H = lo_a.lo, hi_a.lo - (0 if 'Inclusive' in path else 1)
                    for cond, ret in ((('Lt', L), False), (('Gt', H), False), (None, True)):
                        st2 = st.clone()
                        if cond is not None:
                            if not self.refine(st2, x, cond[0], cond[1], True):
                                continue
                        elif not (self.refine(st2, x, 'Ge', L, True) and self.refine(st2, x, 'Le', H, True)):
                            continue
                        cont(('b', ret), st2)
                    return
            raise Top('range with non-constant bounds')
        if name == 'rem_euclid' and path.startswith('core::num::') and len(args) == 2 and args[0][0] == 's' and args[1][0] == 's':
            # x.rem_euclid(K), K a positive constant: the representative of x modulo K in 0..K (cannot panic for K > 0);
            # it stays in x's class modulo M when M divides K
            x, y = st.vals[args[0][1]], st.vals[args[1][1]]
            if y.lo == y.hi and y.lo > 0:
                K = y.lo
                if 0 <= x.lo and x.hi < K:
                    cont(('s', st.new(AV(x.lo, x.hi, x.ty, x.rel, x.base))), st)
                else:
                    self.obligations += 1
                    cont(('s', st.new(AV(0, K - 1, x.ty, ('E', False) if (x.rel is not None and K % self.M == 0) else None, None))), st)
                return
            raise Top('rem_euclid by a non-constant or non-positive modulus')
        if path == 'core::bool::<impl bool>::then_some' and len(args) == 2:
            # c.then_some(v)  is  if c { Some(v) } else { None }: one state per outcome of an undecided comparison
            some = ('agg', ('adt', 1, 'core::option::Option'), [args[1]])
            none = ('agg', ('adt', 0, 'core::option::Option'), [])
            c = args[0]
            if c[0] == 'b':
                cont(some if c[1] else none, st)
                return
            if c[0] == 'cmp':
                for truth, ret in ((True, some), (False, none)):
                    st2 = st.clone()
                    if self.refine(st2, c[2], c[1], c[3], truth):
                        cont(ret, st2)
                return
            raise Top('then_some on an unknown condition')
        if name in ('wrapping_add', 'wrapping_sub', 'wrapping_mul', 'wrapping_neg') and path.startswith('core::num::'):
            # same as the plain operator with overflow checks off
            op = {'wrapping_add': 'Add', 'wrapping_sub': 'Sub', 'wrapping_mul': 'Mul', 'wrapping_neg': 'Neg'}[name]
            cont(self.arith(st, op, args[0], args[1] if len(args) > 1 else None), st)
            return
        if name in ('from', 'into') and callee.get('trait') in ('core::convert::From', 'core::convert::Into') and len(callee['args']) >= 2:
            # the lossless integer conversions of core are value-preserving casts
            targs = callee['args']
            dst, src = (targs[0], targs[1]) if name == 'from' else (targs[1], targs[0])
            if self.facts.ty(src).get('k') == 'int' and self.facts.ty(dst).get('k') == 'int':
                cont(self.cast(st, args[0], dst), st)
                return
        raise Top('call to %s is outside the domain' % path)

    def rvalue(self, st, env, rv):
        k = rv[0]
        if k == 'use':
            return self.operand(st, env, rv[1])
        if k == 'bin':
            a = self.operand(st, env, rv[2])
            b = self.operand(st, env, rv[3])
            op = rv[1]
            if op in ('Lt', 'Le', 'Gt', 'Ge', 'Eq', 'Ne'):
                if a[0] == 's' and b[0] == 's':
                    x, y = st.vals[a[1]], st.vals[b[1]]
                    if y.lo == y.hi:
                        K = y.lo
                        # decided?
                        dec = self.decide(x, op, K)
                        return ('b', dec) if dec is not None else ('cmp', op, a[1], K)
                    if x.lo == x.hi:
                        flip = {'Lt': 'Gt', 'Le': 'Ge', 'Gt': 'Lt', 'Ge': 'Le', 'Eq': 'Eq', 'Ne': 'Ne'}[op]
                        dec = self.decide(y, flip, x.lo)
                        return ('b', dec) if dec is not None else ('cmp', flip, b[1], x.lo)
                raise Top('comparison of two non-constant values')
            if op in ('BitAnd', 'BitOr') and a[0] == 'b' and b[0] == 'b':
                return ('b', (a[1] and b[1]) if op == 'BitAnd' else (a[1] or b[1]))
            if op in ('BitAnd', 'BitOr') and (a[0] in ('b', 'cmp')) and (b[0] in ('b', 'cmp')):
                # debug-build guard of Neg / Div (x == MIN & y == -1): only constant folding is supported
                if a[0] == 'b' and ((op == 'BitAnd' and not a[1]) or (op == 'BitOr' and a[1])):
                    return a
                if b[0] == 'b' and ((op == 'BitAnd' and not b[1]) or (op == 'BitOr' and b[1])):
                    return b
                if a[0] == 'b':
                    return b
                if b[0] == 'b':
                    return a
                raise Top('boolean combination of two undecided comparisons')
            return self.arith(st, op, a, b)
        if k == 'un':
            a = self.operand(st, env, rv[2])
            if rv[1] == 'Not':
                if a[0] == 'b':
                    return ('b', not a[1])
                if a[0] == 'cmp':
                    inv = {'Gt': 'Le', 'Ge': 'Lt', 'Lt': 'Ge', 'Le': 'Gt', 'Eq': 'Ne', 'Ne': 'Eq'}[a[1]]
                    return ('cmp', inv, a[2], a[3])
                raise Top('Not of %s' % a[0])
            if rv[1] == 'Neg':
                return self.arith(st, 'Neg', a, None)
            raise Top('unary %s' % rv[1])
        if k == 'cast':
            if rv[1] == 'IntToInt':
                return self.cast(st, self.operand(st, env, rv[2]), rv[3])
            raise Top('cast kind %s' % rv[1])
        if k == 'agg':
            kind = rv[1]
            vals = [self.operand(st, env, o) for o in rv[2]]
            if kind[0] == 'tuple':
                return ('agg', ('tuple', 0), vals)
            if kind[0] == 'adt':
                return ('agg', ('adt', kind[2], kind[1]), vals)
            raise Top('aggregate %s' % kind[0])
        if k == 'discr':
            v = self.read(st, env, rv[1])
            if v[0] == 'agg' and v[1][0] == 'adt':
                return ('discr', v[1][1])
            raise Top('discriminant of unknown value')
        if k == 'ref':
            # a shared reference handed straight to a modelled core function (`range.contains(&x)`): the value it points to now
            try:
                return ('refval', self.read(st, env, rv[2]))
            except Top:
                return ('opaque',)       # e.g. the &str message handed to expect()
        raise Top('rvalue %s' % k)

    @staticmethod
    def decide(x, op, K):
        if op == 'Gt':
            return True if x.lo > K else (False if x.hi <= K else None)
        if op == 'Ge':
            return True if x.lo >= K else (False if x.hi < K else None)
        if op == 'Lt':
            return True if x.hi < K else (False if x.lo >= K else None)
        if op == 'Le':
            return True if x.hi <= K else (False if x.lo > K else None)
        if op == 'Eq':
            return True if x.lo == x.hi == K else (False if (K < x.lo or K > x.hi) else None)
        if op == 'Ne':
            return False if x.lo == x.hi == K else (True if (K < x.lo or K > x.hi) else None)

    # -- loop support ---------------------------------------------------------------------
    def snapshot(self, env, st):
        def conv(tree):
            if tree[0] == 's':
                a = st.vals[tree[1]]
                return ('s', a.lo, a.hi, a.rel, a.ty)
            if tree[0] == 'agg':
                return ('agg', tree[1], tuple(conv(x) for x in tree[2]))
            if tree[0] in ('cmp', 'ovf'):
                return ('dead',)
            return tree
        return {l: conv(t) for l, t in env.items()}

    def place_vids(self, env):
        out = {}

        def walk(tree, key):
            if tree[0] == 's':
                out[key] = tree[1]
            elif tree[0] == 'agg':
                for i, x in enumerate(tree[2]):
                    walk(x, key + (i,))
        for l, t in env.items():
            walk(t, (l,))
        return out

    def leq(self, a, b):
        def le(x, y):
            if y[0] == 'dead':
                return True
            if x[0] != y[0]:
                return False
            if x[0] == 's':
                return y[1] <= x[1] and x[2] <= y[2] and (y[3] is None or x[3] == y[3] or (x[3] == ('E', True) and y[3] == ('E', False)))
            if x[0] == 'agg':
                return x[1] == y[1] and len(x[2]) == len(y[2]) and all(le(p, q) for p, q in zip(x[2], y[2]))
            return x == y
        return all(l in a and le(a[l], b[l]) for l in b)

    def join(self, a, b, widen):
        def jn(x, y):
            if x[0] != y[0]:
                return ('dead',)
            if x[0] == 's':
                lo, hi = min(x[1], y[1]), max(x[2], y[2])
                if widen:
                    rng = self.trange(x[4])
                    if lo < x[1]:
                        lo = rng[0]
                    if hi > x[2]:
                        hi = rng[1]
                rel = x[3] if x[3] == y[3] else (('E', False) if (x[3] and y[3]) else None)
                return ('s', lo, hi, rel, x[4])
            if x[0] == 'agg':
                if x[1] != y[1] or len(x[2]) != len(y[2]):
                    return ('dead',)
                return ('agg', x[1], tuple(jn(p, q) for p, q in zip(x[2], y[2])))
            return x if x == y else ('dead',)
        return {l: jn(a[l], b[l]) for l in a if l in b}

    def restore(self, snap, st):
        st2 = State()
        st2.erange = st.erange
        st2.loop_progress = st.loop_progress

        def conv(t):
            if t[0] == 's':
                return ('s', st2.new(AV(t[1], t[2], t[4], t[3])))
            if t[0] == 'agg':
                return ('agg', t[1], [conv(x) for x in t[2]])
            return t
        env = {l: conv(t) for l, t in snap.items() if t[0] != 'dead'}
        return env, st2

    def check_progress(self, body, hdr, rec, env, st):
        """a back edge reached the header: some place must have moved against the loop guard"""
        now = self.place_vids(env)
        moved = []
        for key, vid0 in rec['vids'].items():
            vid1 = now.get(key)
            if vid1 is None or vid1 == vid0:
                continue
            b = st.vals[vid1].base
            if b is not None and b[0] == vid0 and b[1] != 0:
                moved.append((key, b[1], vid0))
        self.loop_iterations = getattr(self, 'loop_iterations', [])
        self.loop_iterations.append((body['path'], hdr, [(k, d) for k, d, _ in moved], [(k, (st.vals[v].lo, st.vals[v].hi)) for k, _, v in moved]))
