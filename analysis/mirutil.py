"""Small helpers over MIR facts shared by the rule files."""


def successors(term, unwind=False):
    k = term['k']
    if k == 'goto':
        return [term['t']]
    if k == 'switch':
        return [t for _, t in term['ts']] + [term['o']]
    if k in ('call', 'drop', 'assert'):
        out = [] if term.get('t') is None else [term['t']]
        if unwind and isinstance(term.get('u'), int):
            out.append(term['u'])
        return out
    return []


def normal_blocks(body):
    """indices of blocks reachable from entry without unwind edges"""
    seen = set()
    stack = [0]
    while stack:
        b = stack.pop()
        if b in seen:
            continue
        seen.add(b)
        stack.extend(successors(body['blocks'][b]['t']))
    return seen


def calls(body, include_cleanup=False):
    """(block index, terminator) for all call terminators on normal (non-unwind) paths"""
    nb = normal_blocks(body) if not include_cleanup else range(len(body['blocks']))
    out = []
    for i in sorted(nb):
        t = body['blocks'][i]['t']
        if t['k'] == 'call':
            out.append((i, t))
    return out


def callee_path(term):
    c = term.get('callee')
    if not c:
        return None
    return c['path']


def resolved_path(term):
    c = term.get('callee')
    if not c:
        return None
    r = c.get('res')
    return (r or c)['path']


def where(body, term=None, line=None):
    f = body['span'].rsplit(':', 1)[0]
    l = line if line is not None else (term.get('l') if term else None)
    if l is None:
        return body['span']
    return '%s:%s' % (f, l)


def forwarder(body):
    """If `body` is straight-line code consisting of exactly one call whose result is returned,
    return (terminator, [source of each argument]) where a source is ('param', i, projections)
    or ('other',); else None."""
    env = {i: ('param', i, ()) for i in range(1, body['argc'] + 1)}
    bb = 0
    the_call = None
    the_args = None
    ret_from = None
    steps = 0
    while steps < 50:
        steps += 1
        blk = body['blocks'][bb]
        for st in blk['s']:
            if st[0] != '=':
                return None
            _, place, rv, _l = st
            if place[1]:
                return None
            if rv[0] == 'use' and rv[1][0] in ('cp', 'mv'):
                src = rv[1][1]
                v = env.get(src[0])
                if v is None:
                    return None
                if src[1]:
                    if v[0] != 'param':
                        return None
                    v = ('param', v[1], v[2] + tuple(str(p) for p in src[1]))
                env[place[0]] = v
            elif rv[0] == 'ref' and not rv[2][1]:
                v = env.get(rv[2][0])
                if v is None:
                    return None
                env[place[0]] = ('refof',) + v if v[0] != 'ret' else v
            elif rv[0] == 'ref' and rv[2][1] == ['*']:
                v = env.get(rv[2][0])
                if v is None:
                    return None
                env[place[0]] = v          # reborrow
            else:
                return None
        t = blk['t']
        if t['k'] == 'goto':
            bb = t['t']
        elif t['k'] == 'call':
            if the_call is not None:
                return None
            the_call = t
            the_args = []
            for a in t['args']:
                if a[0] in ('cp', 'mv'):
                    v = env.get(a[1][0], ('other',))
                    if a[1][1]:
                        v = ('param', v[1], v[2] + tuple(str(p) for p in a[1][1])) if v[0] == 'param' else ('other',)
                    the_args.append(v)
                else:
                    the_args.append(('const', a[1].get('disp')))
            if t['dest'][1]:
                return None
            env[t['dest'][0]] = ('ret',)
            if t['t'] is None:
                return None
            bb = t['t']
        elif t['k'] == 'drop':
            bb = t['t']
        elif t['k'] == 'return':
            if the_call is None:
                return None
            r = env.get(0)
            if r != ('ret',):
                ret_ty_unit = False
                if r is None:
                    ret_ty_unit = True
                if not ret_ty_unit:
                    return None
            return the_call, the_args
        else:
            return None
    return None


def first_line(body):
    """file:line of the first statement/terminator of the body (macro-argument tokens keep their own span)"""
    f = body['span'].rsplit(':', 1)[0]
    for blk in body['blocks']:
        for st in blk['s']:
            if st[0] == '=':
                return '%s:%s' % (f, st[3])
        if blk['t'].get('l'):
            return '%s:%s' % (f, blk['t']['l'])
    return body['span']
