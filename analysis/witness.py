"""E6 — compile-fail witnesses: runs the doc-tests of /verif/witness against the current tree (nothing is executed:
every doc-test is `compile_fail,E0xxx` or `no_run`).  A witness holds iff its compile_fail test passes (the program
is rejected with exactly that error code) AND its compiling twin passes (so the rejection is not due to a wrong path)."""
import fcntl
import os
import re
import shutil
import subprocess

import facts as factsmod

_RESULT = {}


def run_doctests():
    """returns dict name -> {'compile fail': bool, 'compile': bool} (cached per process) or raises ExtractionError"""
    if 'r' in _RESULT:
        return _RESULT['r']
    repo = factsmod.REPO
    src = os.path.join(factsmod.VERIF, 'witness')
    work = os.path.join(factsmod.CACHE, 'witness-%d' % os.getpid())
    shutil.rmtree(work, ignore_errors=True)
    os.makedirs(os.path.join(work, 'src'))
    try:
        with open(os.path.join(src, 'Cargo.toml.in')) as fh:
            toml = fh.read().replace('@REPO@', repo)
        with open(os.path.join(work, 'Cargo.toml'), 'w') as fh:
            fh.write(toml)
        shutil.copy(os.path.join(src, 'src', 'lib.rs'), os.path.join(work, 'src', 'lib.rs'))
        shutil.copy(os.path.join(repo, 'Cargo.lock'), os.path.join(work, 'Cargo.lock'))
        env = dict(os.environ, CARGO_NET_OFFLINE='true', CARGO_TARGET_DIR=os.path.join(factsmod.CACHE, 'witness-target'))
        env.pop('RUSTC_WORKSPACE_WRAPPER', None)
        os.makedirs(os.path.join(factsmod.CACHE, 'locks'), exist_ok=True)
        with open(os.path.join(factsmod.CACHE, 'locks', 'witness.lock'), 'w') as lock:
            fcntl.flock(lock, fcntl.LOCK_EX)
            r = subprocess.run(['cargo', '+nightly', 'test', '--doc', '--offline'], cwd=work, env=env, stdout=subprocess.PIPE, stderr=subprocess.STDOUT, text=True)
            # the build output of every analysed tree accumulates here (~50 MB each): keep it bounded
            tdir = os.path.join(factsmod.CACHE, 'witness-target')
            try:
                size = sum(os.path.getsize(os.path.join(dp, f)) for dp, _, fs in os.walk(tdir) for f in fs)
                if size > 400 * 1024 * 1024:
                    shutil.rmtree(tdir, ignore_errors=True)
            except OSError:
                pass
    finally:
        shutil.rmtree(work, ignore_errors=True)
    res = {}
    for m in re.finditer(r'^test src/lib\.rs - (\w+) \(line \d+\) - (compile fail|compile) \.\.\. (ok|FAILED)', r.stdout, re.M):
        res.setdefault(m.group(1), {})[m.group(2)] = m.group(3) == 'ok'
    if not res:
        raise factsmod.ExtractionError('witness doc-tests did not run:\n' + r.stdout[-3000:])
    _RESULT['r'] = res
    return res


def check(run, prefix, expected):
    """record one instance per witness whose name starts with `prefix`; `expected` = number of witnesses (floor)"""
    res = run_doctests()
    n = 0
    for name, r in sorted(res.items()):
        if not name.startswith(prefix):
            continue
        n += 1
        if not r.get('compile', False):
            run.fail('witness', name, 'twin', 'the compiling twin of this witness no longer compiles (API changed?); the witness proves nothing')
        elif not r.get('compile fail', False):
            run.fail('witness', name, 'compile_fail', 'a program that must be rejected by the type system now compiles (or fails with a different error)')
        else:
            run.ok('witness', name, 'compile_fail+twin', sample={'witness': name, 'rejected with the expected error code': True, 'twin compiles': True})
    run.floor('witness', '%s* witnesses' % prefix, n, expected)
