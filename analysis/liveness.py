"""Liveness of MIR locals at loop headers.

The path summaries record, at every loop header and back edge, the values of *all* locals the loop assigns -- including
compiler temporaries that are always written before they are read (the flag of a comparison, the pair of a checked
addition).  Those values cannot influence what the function does; a refactoring that only changes which temporaries exist
must not change the canonical summary.  `live_at(body, header)` gives the locals whose value on entry to the header block
may be read before it is overwritten, computed by the usual backward dataflow over the normal and unwind edges.  A local
whose address is taken anywhere in the body is always reported live (it can be read through the pointer)."""
import mirutil

_CACHE = {}


def _place_uses(pl, out):
    """locals read in order to *evaluate* the place (the base when projected, index locals)"""
    for p in pl[1]:
        if isinstance(p, list) and p and p[0] == 'i':
            out.add(p[1])


def _operand(op, out):
    if isinstance(op, list) and op and op[0] in ('cp', 'mv'):
        out.add(op[1][0])
        _place_uses(op[1], out)


def _rvalue(rv, out, taken):
    k = rv[0]
    if k in ('use', 'repeat', 'un'):
        _operand(rv[-1] if k != 'repeat' else rv[1], out)
    elif k in ('ref', 'rawptr'):
        pl = rv[2]
        out.add(pl[0])
        _place_uses(pl, out)
        if '*' not in [p for p in pl[1] if isinstance(p, str)]:
            taken.add(pl[0])
    elif k == 'cast':
        _operand(rv[2], out)
    elif k == 'bin':
        _operand(rv[2], out)
        _operand(rv[3], out)
    elif k in ('discr', 'len'):
        out.add(rv[1][0])
        _place_uses(rv[1], out)
    elif k == 'agg':
        for o in rv[2]:
            _operand(o, out)
    elif k == 'tls':
        pass
    else:
        _generic(rv, out)


def _generic(x, out):
    """unknown form: every operand / place-shaped sublist counts as a use"""
    if isinstance(x, list):
        if len(x) == 2 and x[0] in ('cp', 'mv') and isinstance(x[1], list):
            _operand(x, out)
            return
        if len(x) == 2 and isinstance(x[0], int) and isinstance(x[1], list):
            out.add(x[0])
            _place_uses(x, out)
            return
        for y in x:
            _generic(y, out)
    elif isinstance(x, dict):
        for y in x.values():
            _generic(y, out)


def _block_transfer(blk, taken):
    """(use, defs): locals read before any full overwrite in the block; locals fully overwritten"""
    use, defs = set(), set()

    def read(s):
        for l in s:
            if l not in defs:
                use.add(l)
    for st in blk['s']:
        r = set()
        if st[0] == '=':
            _rvalue(st[2], r, taken)
            pl = st[1]
            _place_uses(pl, r)
            if pl[1]:
                r.add(pl[0])            # partial write / write through a pointer: the rest of the local stays
            read(r)
            if not pl[1]:
                defs.add(pl[0])
        elif st[0] == 'setdiscr':
            r.add(st[1][0])
            _place_uses(st[1], r)
            read(r)
        else:
            _generic(st[1:], r)
            read(r)
    t = blk['t']
    k = t['k']
    r = set()
    if k == 'switch':
        _operand(t['d'], r)
    elif k == 'call':
        if t.get('f'):
            _operand(t['f'], r)
        for a in t['args']:
            _operand(a, r)
        d = t['dest']
        _place_uses(d, r)
        if d[1]:
            r.add(d[0])
        read(r)
        r = set()
        if not d[1]:
            defs.add(d[0])
    elif k == 'assert':
        _operand(t['c'], r)
        for o in t.get('mo') or []:
            _operand(o, r)
    elif k == 'drop':
        r.add(t['p'][0])
        _place_uses(t['p'], r)
    elif k == 'return':
        r.add(0)
    elif k in ('goto', 'unreachable', 'resume', 'terminate'):
        pass
    else:
        _generic(t, r)
    read(r)
    return use, defs


def analyse(body):
    key = body['hash']
    if key in _CACHE:
        return _CACHE[key]
    blocks = body['blocks']
    taken = set()
    tr = [_block_transfer(b, taken) for b in blocks]
    succ = [mirutil.successors(b['t'], unwind=True) for b in blocks]
    live_in = [set(u) for u, _ in tr]
    changed = True
    while changed:
        changed = False
        for i in range(len(blocks) - 1, -1, -1):
            out = set()
            for s in succ[i]:
                out |= live_in[s]
            new = tr[i][0] | (out - tr[i][1])
            if new != live_in[i]:
                live_in[i] = new
                changed = True
    # by-reference arguments: what a `&mut` parameter points to outlives the body, but the parameter local itself is
    # an ordinary local; nothing to add
    res = {'live_in': live_in, 'taken': taken}
    _CACHE[key] = res
    return res


def live_at(body, header):
    """locals that may be read before being overwritten when control is at the start of block `header`"""
    a = analyse(body)
    return a['live_in'][header] | a['taken']
