#!/usr/bin/env python3
"""Entry point: ./check Cxx [--tier quick|thorough] [--replay file]"""
import argparse
import importlib
import json
import os
import sys
import traceback

sys.path.insert(0, os.path.dirname(os.path.abspath(__file__)))
import facts as factsmod  # noqa: E402
from report import Run  # noqa: E402


class Loader:
    """Lazily extracts/loads configurations; records which were used."""

    def __init__(self, run):
        self.run = run
        self.cache = {}

    def __call__(self, config, optional=False):
        """optional=True: a configuration other than the one the test suite builds (no_std) that no longer compiles is
        skipped with a note instead of aborting the check — the property is then decided on the std build only"""
        if config not in self.cache:
            try:
                self.cache[config] = factsmod.Facts(config)
                import rename
                rename.align(self.cache[config], config, note=self.run.note)
            except factsmod.ExtractionError as e:
                if not optional:
                    raise
                self.run.note('configuration %s does not compile on this tree and was skipped: %s' % (config, str(e).strip().splitlines()[-1][:200]))
                self.cache[config] = None
                return None
            if config not in self.run.configs:
                self.run.configs.append(config)
        return self.cache[config]


def main():
    ap = argparse.ArgumentParser()
    ap.add_argument('prop')
    ap.add_argument('--tier', default=os.environ.get('VERIF_TIER') or 'quick')
    ap.add_argument('--replay')
    a = ap.parse_args()
    tier = a.tier if a.tier in ('quick', 'thorough') else 'quick'
    mod = importlib.import_module('rules.' + a.prop)
    run = Run(a.prop, tier, mod.LEVEL, './check %s --tier %s' % (a.prop, tier))
    if a.replay:
        with open(a.replay) as fh:
            f = json.load(fh)
        run.only = (f['rule'], f['function'], f['instance'])
    try:
        loader = Loader(run)
        try:
            mod.run(run, tier, loader)
        except factsmod.ExtractionError:
            raise
        except Exception as e:
            # A rule met a construct its matcher cannot digest (only ever seen on trees that differ from the reference).
            # Fail closed: the property was not established for this tree, and say where the checker stopped.
            tb = traceback.extract_tb(e.__traceback__)
            at = next(('%s:%d in %s' % (os.path.basename(f.filename), f.lineno, f.name) for f in reversed(tb) if '/rules/' in f.filename), 'rule code')
            traceback.print_exc()
            run.unproven('checker.unanalysable', '<%s rules>' % a.prop, 'all',
                         'the rules of %s could not analyse this tree (%s: %s at %s); the instances recorded before that point stand, '
                         'the remaining ones were not evaluated' % (a.prop, type(e).__name__, str(e)[:200], at))
        import ownership
        # on every build configuration the property's rules looked at (std-debug always; the release and no_std builds have
        # code of their own -- `cfg!(debug_assertions)` branches, the no_std math fallbacks)
        cov_cfgs = ['std-debug'] + [c for c in ('std-release', 'nostd') if loader.cache.get(c) is not None]
        if a.prop in ownership.NOSTD_CODE and 'nostd' not in cov_cfgs:
            cov_cfgs.append('nostd')        # these properties own math fallbacks that exist in the no_std build only
        ownership.check_uncovered(run, a.prop, loader, configs=tuple(cov_cfgs))
        import deps
        deps.apply(run, a.prop, tier, loader)
        import equiv
        equiv.second_chance(run, loader)
    except factsmod.ExtractionError as e:
        print('[%s] cannot analyse the tree: %s' % (a.prop, e), file=sys.stderr)
        sys.exit(2)
    except Exception:
        traceback.print_exc()
        print('[%s] internal error in the checker (not a verdict)' % a.prop, file=sys.stderr)
        sys.exit(3)
    if run.only:
        run.findings = [f for f in run.findings if (f['rule'], f['function'], f['instance']) == run.only]
    sys.exit(run.finish())


if __name__ == '__main__':
    main()
