"""Second chance: semantic equivalence with the verified reference implementation.

A rule that does not recognise the *shape* of a function (a loop rewritten as `match`, an early return, a private
helper, `checked_sub` instead of a comparison) says nothing about its behaviour.  Before such a failure is reported,
the function's path summaries on the current tree -- computed with every workspace callee and every small `core`
combinator inlined -- are compared with the summaries of the same function on the reference tree (the tree on which
all rules passed; stored under reference/).  If the two are *provably* equivalent, the property holds for the
function by transitivity and the failure is withdrawn; if the comparison cannot prove it, the failure stands.

Equivalence is decided conservatively:
  * both path sets are exhaustive enumerations of the function's acyclic paths (loops: one generic iteration);
  * for every pair (reference path, current path) either their branch conditions are jointly unsatisfiable
    (decided by sign-set reasoning on comparisons of the same two terms and interval reasoning on comparisons with
    constants -- anything undecided counts as satisfiable), or their behaviours -- ordered effect trace, final
    writes, return term, kind of exit -- are syntactically equal after canonical renaming, normalisation of
    comparison/commutative operators and substitution of the equalities the two paths establish;
  * overflow assertions that the path conditions make infeasible are not effects.
Only rules whose verdict is a function of the (inlined) body and its type context are eligible; inventories,
who-may-call rules, tables and floors are not."""
import gzip
import hashlib
import json
import os
import re

import liveness
import terms as T

VERIF = os.path.dirname(os.path.dirname(os.path.abspath(__file__)))
REFDIR = os.path.join(VERIF, 'reference')

INELIGIBLE = re.compile(r'who-may-call|inventory|\.table|table\.|no-override|exhaustion\.override|^heap\.|positive-control|^consts$|^repr$|^derive$|'
                        r'processor-storage|drop-impl|numchannels-witness|sibling-agreement|unchecked-inventory|^dep\.C\d\d\.|fork\.aliasing|resplit')

CMP_FLIP = {'Gt': 'Lt', 'Ge': 'Le', 'Lt': 'Gt', 'Le': 'Ge', 'Eq': 'Eq', 'Ne': 'Ne'}
CMP_NEG = {'Lt': 'Ge', 'Le': 'Gt', 'Gt': 'Le', 'Ge': 'Lt', 'Eq': 'Ne', 'Ne': 'Eq'}
COMMUTATIVE = {'Add', 'Mul', 'BitAnd', 'BitOr', 'BitXor', 'Eq', 'Ne'}
OPNAME = {'AddUnchecked': 'Add', 'SubUnchecked': 'Sub', 'MulUnchecked': 'Mul', 'ShlUnchecked': 'Shl', 'ShrUnchecked': 'Shr'}
TRUNC_MASK = {0xFF: 'u8', 0xFFFF: 'u16', 0xFFFFFFFF: 'u32'}
UNSIGNED = ('usize', 'u8', 'u16', 'u32', 'u64', 'u128')


def policy(shallow=False):
    return T.Policy(inline=True, max_depth=10, inline_core=True, subst_types=True, pure_ref_values=True, typed_floats=True, record_ref_values=True,
                    pure_extra=('core::slice::<impl [T]>::len', 'core::slice::<impl [T]>::is_empty'), own_body_only=shallow)


# ------------------------------------------------------------------ term normalisation

def tl(t):
    """tuples -> lists (json) recursively, dicts to sorted lists"""
    if isinstance(t, (tuple, list)):
        return [tl(x) for x in t]
    if isinstance(t, (frozenset, set)):
        return ['#set'] + sorted(tl(x) for x in t)
    if isinstance(t, dict):
        return ['#dict'] + [[tl(k), tl(v)] for k, v in sorted(t.items(), key=lambda kv: repr(kv[0]))]
    return t


def tt(t):
    if isinstance(t, list):
        return tuple(tt(x) for x in t)
    return t


_CLOSURE_TY = re.compile(r'\{closure@[^}]*\}')
_FNITEM_TY = re.compile(r'^(for<[^>]*> )?(unsafe )?(extern "[^"]*" )?fn\(.*\)( -> .*)? \{.*\}$')


def norm(t):
    if isinstance(t, str):
        # the type of a callable passed as an argument says nothing beyond its body, which is compared separately
        if '{closure@' in t:
            t = _CLOSURE_TY.sub('{callable}', t)
        if _FNITEM_TY.match(t):
            return '{callable}'
        return t
    if not isinstance(t, tuple):
        return t
    if not t:
        return t
    h = t[0]
    if h == 'op' and len(t) == 4:
        op = OPNAME.get(t[1], t[1])
        a, b = norm(t[2]), norm(t[3])
        if op == 'Shr.u':
            if b[0] == 'int' and 0 <= b[1] < 64:
                op, b = 'Div', ('int', 1 << b[1], 'usize')
            else:
                op = 'Shr'
        if op == 'Div' and b[0] == 'int' and len(b) > 2:
            b = ('int', b[1], 'usize') if b[2] in UNSIGNED else b
        fl = op.endswith('.f')
        base = op[:-2] if fl else op
        if base in ('Gt', 'Ge'):
            base, a, b = CMP_FLIP[base], b, a       # a > b  ==  b < a  (also for NaN: both false)
        if base in COMMUTATIVE and repr(b) < repr(a):
            a, b = b, a                              # IEEE addition / multiplication are commutative as well
        if base == 'BitAnd':
            # (x & c1) & c2  ==  x & (c1 & c2)
            for u, v in ((a, b), (b, a)):
                if u[0] == 'int' and v[0] == 'op' and v[1] == 'BitAnd' and len(v) == 4:
                    for w, z in ((v[2], v[3]), (v[3], v[2])):
                        if w[0] == 'int':
                            return norm(('op', 'BitAnd', z, ('int', u[1] & w[1]) + tuple(u[2:])))
        if not fl and a[0] == 'int' and b[0] == 'int':
            # constant folding (after the equalities of a path pair have been substituted)
            x, y = a[1], b[1]
            if base in ('Lt', 'Le', 'Eq', 'Ne'):
                return ('bool', {'Lt': x < y, 'Le': x <= y, 'Eq': x == y, 'Ne': x != y}[base])
        if not fl and base in ('Eq', 'Le') and a == b and a[0] not in ('app', 'float'):
            return ('bool', True)
        if not fl and base in ('Ne', 'Lt') and a == b and a[0] not in ('app', 'float'):
            return ('bool', False)
        return ('op', base + ('.f' if fl else ''), a, b)
    if h == 'un' and len(t) == 3 and t[1] == 'Not':
        x = norm(t[2])
        if x[0] == 'un' and x[1] == 'Not':
            return x[2]
        if x[0] == 'op' and x[1] in CMP_NEG:
            return norm(('op', CMP_NEG[x[1]], x[2], x[3]))
        if x[0] == 'bool':
            return ('bool', not x[1])
        return ('un', 'Not', x)
    if h == 'const' and len(t) == 3 and isinstance(t[1], str) and t[1].startswith('"assertion failed: '):
        return ('const', '"assertion failed"', t[2])        # the stringified condition of an `assert!` names variables; it is no behaviour
    if h == 'agg' and len(t) == 3 and isinstance(t[1], tuple) and t[1] and t[1][0] == 'adt' and len(t[1]) > 2 and t[1][2] == 0 and len(t[2]) > 1:
        # struct-update syntax: `S { a: v, ..x }` builds S from x's other fields -- the value `x` with a := v
        comps = tuple(norm(c) for c in t[2])
        bases = {c[1] for i, c in enumerate(comps) if isinstance(c, tuple) and len(c) == 3 and c[0] == 'field' and c[2] == i}
        if len(bases) == 1:
            x = next(iter(bases))
            ups = tuple(sorted((((('f', i),), c) for i, c in enumerate(comps) if c != ('field', x, i)), key=repr))
            if len(ups) < len(comps):
                return ('upd', x, ups) if ups else x
        return ('agg', norm(t[1]), comps)
    if h == 'ref' and len(t) == 2 and isinstance(t[1], tuple) and len(t[1]) == 2 and t[1][1] == () and isinstance(t[1][0], tuple) and len(t[1][0]) == 2 and t[1][0][0] == 'P':
        return norm(t[1][0][1])     # `&*r` is `r`: the address of what a pointer points to is that pointer
    if h == 'cast' and len(t) == 4:
        x, ty = norm(t[2]), norm(t[3])
        if t[1] == 'IntToInt' and x[0] == 'op' and x[1] == 'BitAnd' and len(x) == 4:
            # (x & 0xFF) as W  ==  (x as u8) as W   (two's complement truncation), likewise for 16 and 32 bits
            for u, v in ((x[2], x[3]), (x[3], x[2])):
                if u[0] == 'int' and u[1] in TRUNC_MASK:
                    return norm(('cast', 'IntToInt', ('cast', 'IntToInt', v, TRUNC_MASK[u[1]]), t[3]))
        if isinstance(x, tuple) and len(x) == 4 and x[0] == 'cast' and x[3] == ty:
            return x        # a cast of a value that already has the target type (the value of a cast to it) is that value
        return ('cast', t[1], x, ty)
    if h == 'app' and len(t) == 4 and len(t[2]) == 1 and isinstance(t[1], str) and (
            (t[1] == 'core::clone::Clone::clone' and t[3] and isinstance(t[3][0], str)
             and (t[3][0] in COPY_TYPES or t[3][0].startswith(('&', 'core::marker::PhantomData<', '*const ', '*mut '))) and not t[3][0].startswith('&mut'))
            or _COPY_CLONE.match(t[1])):
        if 'PhantomData' in t[1] or (t[3] and isinstance(t[3][0], str) and t[3][0].startswith('core::marker::PhantomData<')):
            return ('agg', ('adt', 'core::marker::PhantomData', 0, 'PhantomData'), ())      # the one value of a zero-sized marker
        a = norm(t[2][0])
        return a[1] if a[0] == 'refval' else ('deref', a)       # cloning a Copy value is copying it
    if h == 'app' and len(t) == 4 and isinstance(t[1], str) and t[3] and t[1] not in CONV_APPS:
        # a trait method named by the impl it resolved to, or by the trait when the call stayed generic (inside a blanket
        # impl such as `&A == &B`): the trait, the method and the type arguments determine the impl (coherence)
        m = _IMPL_PATH.match(t[1])
        if m:
            return norm(('app', '%s::%s' % (m.group('tr') or m.group('tr2'), m.group('m')), t[2], t[3]))
    if h == 'app' and len(t) == 4 and t[1] in CONV_APPS and len(t[2]) == 1 and isinstance(t[3], tuple):
        # the four spellings of one sample conversion (no Sample impl overrides the provided methods: C03 sample.no-override;
        # the blanket ToSample impl forwards to FromSample: C01 dispatch.generic) -- one canonical application
        tys = t[3]
        kind = CONV_APPS[t[1]]
        src = dst = None
        if kind == 'to' and len(tys) >= 2:
            src, dst = tys[0], tys[1]
        elif kind == 'from' and len(tys) >= 2:
            src, dst = tys[1], tys[0]
        elif kind in ('Signed', 'Float') and len(tys) >= 1:
            src, dst = tys[0], '<%s as dasp_sample::Sample>::%s' % (tys[0], kind)
        if src is not None:
            return ('app', 'sample-conversion', (norm(t[2][0]),), (norm(src), norm(dst)))
    return tuple(norm(x) for x in t)


_IMPL_PATH = re.compile(r"^(?:.*<impl (?P<tr>core::(?:cmp::Partial(?:Eq|Ord)|cmp::Ord|ops::arith::\w+|ops::bit::\w+))(?:<.*>)? for .*>|<.* as (?P<tr2>core::(?:cmp::Partial(?:Eq|Ord)|cmp::Ord|ops::arith::\w+|ops::bit::\w+))(?:<.*>)?>)::(?P<m>\w+)$")
_COPY_CLONE = re.compile(r'^(core::clone::impls::<impl core::clone::Clone for (&T|\*const T|\*mut T|[a-z0-9]+|!)>::clone|<core::marker::PhantomData<T> as core::clone::Clone>::clone)$')
COPY_TYPES = ('usize', 'isize', 'u8', 'u16', 'u32', 'u64', 'u128', 'i8', 'i16', 'i32', 'i64', 'i128', 'f32', 'f64', 'bool', 'char', '()')
CONV_APPS = {'dasp_sample::Sample::to_sample': 'to', 'dasp_sample::conv::ToSample::to_sample_': 'to',
             'dasp_sample::Sample::from_sample': 'from', 'dasp_sample::conv::FromSample::from_sample_': 'from',
             'dasp_sample::Sample::to_signed_sample': 'Signed', 'dasp_sample::Sample::to_float_sample': 'Float'}


class Namer:
    """first-occurrence renaming of event indices, frames, loop ids, havoc ids"""

    def __init__(self, evmap, ranks=None):
        self.evmap = evmap      # raw event index -> canonical index (or None if the event was dropped)
        self.frames = {}
        self.hv = {}
        self.bbs = {}
        self.ranks = ranks or {}    # (header block, havoc id) -> {local: position among the locals live at that header}

    def frame(self, f):
        if f not in self.frames:
            self.frames[f] = len(self.frames)
        return self.frames[f]

    def rn(self, t):
        if isinstance(t, dict):
            return tuple(sorted(((self.rn(k) if isinstance(k, tuple) else k), self.rn(v)) for k, v in t.items()))
        if not isinstance(t, tuple) or not t:
            return t
        h = t[0]
        if h == 'ret' and len(t) == 2 and isinstance(t[1], int):
            return ('ret', self.evmap.get(t[1], ('dropped', t[1])))
        if h == 'mut' and len(t) == 3 and isinstance(t[1], int):
            return ('mut', self.evmap.get(t[1], ('dropped', t[1])), t[2])
        if h == 'L' and len(t) == 3:
            f = t[1]
            return ('L', self.frame(f if not isinstance(f, tuple) else ('tmp', f)), t[2])
        if h in ('phi', 'phiheap') and len(t) >= 4:
            key = (t[1], t[2])
            if key not in self.hv:
                self.hv[key] = len(self.hv)
            if h == 'phi' and len(t) == 4 and isinstance(t[3], int):
                r = self.ranks.get(key)
                return (h, self.hv[key], r.get(t[3], ('x', t[3])) if r is not None else t[3])
            return (h, self.hv[key]) + tuple(self.rn(x) for x in t[3:])
        return tuple(self.rn(x) for x in t)


def const_interval(conds, term, lo0=-float('inf')):
    """[lo, hi] for `term` from comparisons with integer constants among normalised literals (lo0: a known lower bound,
    0 for a term of unsigned type)"""
    lo, hi = lo0, float('inf')
    holes = set()
    for c, v in conds:
        if c == term:
            if v[0] == 'int':
                lo, hi = max(lo, v[1]), min(hi, v[1])
            elif v[0] == 'notin':
                holes.update(v[1])
            continue
        if v[0] != 'bool' or c[0] != 'op' or c[1] not in CMP_NEG:
            continue
        op, x, y = c[1], c[2], c[3]
        if not v[1]:
            op = CMP_NEG[op]
        if y == term and x[0] == 'int':
            op, x, y = CMP_FLIP[op], y, x
        if x != term or y[0] != 'int':
            continue
        K = y[1]
        if len(y) > 2 and y[2] in UNSIGNED:
            lo = max(lo, 0)
        if op == 'Lt':
            hi = min(hi, K - 1)
        elif op == 'Le':
            hi = min(hi, K)
        elif op == 'Gt':
            lo = max(lo, K + 1)
        elif op == 'Ge':
            lo = max(lo, K)
        elif op == 'Eq':
            lo, hi = max(lo, K), min(hi, K)
        elif op == 'Ne':
            holes.add(K)
    while lo in holes:
        lo += 1
    while hi in holes:
        hi -= 1
    return lo, hi


# diverging entry points of core that take nothing but the `&'static str` message
PANIC_WITH_MESSAGE = ('core::option::expect_failed', 'core::panicking::panic', 'core::panicking::panic_explicit', 'core::panicking::panic_str_2015')


def assert_redundant(ev, conds):
    """an overflow assertion that cannot fail under the path's conditions"""
    c = ev.get('cond')
    if c and c[0] == 'op' and c[1] == 'Lt' and len(c) == 4 and c[3][0] == 'int' and c[3][1] >= 2 and c[2][0] == 'cast' and len(c[2]) == 4:
        # a bounds check of a table indexed by a truth value (`[a, b][(x < y) as usize]`): the index is 0 or 1
        x = c[2][2]
        if x[0] == 'bool' or (x[0] == 'op' and x[1].split('.')[0] in ('Lt', 'Le', 'Gt', 'Ge', 'Eq', 'Ne')) or (x[0] == 'un' and x[1] == 'Not') \
                or (x[0] == 'app' and str(x[1]).startswith(('core::cmp::PartialOrd::', 'core::cmp::PartialEq::'))):
            return True
    if c and c[0] == 'ovf' and c[1] == 'Mul' and len(c) == 4:
        # (x / n) * n cannot exceed x
        for u, v in ((c[2], c[3]), (c[3], c[2])):
            if v[0] == 'int' and v[1] > 0 and u[0] == 'op' and u[1] == 'Div' and u[3][0] == 'int' and u[3][1] == v[1]:
                return True
    if not c or c[0] != 'ovf':
        return False
    op, a, b = c[1], c[2], c[3]
    if op == 'Sub' and b[0] == 'int' and len(b) > 2 and b[2] in UNSIGNED:
        lo, hi = const_interval(conds, a, 0)
        return lo >= b[1]
    if op == 'Sub' and a[0] != 'int':
        # a - b with b <= a established
        for cc, v in conds:
            if v == ('bool', True) and cc in (('op', 'Le', b, a), ('op', 'Lt', b, a)):
                return True
            if v == ('bool', False) and cc in (('op', 'Lt', a, b), ('op', 'Le', a, b)) and cc[1] == 'Lt':
                return True
    return False


_FP = {}


def _strip_lines(x):
    if isinstance(x, dict):
        return {k: _strip_lines(v) for k, v in x.items() if k not in ('l', 'span', 'x')}
    if isinstance(x, list):
        if x and x[0] == '=' and len(x) == 4:
            return ['=', _strip_lines(x[1]), _strip_lines(x[2])]
        return [_strip_lines(v) for v in x]
    return x


def callee_fingerprint(facts, callee, root=None):
    """an opaque call to a function whose body is in the workspace (not inlined: recursion, depth) is the same effect only
    if that body is the same: fingerprint of its MIR without line numbers"""
    if not callee:
        return None
    res = callee.get('res') or {}
    b = facts.by_hash.get(res.get('hash')) or (facts.by_hash.get(callee.get('hash')) if callee.get('trait') is None else None)
    if b is None:
        return None
    if root is not None and b['hash'] == root:
        return 'self'       # recursion into the function under comparison: co-inductive
    key = (id(facts), b['hash'])
    if key not in _FP:
        _FP[key] = hashlib.sha256(json.dumps(_strip_lines(b['blocks']), sort_keys=True).encode()).hexdigest()[:12]
    return ('#fp', b['path'], _FP[key])


def expand_closures(facts, p, t, table, depth, evmap=None):
    """replace closure values and function items used as values by references ('#clo', id) into `table`, which holds
    the canonical summaries of their bodies: closures are evaluated in the store of the path that built them (captured
    variables resolved), explicit arguments stay symbolic.  Each distinct value is summarised once per root path."""
    if isinstance(t, dict):
        return {k: expand_closures(facts, p, v, table, depth, evmap) for k, v in t.items()}
    if not isinstance(t, tuple) or not t:
        return t
    is_clo = t[0] == 'agg' and len(t) == 3 and isinstance(t[1], tuple) and t[1] and t[1][0] == 'closure'
    is_fn = t[0] == 'fnitem' and len(t) == 4
    if is_fn and depth < 8:
        b0 = facts.by_hash.get(t[2])
        if b0 is None or b0.get('trait_default'):
            # a trait method used as a value (`zip_map(other, Sample::add_amp)`): it denotes the *call* of that method, which
            # an impl may override -- the same term a closure `|a, b| a.add_amp(b)` yields
            key = repr(t)
            if key in table['ids']:
                return ('#clo', table['ids'][key])
            cid = len(table['ids'])
            table['ids'][key] = cid
            n = b0['argc'] if b0 is not None else 2
            ret = norm(('app', t[1], tuple(('carg', i) for i in range(1, n + 1)), tuple(t[3])))
            table['paths'].append([{'conds': [], 'events': [], 'writes': [], 'ret': tl(ret), 'end': 'return'}])
            return ('#clo', cid)
    if (is_clo or is_fn) and depth < 8:
        h = t[1][2] if is_clo else t[2]
        body = facts.by_hash.get(h)
        if body is not None:
            # a closure denotes its body *in the environment it captured*: two occurrences of the same closure expression on
            # paths where the captured locals hold different values are different values
            env = sorted(((loc, v) for loc, v in p['store'].items() if loc[0][0] == 'L'), key=repr) if is_clo else ()
            key = repr(t) + '|' + hashlib.sha256(repr(env).encode()).hexdigest()
            if key in table['ids']:
                return ('#clo', table['ids'][key])
            cid = len(table['ids'])
            table['ids'][key] = cid
            table['paths'].append(None)
            eng = T.Engine(facts, policy(table.get('shallow', False)), max_paths=120)
            store = dict(p['store'])
            tys = None
            if is_clo:
                envloc = (('L', ('env', cid), 0), ())
                store[envloc] = t
                envty = facts.ty(body['locals'][1])
                a0 = ('ref', envloc) if envty.get('k') == 'ref' else t
                args = [a0] + [('carg', i) for i in range(1, body['argc'])]
                tys = (p.get('tys') or {}).get(('closure', h)) or None
            else:
                args = [('carg', i) for i in range(1, body['argc'] + 1)]
                gens = [g for g in (body.get('generics') or []) if not g.startswith("'")]
                if len(gens) == len(t[3]):
                    tys = dict(zip(gens, t[3]))
            try:
                outer_events = p['events']
                cps = eng.summarize(body, args, store=store, frame=1000 + cid, events=outer_events, tys=tys)
                for cp in cps:
                    # only what the callable itself writes
                    cp['writes'] = {loc: v for loc, v in cp['writes'].items() if store.get(loc) != v}
                table['paths'][cid] = [canon_path(facts, cp, table, depth + 1, skip=len(outer_events), outer=evmap) for cp in cps]
                if _returns_unit(facts, body):
                    for cp in table['paths'][cid]:
                        if cp['ret'] is not None:
                            cp['ret'] = tl(T.UNIT)
            except (T.TooComplex, RecursionError, KeyError, IndexError, TypeError, AssertionError):
                table['paths'][cid] = [{'conds': [], 'events': [['unsummarisable', key]], 'writes': [], 'ret': None, 'end': 'return'}]
            return ('#clo', cid)
    if is_clo or is_fn:
        # not summarised (depth, body not in the workspace): at least pin the body it denotes -- the def-path hash of a
        # closure is the same for two different closure bodies written at the same place
        h = t[1][2] if is_clo else t[2]
        b = facts.by_hash.get(h)
        fp = hashlib.sha256(json.dumps(_strip_lines(b['blocks']), sort_keys=True).encode()).hexdigest()[:12] if b is not None else h
        if is_clo:
            return ('agg', ('closure', t[1][1], fp), tuple(expand_closures(facts, p, x, table, depth, evmap) for x in t[2]))
        return ('fnitem', t[1], fp, t[3])
    return tuple(expand_closures(facts, p, x, table, depth, evmap) for x in t)


_RANKS = {}


def loop_ranks(facts, fn, header):
    """{local: rank} for the locals a loop assigns that are live at its header (analysis/liveness.py); None if the body
    is unknown.  Temporaries that are dead at the header cannot carry anything from one iteration to the next."""
    key = (id(facts), fn, header)
    if key not in _RANKS:
        body = facts.body(fn)
        if body is None:
            _RANKS[key] = None
        else:
            info = T.Engine(facts).loop_info(body).get(header)
            if info is None:
                _RANKS[key] = None
            else:
                live = liveness.live_at(body, header)
                _RANKS[key] = {l: i for i, l in enumerate(sorted(l for l in info['assigned'] if l in live))}
    return _RANKS[key]


def canon_path(facts, p, table, depth=0, skip=0, outer=None):
    """canonical, json-able form of one engine path; closure bodies go to `table`.  The first `skip` events belong to the
    path that built the callable being summarised (numbered by `outer`): they are not part of its behaviour, but terms
    may refer to them."""
    p = dict(p)
    conds0 = []
    for c in p['conds']:
        d, v = norm(c[0]), c[1]
        if v[0] == 'bool' and d[0] == 'un' and d[1] == 'Not':
            d, v = d[2], ('bool', not v[1])
        conds0.append((d, v))
    evmap = {}
    kept = []
    for k, e in enumerate(p['events']):
        kind = e['kind']
        if k < skip:
            evmap[k] = ('outer', (outer or {}).get(k, ('dropped', k)))
            continue
        if kind == 'assert' and assert_redundant({'cond': norm(e['cond'])}, conds0):
            continue
        if kind == 'call' and e.get('pure'):
            continue        # a pure call is a value (an `app` term), not an effect
        evmap[k] = len(kept)
        kept.append(e)
    kept = [dict(e, args=expand_closures(facts, p, tuple(e['args']), table, depth, evmap)) if e.get('kind') == 'call' else e for e in kept]
    p['writes'] = {loc: expand_closures(facts, p, v, table, depth, evmap) for loc, v in p['writes'].items()}
    p['ret'] = expand_closures(facts, p, p['ret'], table, depth, evmap) if p['ret'] is not None else None
    conds = []
    for c in p['conds']:
        d, v = norm(expand_closures(facts, p, c[0], table, depth, evmap)), c[1]
        if v[0] == 'bool' and d[0] == 'un' and d[1] == 'Not':
            d, v = d[2], ('bool', not v[1])
        conds.append((d, v))
    ranks = {}
    for e in p['events']:
        if e['kind'] == 'loop-enter':
            ranks[(e['header'], e['hv'])] = loop_ranks(facts, e['fn'], e['header'])
    nm = Namer(evmap, ranks)
    evs = []

    def carried(e, d):
        """the loop-carried locals that matter: those live at the header, named by their position among them"""
        r = loop_ranks(facts, e['fn'], e['header'])
        if r is None:
            return sorted((str(k2), X(v2)) for k2, v2 in d.items())
        return sorted((r[k2], X(v2)) for k2, v2 in d.items() if k2 in r)

    def X(t):
        return expand_closures(facts, p, t, table, depth, evmap)
    for e in kept:
        kind = e['kind']
        if kind == 'call' and (e.get('rpath') or e['path']) in PANIC_WITH_MESSAGE:
            evs.append(('call', e.get('rpath') or e['path']))     # which words the panic carries is no behaviour
        elif kind == 'call':
            rv = tuple(sorted((i, nm.rn(norm(expand_closures(facts, p, v, table, depth, evmap)))) for i, v in (e.get('refvals') or {}).items()))
            evs.append(('call', e.get('rpath') or e['path'], nm.rn(norm(tuple(e['args']))), nm.rn(norm(e.get('f'))) if e.get('f') else None,
                        tuple(norm(a) for a in e['callee']['args']) if e.get('callee') else None, rv, callee_fingerprint(facts, e.get('callee'), table.get('root'))))
        elif kind == 'assert':
            evs.append(('assert', nm.rn(norm(X(e['cond']))), e['expected'], e['msg']))
        elif kind == 'loop-enter':
            evs.append(('loop-enter', nm.rn(norm(tuple(carried(e, e.get('before', {}))))),
                        nm.rn(norm(tuple(sorted(((loc, X(v2)) for loc, v2 in (e.get('heap_before') or {}).items()), key=repr))))))
        elif kind == 'loop-back':
            evs.append(('loop-back', nm.rn(norm(tuple(carried(e, e.get('carried', {})))))))
        else:
            evs.append((kind, nm.rn(norm(X(tuple(e.get('args', ())))))))
    # final writes: aggregate assignments are split into per-field writes; each write carries the value the location
    # held on entry, so that a store of the value already there (under the path's conditions) can be recognised
    eng0 = T.Engine(facts)
    flat = []

    def split(loc, v):
        if isinstance(v, tuple) and len(v) == 3 and v[0] == 'agg' and isinstance(v[1], tuple) and v[1] and v[1][0] in ('adt', 'tuple') \
                and not (v[1][0] == 'adt' and facts.adts.get(v[1][1], {}).get('kind') == 'Enum') and not str(v[1][1]).startswith('core::option'):
            a = facts.adts.get(v[1][1]) if v[1][0] == 'adt' else None
            if v[1][0] == 'tuple' or (a is not None and len(a['variants']) == 1):
                for i, x in enumerate(v[2]):
                    split((loc[0], loc[1] + (('f', i),)), x)
                return
        flat.append((loc, v))
    for loc, v in p['writes'].items():
        split(loc, v)
    writes = sorted((nm.rn(norm(loc)), nm.rn(norm(v)), nm.rn(norm(eng0.initial(loc[0], loc[1])))) for loc, v in flat)
    ret = nm.rn(norm(p['ret'])) if p['ret'] is not None else None
    end = p['end'] if isinstance(p['end'], str) else (p['end'][0], p['end'][1] if p['end'][0] == 'panic' else None)
    return {'conds': tl([(nm.rn(d), v) for d, v in conds]), 'events': tl(evs), 'writes': tl(writes), 'ret': tl(ret), 'end': tl(end)}


def type_context(facts, body):
    """hash of the definitions a body's verdict may depend on: workspace ADTs among its locals, consts it names"""
    h = hashlib.sha256()
    seen = set()

    def visit(ty, depth=0):
        if ty in seen or depth > 4:
            return
        seen.add(ty)
        t = facts.ty(ty)
        k = t.get('k')
        if k == 'adt':
            a = facts.adts.get(t['path'])
            if a is not None:
                # (fields by position and type: terms address them by index, their names carry no behaviour)
                h.update(json.dumps([a['path'], [[v['name'], [f['ty'] for f in v['fields']]] for v in a['variants']]]).encode())
                for v in a['variants']:
                    for f in v['fields']:
                        visit(f['ty'], depth + 1)
            for x in t.get('args', []):
                visit(x, depth + 1)
        elif k in ('ref', 'ptr', 'array', 'slice'):
            visit(t['inner'], depth + 1)
        elif k == 'tuple':
            for x in t['elems']:
                visit(x, depth + 1)
    # the signature: return type, parameters (and through them the fields of Self)
    for l in body['locals'][:body['argc'] + 1]:
        visit(l)
    return h.hexdigest()[:16]


def summarize(facts, fn, max_paths=300, shallow=False):
    """canonical summary of `fn`; shallow: of its own body only -- calls of other workspace functions stay events (with the
    callee's fingerprint), for the compositional comparison of ownership.py"""
    body = facts.body(fn)
    if body is None:
        return None
    eng = T.Engine(facts, policy(shallow), max_paths=max_paths)
    try:
        paths = eng.summarize(body)
    except (T.TooComplex, RecursionError, KeyError, IndexError, TypeError, AssertionError):
        return None
    ctx = hashlib.sha256()
    ctx.update(type_context(facts, body).encode())
    table = {'ids': {}, 'paths': [], 'root': body['hash'], 'shallow': shallow}
    cps = [canon_path(facts, p, table) for p in paths]
    if _returns_unit(facts, body):
        for cp in cps:
            if cp['ret'] is not None:
                cp['ret'] = tl(T.UNIT)      # the one value of `()`, whichever expression produced it
    return {'ctx': ctx.hexdigest()[:16], 'paths': cps, 'closures': table['paths']}


def _returns_unit(facts, body):
    t = facts.ty(body['locals'][0])
    return t.get('k') == 'tuple' and not t.get('elems')


# ------------------------------------------------------------------ comparison

def literals(conds):
    return [(tt(c), tt(v)) for c, v in conds]


def jointly_unsat(ca, cb):
    lits = ca + cb
    # 1. the same normalised atom with different outcomes; discriminants with different values
    val = {}
    notin = {}
    for c, v in lits:
        if v[0] == 'notin':
            notin.setdefault(c, set()).update(v[1])
            continue
        if c in val and val[c] != v:
            return True
        val[c] = v
    for c, s in notin.items():
        if c in val and val[c][0] == 'int' and val[c][1] in s:
            return True
    # 2. sign sets for comparisons of the same ordered pair of terms (floats: a fourth outcome, unordered)
    sign = {}
    TRUE = {'Lt': {'lt'}, 'Le': {'lt', 'eq'}, 'Gt': {'gt'}, 'Ge': {'gt', 'eq'}, 'Eq': {'eq'}, 'Ne': {'lt', 'gt', 'un'}}
    for c, v in lits:
        if v[0] != 'bool' or c[0] != 'op':
            continue
        fl = c[1].endswith('.f')
        op = c[1][:-2] if fl else c[1]
        if op not in TRUE:
            continue
        x, y = c[2], c[3]
        if repr(y) < repr(x):
            op, x, y = CMP_FLIP[op], y, x
        uni = {'lt', 'eq', 'gt', 'un'} if fl else {'lt', 'eq', 'gt'}
        allowed = (TRUE[op] & uni) if v[1] else (uni - TRUE[op])
        key = (x, y, fl)
        sign[key] = sign.get(key, uni) & allowed
        if not sign[key]:
            return True
    # 3. intervals against constants
    terms = set()
    for c, v in lits:
        if c[0] == 'op' and c[1] in CMP_NEG:
            for x, k in ((c[2], c[3]), (c[3], c[2])):
                if k[0] == 'int' and x[0] != 'int':
                    terms.add(x)
        elif v[0] in ('int', 'notin'):
            terms.add(c)
    for x in terms:
        lo, hi = const_interval(lits, x)
        if lo > hi:
            return True
    return False


def substitute_equalities(obj, lits):
    """replace terms that the conditions pin to a constant"""
    eq = {}
    for c, v in lits:
        if v[0] == 'int':
            eq[c] = v
        elif v[0] == 'bool':
            eq[c] = v
            if c[0] == 'op' and c[1] == 'Eq' and v[1]:
                a, b = c[2], c[3]
                if b[0] == 'int' and a[0] != 'int':
                    eq[a] = b
                elif a[0] == 'int' and b[0] != 'int':
                    eq[b] = a
    for x in set(c[2] if c[0] == 'op' else None for c, v in lits) | set(c[3] if c[0] == 'op' else None for c, v in lits):
        if x is None or x[0] == 'int':
            continue
        lo, hi = const_interval(lits, x)
        if lo == hi:
            ty = next((k[2] for c, v in lits if c[0] == 'op' for k in (c[2], c[3]) if k[0] == 'int' and len(k) > 2), 'usize')
            eq.setdefault(x, ('int', lo, ty))

    def sub(t):
        if isinstance(t, tuple):
            if t in eq:
                return eq[t]
            return tuple(sub(x) for x in t)
        return t
    return sub(obj)


def drop_noop_writes(beh):
    evs, writes, ret, end = beh
    return (evs, tuple(w for w in writes if not (len(w) == 3 and w[1] == w[2])), ret, end)


def behaviour(p):
    return (tt(p['events']), tt(p['writes']), tt(p['ret']), tt(p['end']))


class Cmp:
    """comparison of two summaries; closure references are compared by the equivalence of the bodies they denote"""

    def __init__(self, ref, cur, trust_callees=False):
        self.ta = ref.get('closures') or []
        self.tb = cur.get('closures') or []
        self.memo = {}
        self.trust_callees = trust_callees

    def same(self, a, b):
        if isinstance(a, tuple) and isinstance(b, tuple):
            if len(a) == 3 and len(b) == 3 and a[0] == '#fp' and b[0] == '#fp':
                # an opaque call to a workspace function: the same effect if the callee's body is the same -- or, when the
                # caller vouches for the callees separately (ownership.py: every function is either examined by a rule or
                # compared with the reference itself), if it is the same function
                return a[1] == b[1] and (a[2] == b[2] or self.trust_callees)
            if len(a) == 2 and len(b) == 2 and a[0] == '#clo' and b[0] == '#clo':
                key = (a[1], b[1])
                if key not in self.memo:
                    self.memo[key] = True       # co-inductive assumption for recursive references
                    pa, pb = self.ta[a[1]] if a[1] < len(self.ta) else None, self.tb[b[1]] if b[1] < len(self.tb) else None
                    self.memo[key] = pa is not None and pb is not None and self.paths_equivalent(pa, pb)[0]
                return self.memo[key]
            return len(a) == len(b) and all(self.same(x, y) for x, y in zip(a, b))
        return a == b

    def paths_equivalent(self, pas, pbs):
        for i, pa in enumerate(pas):
            ca = literals(pa['conds'])
            for j, pb in enumerate(pbs):
                cb = literals(pb['conds'])
                if jointly_unsat(ca, cb):
                    continue
                ba, bb = behaviour(pa), behaviour(pb)
                if ba == bb and not self.ta and not self.tb:
                    continue
                lits = ca + cb
                if self.same(drop_noop_writes(norm(substitute_equalities(ba, lits))), drop_noop_writes(norm(substitute_equalities(bb, lits)))):
                    continue
                return False, 'reference path %d and current path %d can both be taken but differ' % (i, j)
        return True, None


def equivalent(ref, cur, trust_callees=False):
    """(True, None) or (False, reason)"""
    if ref is None or cur is None:
        return False, 'no summary'
    if ref['ctx'] != cur['ctx']:
        return False, 'the types this function works on changed'
    return Cmp(ref, cur, trust_callees).paths_equivalent(ref['paths'], cur['paths'])


# ------------------------------------------------------------------ reference store

def ref_file(cfg):
    return os.path.join(REFDIR, 'summaries-%s.json.gz' % cfg)


_REF = {}


def reference(cfg):
    if cfg not in _REF:
        try:
            with gzip.open(ref_file(cfg), 'rt') as fh:
                _REF[cfg] = json.load(fh)
        except (OSError, ValueError):
            _REF[cfg] = {}
    return _REF[cfg]


def config_of(inst):
    for c in ('std-debug', 'std-release', 'nostd'):
        if inst == c or inst.startswith(c + ':') or inst.startswith(c + ' '):
            return c
    return None


def second_chance(run, loader):
    """withdraw failures of body-determined rules for functions provably equivalent to the verified reference"""
    if not run.findings:
        return
    verdicts = {}
    kept = []
    accepted = []
    for f in run.findings:
        fn, rule, inst = f['function'], f['rule'], f['instance']
        cfg = config_of(inst or '')
        ok = False
        if cfg and not INELIGIBLE.search(rule) and fn != '<floor>':
            key = (fn, cfg)
            if key not in verdicts:
                facts = loader.cache.get(cfg) or loader(cfg, optional=True)
                ref = reference(cfg).get(fn)
                if facts is None or ref is None or facts.body(fn) is None:
                    verdicts[key] = (False, 'no reference summary')
                else:
                    verdicts[key] = equivalent(ref, summarize(facts, fn))
            ok = verdicts[key][0]
        if ok:
            accepted.append(f)
        else:
            kept.append(f)
    if not accepted:
        return
    run.findings = kept
    acc_keys = {(f['rule'], f['function'], f['instance']) for f in accepted}
    run.instances = [(r, fn, i, ('ok' if (r, fn, i) in acc_keys else s)) for r, fn, i, s in run.instances]
    for f in accepted:
        run.note('%s on %s (%s): the rule does not recognise this shape (%s); accepted because the function is provably equivalent, path by path, '
                 'to the reference implementation on which the rule was established' % (f['rule'], f['function'], f['instance'], (f['what'] or '')[:120]))
    run.analysed['equivalence.accepted'] = len(accepted)
