"""C19 — rectifiers and envelope follower: |x| and one-pole smoothing without overshoot (formula conformance).

Scalarised (E4) cell functions of the three rectifiers, sibling check that each Rectifier impl forwards to the function
of its own kind, gain formula e^(-1/n) with the n == 0 guard and a bit-exact e, the one-pole update
out = d + select(l < d, attack, release) * (l - d) stored and returned, constructor/setter write sets, Detect impls
and the signal adaptor.  `0 <= gain < 1 => no overshoot / monotone convergence` is a paper step."""
from rules.common import *
from rules.C04 import STOP
import poly as P
import scalar as S

LEVEL = 'other'
DET = 'dasp_envelope::detect::Detector'


def rp(e):
    return (e.get('rpath') or e['path']) if e['kind'] == 'call' else None


def check_rectifiers(run, cx, cfg):
    x = P.atom(('param', 1))
    zero = P.const(0)
    specs = {
        'full_wave': [((('<', x),), -x), ((('>=', x),), x)],
        'positive_half_wave': [((('<', x),), zero), ((('>=', x),), x)],
        'negative_half_wave': [((('>', x),), zero), ((('<=', x),), x)],
    }
    for name, want in specs.items():
        fn = 'dasp_peak::' + name
        body = cx.body(fn)
        if body is None:
            run.fail('rectifier.cells', fn, cfg, 'function not found')
            continue
        ps = returning(cx.paths(fn))
        bad = None
        got = None
        if len(ps) != 1:
            bad = 'expected a single path'
        else:
            try:
                got = S.Scalar(cx, ps[0]).cases(ps[0]['ret'])
                if not S.cases_equal(got, want):
                    bad = 'per channel it computes %s, expected %s (x = amplitude about equilibrium)' % (S.show_cases(got), S.show_cases(want))
            except S.Unsupported as u:
                run.unproven('rectifier.cells', fn, cfg, 'scalarisation failed: %s' % u, where=where(body))
                continue
        run.check(bad is None, 'rectifier.cells', fn, cfg, bad or '', where=where(body), sample=S.show_cases(got) if got else None)
    for ty, want in (('FullWave', 'full_wave'), ('PositiveHalfWave', 'positive_half_wave'), ('NegativeHalfWave', 'negative_half_wave')):
        fn = '<dasp_peak::%s as dasp_peak::Rectifier<F>>::rectify' % ty
        body = cx.body(fn)
        if body is None:
            run.fail('rectifier.sibling', fn, cfg, 'impl not found')
            continue
        ps = returning(cx.paths(fn, stop=['dasp_peak::full_wave', 'dasp_peak::positive_half_wave', 'dasp_peak::negative_half_wave']))
        ok = len(ps) == 1 and len(call_events(ps[0])) == 1 and rp(call_events(ps[0])[0][1]) == 'dasp_peak::' + want \
            and call_events(ps[0])[0][1]['args'] == [('param', 2)] and ps[0]['ret'] == ('ret', call_events(ps[0])[0][0])
        run.check(ok, 'rectifier.sibling', fn, cfg, '%s::rectify must be %s(frame): [%s]' % (ty, want, '; '.join(describe_path(p) for p in ps)), where=where(body))


    # exactness: the cells above are read over the reals, where a conversion to the Float companion and back is the
    # identity.  In the machine it is not (f32 has 24 significant bits, f64 53: an i32 / i64 amplitude does not survive), so
    # a rectifier -- whose statement is exact -- must not route a sample through a float format or an amplitude operation
    # that does (mul_amp, scale_amp): only to_signed_sample, comparisons, negation and EQUILIBRIUM.
    import mirutil
    LOSSY = ('dasp_sample::Sample::mul_amp', 'dasp_sample::Sample::to_float_sample', 'dasp_sample::Sample::to_sample', 'dasp_sample::Sample::from_sample',
             'dasp_frame::Frame::mul_amp', 'dasp_frame::Frame::scale_amp', 'dasp_frame::Frame::to_float_frame', 'dasp_sample::conv::ToSample::to_sample_',
             'dasp_sample::conv::FromSample::from_sample_', 'dasp_sample::Duplex')
    for name in specs:
        fn = 'dasp_peak::' + name
        if cx.body(fn) is None:
            continue
        bodies = {p: cx.facts.body(p) for p in callee_closure(cx.facts, [fn], crate='dasp_peak') if cx.facts.body(p) is not None}
        for c in cx.facts.bodies.values():
            if c['kind'] == 'Closure' and any(c['path'].startswith(p + '::{closure') for p in list(bodies)):
                bodies[c['path']] = c
        bad = None
        n = 0
        for pth, b in sorted(bodies.items()):
            for _, t in mirutil.calls(b):
                n += 1
                d = (t.get('callee') or {}).get('path') or ''
                if d.startswith(LOSSY):
                    bad = '%s calls %s: the amplitude goes through a float format (f32 for formats of 32 bits or less), so the result is rounded, not exact' % (pth, d)
        run.check(bad is None, 'rectifier.exact', fn, cfg, bad or '', where=where(cx.body(fn)))
    run.floor('rectifier.exact', 'rectifier functions examined for lossy routes (%s)' % cfg, len([n_ for n_ in specs if cx.body('dasp_peak::' + n_) is not None]), 3)


E_F32 = 0x402df854


def gain_term_ok(t, n):
    """t == powf(e, -1/n)"""
    if t[0] != 'app' or not t[1].rsplit('::', 1)[-1] in ('powf', 'powf32'):
        return 'gain must be powf(e, -1/frames) (is %s)' % short(t)
    base, ex = t[2]
    if not (base[0] == 'float' and base[1] == E_F32 and base[2] == 32):
        return 'the base of the exponential is %s, not e' % short(base)
    N = P.Normalizer()
    if not (N(ex) == P.const(-1) / N(n)):
        return 'the exponent is %r, expected -1/frames' % N(ex)
    return None


def gain_paths_ok(cx, fn, paths, n, value_of):
    """every path: (n == 0) -> value 0.0, else powf(e, -1/n)"""
    seen = set()
    for p in paths:
        z = None
        for c, v in cond_facts(p):
            if c[0] == 'op' and c[1] in ('Eq', 'Ne') and c[2] == n and c[3][0] == 'float' and fval(c[3]) == 0.0 and v[0] == 'bool':
                z = v[1] if c[1] == 'Eq' else not v[1]
        if z is None:
            return 'path not decided by frames == 0.0'
        val = value_of(p)
        seen.add(z)
        if z:
            if not (val[0] == 'float' and fval(val) == 0.0):
                return 'zero frames must give gain 0 (is %s)' % short(val)
        else:
            why = gain_term_ok(val, n)
            if why:
                return why
    return None if seen == {True, False} else 'missing case'


def check_detector(run, cx, cfg):
    names = cx.field_names(DET)
    li, ai, ri, di = (names.index(n) for n in ('last_env_frame', 'attack_gain', 'release_gain', 'detect'))
    fn = 'dasp_envelope::detect::calc_gain'
    body = cx.body(fn)
    if body is None:
        run.fail('envelope.gain', fn, cfg, 'function not found')
    else:
        why = gain_paths_ok(cx, fn, returning(cx.paths(fn)), ('param', 1), lambda p: p['ret'])
        run.check(why is None, 'envelope.gain', fn, cfg, why or '', where=where(body), sample='select(n == 0, 0, powf(e, -1/n))')
    # constructor
    fn = DET + '::<F, D>::new'
    body = cx.body(fn)
    if body is None:
        run.fail('envelope.new', fn, cfg, 'function not found')
    else:
        ps = returning(cx.paths(fn))
        bad = None
        for p in ps:
            r = p['ret']
            if not (r[0] == 'agg' and r[1][1] == DET and r[2][di] == ('param', 1) and r[2][li][0] == 'assoc' and r[2][li][2] == 'EQUILIBRIUM'):
                bad = 'must start from EQUILIBRIUM and keep the given detector'
        for fld, par in ((ai, ('param', 2)), (ri, ('param', 3))):
            # restrict conditions to the ones about this parameter
            sub = {}
            for p in ps:
                key = tuple((c, v) for c, v in cond_facts(p) if mentions(c, par))
                sub.setdefault(key, p)
            why = gain_paths_ok(cx, fn, [dict(p, conds=[(c, v, None) for c, v in k]) for k, p in sub.items()], par, lambda p, fld=fld: p['ret'][2][fld])
            bad = bad or why
        run.check(bad is None, 'envelope.new', fn, cfg, bad or '', where=where(body))
    for name, fld, other in (('set_attack_frames', ai, ri), ('set_release_frames', ri, ai)):
        fn = '%s::<F, D>::%s' % (DET, name)
        body = cx.body(fn)
        if body is None:
            run.fail('envelope.setter', fn, cfg, 'function not found')
            continue
        ps = returning(cx.paths(fn))
        bad = None
        for p in ps:
            if set(heap_writes(p)) != {self_loc(fld)}:
                bad = 'must write only its own gain field (writes %s)' % [short_loc(l) for l in heap_writes(p)]
        bad = bad or gain_paths_ok(cx, fn, ps, ('param', 2), lambda p: heap_writes(p)[self_loc(fld)])
        run.check(bad is None, 'envelope.setter', fn, cfg, bad or '', where=where(body))
    # next
    fn = DET + '::<F, D>::next'
    body = cx.body(fn)
    if body is None:
        run.fail('envelope.next', fn, cfg, 'function not found')
        return
    ps = returning(cx.paths(fn))
    bad = None
    sample = None
    if len(ps) != 1:
        bad = 'expected a single path'
    else:
        p = ps[0]
        dets = [(k, e) for k, e in call_events(p) if is_call(e, 'dasp_envelope::detect::Detect', 'detect')]
        if len(dets) != 1 or dets[0][1]['args'] != [('ref', self_loc(di)), ('param', 2)]:
            bad = 'must call detect.detect(frame) exactly once'
        else:
            try:
                sc = S.Scalar(cx, p)
                got = sc.cases(p['ret'])
                l, d = P.atom(self_field(li)), P.atom(('ret', dets[0][0]))
                a, r = P.atom(self_field(ai)), P.atom(self_field(ri))
                want = [((('<', l - d),), d + (l - d) * a), ((('>=', l - d),), d + (l - d) * r)]
                sample = S.show_cases(got)
                if not S.cases_equal(got, want):
                    bad = 'per channel it computes %s, expected d + select(l < d, attack, release) * (l - d)' % S.show_cases(got)
                elif heap_writes(p).get(self_loc(li)) != p['ret']:
                    bad = 'the new envelope must be stored as last_env_frame and returned'
                elif set(heap_writes(p)) - {self_loc(li)}:
                    bad = 'must not modify the gains'
            except S.Unsupported as u:
                run.unproven('envelope.next', fn, cfg, 'scalarisation failed: %s' % u, where=where(body))
                return
    run.check(bad is None, 'envelope.next', fn, cfg, bad or '', where=where(body), sample=sample)


def check_wiring(run, cx, cfg):
    fn = '<dasp_envelope::detect::peak::Peak<R> as dasp_envelope::detect::Detect<F>>::detect'
    body = cx.body(fn)
    if body is not None:
        ps = returning(cx.paths(fn))
        ok = False
        if len(ps) == 1:
            evs = call_events(ps[0])
            ok = len(evs) == 1 and is_call(evs[0][1], 'dasp_peak::Rectifier', 'rectify') and evs[0][1]['args'] == [('ref', self_loc(cx.field_index('dasp_envelope::detect::peak::Peak', 'rectifier'))), ('param', 2)] \
                and ps[0]['ret'] == ('ret', evs[0][0])
        run.check(ok, 'envelope.detect-peak', fn, cfg, 'Peak::detect must be rectifier.rectify(frame)', where=where(body))
    else:
        run.fail('envelope.detect-peak', fn, cfg, 'impl not found')
    fn = '<dasp_signal::envelope::DetectEnvelope<S, D> as dasp_signal::Signal>::next'
    body = cx.body(fn)
    if body is not None:
        K = 'dasp_signal::envelope::DetectEnvelope'
        sg, dt = cx.field_index(K, 'signal'), cx.field_index(K, 'detector')
        ps = returning(cx.paths(fn, stop_trait_methods=STOP, stop=[DET + '::<F, D>::next']))
        ok = False
        if len(ps) == 1:
            evs = call_events(ps[0])
            ok = (len(evs) == 2 and is_call(evs[0][1], SIGNAL, 'next') and evs[0][1]['args'][0] == ('ref', self_loc(sg)) and rp(evs[1][1]) == DET + '::<F, D>::next'
                  and evs[1][1]['args'] == [('ref', self_loc(dt)), ('ret', evs[0][0])] and ps[0]['ret'] == ('ret', evs[1][0]))
        run.check(ok, 'envelope.signal-adaptor', fn, cfg, 'must be detector.next(signal.next()) with exactly one pull', where=where(body))
    elif cfg != 'nostd':
        run.fail('envelope.signal-adaptor', fn, cfg, 'impl not found')


PEAK_KIND = {'peak': None, 'peak_from_rectifier': None, 'peak_positive_half_wave': 'positive_half_wave',
             'peak_negative_half_wave': 'negative_half_wave', 'rms': None}
RECT_OF = {'full_wave': 'FullWave', 'positive_half_wave': 'PositiveHalfWave', 'negative_half_wave': 'NegativeHalfWave'}


def check_ctor_forwarders(run, cx, cfg):
    """Every convenience constructor must hand its own attack / release arguments to Detector::new in that order, and
    build the detector of its own kind (sibling agreement)."""
    new = DET + '::<F, D>::new'
    n = 0
    for b in sorted(cx.facts.bodies_in('dasp_envelope'), key=lambda b: b['path']):
        if b['kind'] == 'Closure' or b['path'] == new:
            continue
        try:
            # (inlining: a constructor may reach Detector::new through another constructor, e.g. peak_from_rectifier)
            ps = returning(cx.paths(b['path'], stop=[new]))
        except Exception:
            continue
        if not any(rp(e) == new for p in ps for _, e in call_events(p)):
            continue
        n += 1
        import rename
        names = {}
        for nm in ('attack_frames', 'release_frames'):
            ix = rename.param_index(cx.facts, cfg, b, nm)
            if ix is not None:
                names[nm] = ix
        bad = None
        if 'attack_frames' not in names or 'release_frames' not in names:
            bad = 'constructor has no attack_frames / release_frames parameters (%s)' % sorted((b.get('names') or {}).values())
        for p in ps:
            if bad:
                break
            evs = [(k, e) for k, e in call_events(p) if rp(e) == new]
            if len(evs) != 1 or p['ret'] != ('ret', evs[0][0]):
                bad = 'must return Detector::new(..) unchanged'
                break
            args = evs[0][1]['args']
            if args[1] != ('param', names['attack_frames']) or args[2] != ('param', names['release_frames']):
                bad = 'passes (%s, %s) as (attack_frames, release_frames); expected its own attack_frames, release_frames in that order' % (short(args[1]), short(args[2]))
                break
            kind = PEAK_KIND.get(b.get('name'))
            if kind is not None:
                src = args[0]
                made = [e for k, e in call_events(p) if ('ret', k) == src]
                by_ctor = bool(made) and (rp(made[0]) or '').endswith('::' + kind)
                by_value = any(t[0] == 'agg' and t[1][0] == 'adt' and t[1][1] == 'dasp_peak::' + RECT_OF[kind] for t in subterms(src))
                if not (by_ctor or by_value):
                    bad = 'must build its detector with the %s rectifier' % RECT_OF[kind]
        run.check(bad is None, 'envelope.ctor-forward', b['path'], cfg, bad or '', where=where(b))
    run.floor('envelope.ctor-forward', 'convenience constructors calling Detector::new (%s)' % cfg, n, 5 if cfg != 'nostd' else 5)
    # Peak::<kind>() constructors wrap the rectifier of their own kind
    m = 0
    for kind, ty in RECT_OF.items():
        for b in cx.facts.bodies_in('dasp_envelope'):
            if b.get('name') == kind and b['path'].startswith('dasp_envelope::detect::peak::Peak'):
                m += 1
                ps = returning(cx.paths(b['path'], inline=False))
                ok = len(ps) == 1 and any(t[0] == 'agg' and t[1][1] == 'dasp_peak::' + ty for t in subterms(ps[0]['ret']))
                run.check(ok, 'envelope.peak-kind', b['path'], cfg, 'Peak::%s() must wrap dasp_peak::%s: %s' % (kind, ty, describe_path(ps[0]) if ps else '-'), where=where(b))
    run.floor('envelope.peak-kind', 'Peak kind constructors (%s)' % cfg, m, 3)
    fn = 'dasp_envelope::detect::rms::<impl dasp_envelope::detect::Detect<F> for dasp_rms::Rms<F, S>>::detect'
    body = cx.body(fn)
    if body is None:
        run.fail('envelope.detect-rms', fn, cfg, 'impl not found')
    else:
        ps = returning(cx.paths(fn, stop=['dasp_rms::Rms::<F, S>::next'], inline=False))
        ok = False
        if len(ps) == 1:
            evs = call_events(ps[0])
            ok = len(evs) == 1 and rp(evs[0][1]) == 'dasp_rms::Rms::<F, S>::next' and evs[0][1]['args'] == [('ref', (('P', ('param', 1)), ())), ('param', 2)] and ps[0]['ret'] == ('ret', evs[0][0])
        run.check(ok, 'envelope.detect-rms', fn, cfg, 'Rms::detect must be self.next(frame): %s' % '; '.join(describe_path(p) for p in ps), where=where(body))


def run(run, tier, loadcfg):
    run.rule_text = 'one instance per (function x rule x configuration)'
    run.explanation = __doc__
    run.assumptions = ['amplitude abstraction: conversions are the identity on the real amplitude, EQUILIBRIUM is amplitude 0, comparisons in a format agree with comparisons of amplitudes (C01/C02)',
                       'integer truncation in the round trip through the float companion is not decided']
    for cfg in ['std-debug'] + (['nostd', 'std-release'] if tier == 'thorough' else []):
        fx_ = loadcfg(cfg, optional=(cfg == 'nostd'))
        if fx_ is None:
            continue
        cx = Ctx(fx_)
        check_rectifiers(run, cx, cfg)
        check_detector(run, cx, cfg)
        check_wiring(run, cx, cfg)
        check_ctor_forwarders(run, cx, cfg)
