"""C05 — finite signals end exactly once: exhaustion is exact, contagious, then silent.

1. override rule (item table): every impl Signal whose Self stores a Signal-bounded source overrides is_exhausted
   (the trait default is `false`, so an omission silently stops propagation);
2. truth tables (R4) of every is_exhausted body over the atoms src_i.is_exhausted();
3. look-ahead protocol of the iterator-backed signals (constructor primes, next refills with exactly one pull);
4. UntilExhausted / Take / IntoInterleavedSamples step functions, lift wiring."""
import itertools

from rules.common import *
from rules.C04 import signal_params, impl_key, source_fields, STOP, next_calls, EQ

LEVEL = 'other'

ITER_NEXT = ('core::iter::traits::iterator::Iterator', 'next')


def type_mentions(facts, ty, params, seen=None):
    """does type `ty` mention one of the type parameters (through refs, pointers, ADT arguments, fields of workspace structs)?"""
    seen = seen or set()
    if ty in seen:
        return False
    seen.add(ty)
    if ty in params:
        return True
    t = facts.ty(ty)
    k = t.get('k')
    if k in ('ref', 'ptr', 'array', 'slice'):
        return type_mentions(facts, t['inner'], params, seen)
    if k == 'adt':
        return any(type_mentions(facts, a, params, seen) for a in t['args'] if not a.startswith('const '))
    if k == 'tuple':
        return any(type_mentions(facts, a, params, seen) for a in t['elems'])
    return False


def check_override(run, cx, cfg):
    n = with_src = 0
    for imp in cx.facts.impls_of(SIGNAL):
        n += 1
        params = signal_params(imp)
        t = cx.facts.ty(imp['self_ty'])
        stores = False
        if t.get('k') == 'ref':
            stores = bool(params)
        elif t.get('k') == 'adt':
            stores = any(type_mentions(cx.facts, f, params) for f in cx.field_types(t['path']))
        has = any(i['name'] == 'is_exhausted' for i in imp['items'])
        key = impl_key(cx, imp)
        if stores:
            with_src += 1
            run.check(has, 'exhaustion.override', imp['path'], cfg,
                      '%s stores a Signal source (%s) but does not override is_exhausted, so it reports `false` forever and exhaustion '
                      'does not propagate through it' % (key, ', '.join(sorted(params))), where=imp['span'])
        else:
            run.ok('exhaustion.override', imp['path'], cfg + ':no-signal-source', nontrivial=False)
    run.floor('exhaustion.override', 'impl Signal (%s)' % cfg, n, 35 if cfg != 'nostd' else 30)
    run.floor('exhaustion.override', 'impl Signal with a Signal source (%s)' % cfg, with_src, 23 if cfg != 'nostd' else 19)


def truth_table(cx, fn, atoms_of):
    """evaluate the bool function computed by `fn` over atoms.  atoms_of(event) -> atom name or None.
    returns dict assignment(tuple of (atom,bool) sorted) -> bool | term, plus the atom list."""
    paths = returning(cx.paths(fn, stop_trait_methods=STOP))
    rows = []
    atoms = set()
    for p in paths:
        amap = {}
        for k, e in enumerate(p['events']):
            if e['kind'] == 'call':
                a = atoms_of(e)
                if a is not None:
                    amap[('ret', k)] = a
                    atoms.add(a)
        assign = {}
        other = []
        for c, v in cond_facts(p):
            neg = False
            while c[0] == 'un' and c[1] == 'Not':
                c, neg = c[2], not neg
            if c in amap and v[0] == 'bool':
                assign[amap[c]] = v[1] != neg
            else:
                other.append((c, v))
        ret = ('expr', p['ret'], amap)
        rows.append((assign, other, ret, p))
    return sorted(atoms), rows


def eval_bool(t, amap, assignment):
    """value of a boolean term over atoms; a non-boolean residue is returned as ('term', t)"""
    if t in amap:
        return assignment[amap[t]]
    if t[0] == 'bool':
        return t[1]
    if t[0] == 'un' and t[1] == 'Not':
        v = eval_bool(t[2], amap, assignment)
        return (not v) if isinstance(v, bool) else ('term', t)
    if t[0] == 'op' and t[1] in ('BitOr', 'BitAnd', 'BitXor', 'Eq', 'Ne'):
        a, b = eval_bool(t[2], amap, assignment), eval_bool(t[3], amap, assignment)
        if isinstance(a, bool) and isinstance(b, bool):
            return {'BitOr': a or b, 'BitAnd': a and b, 'BitXor': a != b, 'Eq': a == b, 'Ne': a != b}[t[1]]
        if t[1] == 'BitOr' and (a is True or b is True):
            return True
        if t[1] == 'BitAnd' and (a is False or b is False):
            return False
    return ('term', t)


def eval_rows(rows, atoms, assignment, other_pred):
    """value of the function under a full assignment of atoms; other_pred(other conds) selects rows"""
    out = []
    for assign, other, ret, p in rows:
        if any(assignment[a] != v for a, v in assign.items()):
            continue
        if not other_pred(other):
            continue
        out.append(eval_bool(ret[1], ret[2], assignment))
    return out


def check_truth_tables(run, cx, cfg):
    n = 0
    for imp in cx.facts.impls_of(SIGNAL):
        it = next((i for i in imp['items'] if i['name'] == 'is_exhausted'), None)
        if it is None:
            continue
        fn = it['path']
        body = cx.body(fn)
        if body is None:
            continue
        key = impl_key(cx, imp)
        name = key.rsplit('::', 1)[-1]
        if name in ('Output', 'Buffered', 'Converter', 'BranchRcA', 'BranchRcB', 'BranchRefA', 'BranchRefB'):
            continue     # C13 / C14 / C08 / C12 own these predicates
        if new_type(cx.facts, key):
            run.note('impl Signal for %s is new (no such type on the reference tree): its exhaustion predicate is not in the table of this check, not examined' % key)
            continue
        n += 1
        if key == "&'a mut S":
            srcs = {('ref', (('P', ('deref', SELF)), ())): 'inner'}
        else:
            sf = source_fields(cx, imp) or []
            srcs = {('ref', self_loc(i)): cx.field_names(key)[i] for i in sf}

        def atoms_of(e, srcs=srcs):
            if is_call(e, SIGNAL, 'is_exhausted'):
                return srcs.get(e['args'][0], 'foreign:' + short(e['args'][0]))
            return None
        try:
            atoms, rows = truth_table(cx, fn, atoms_of)
        except T.TooComplex as e:
            run.unproven('exhaustion.truth-table', fn, cfg, str(e), where=where(body))
            continue
        bad = None
        if name in ('FromIterator', 'FromInterleavedSamplesIterator'):
            # next.is_none()
            nxt = self_field(cx.field_index(key, 'next'))
            want = ('op', 'Eq', ('discr', nxt), ('int', 0, 'isize'))
            ok = len(rows) == 1 and rows[0][2][1] == want
            if not ok:
                bad = 'must be exactly `self.next.is_none()` (the look-ahead slot decides exhaustion); is [%s]' % '; '.join(describe_path(r[3]) for r in rows)
            sample = describe_path(rows[0][3]) if rows else None
        elif name == 'Delay':
            nf = self_field(cx.field_index(key, 'n_frames'))
            sample = []
            for val in (False, True):
                for zero in (False, True):
                    def pred(other, zero=zero):
                        # rows are selected by whether their n_frames constraint admits n == 0 / n > 0
                        fake = {'conds': [(c, v, None) for c, v in other]}
                        lo, hi = int_constraint(fake, nf)
                        return (lo <= 0 <= hi) if zero else hi >= 1
                    got = eval_rows(rows, atoms, {a: val for a in atoms}, pred)
                    want = zero and val
                    sample.append({'n_frames==0': zero, 'signal exhausted': val, 'result': got})
                    if got != [want]:
                        bad = 'with n_frames %s and the source %sexhausted it yields %s, expected %s (a delay stays live while emitting its silence)' % (
                            '== 0' if zero else '> 0', '' if val else 'not ', got, want)
            if atoms != ['signal']:
                bad = bad or 'consults %s instead of its source' % atoms
        else:
            want_atoms = sorted(srcs.values())
            sample = []
            if atoms != want_atoms:
                bad = 'consults %s, expected exactly the sources %s' % (atoms, want_atoms)
            else:
                for vals in itertools.product((False, True), repeat=len(atoms)):
                    asg = dict(zip(atoms, vals))
                    got = eval_rows(rows, atoms, asg, lambda other: not other)
                    sample.append({'inputs': asg, 'result': got})
                    if got != [any(vals)]:
                        bad = 'for %s it yields %s, expected %s (exhausted as soon as any input is)' % (asg, got, any(vals))
                        break
                if any(r[1] for r in rows):
                    bad = bad or 'depends on something other than its sources: %s' % short(next(r[1] for r in rows if r[1])[0][0])
        run.check(bad is None, 'exhaustion.truth-table', fn, cfg, bad or '', where=where(body),
                  sample=sample if name in ('ZipMap', 'Delay', 'FromIterator', 'MulHz') else None)
    run.floor('exhaustion.truth-table', 'is_exhausted bodies (%s)' % cfg, n, 18 if cfg != 'nostd' else 16)


def check_lookahead(run, cx, cfg):
    for name, ctor, pull in (('FromIterator', 'dasp_signal::from_iter', ITER_NEXT),
                             ('FromInterleavedSamplesIterator', 'dasp_signal::from_interleaved_samples_iter', (FRAME, 'from_samples'))):
        key = 'dasp_signal::' + name
        fi, fn_ = cx.field_index(key, 'iter' if name == 'FromIterator' else 'samples'), cx.field_index(key, 'next')
        fn = '<%s as dasp_signal::Signal>::next' % cx.facts.impls_of(SIGNAL)[0]['self_ty']  # placeholder, replaced below
        imp = next((i for i in cx.facts.impls_of(SIGNAL) if impl_key(cx, i) == key), None)
        if imp is None or fi is None or fn_ is None:
            run.fail('lookahead.next', key, cfg, 'impl Signal for %s (fields iter/samples, next) not found' % name)
            continue
        fn = next(i['path'] for i in imp['items'] if i['name'] == 'next')
        body = cx.body(fn)
        paths = returning(cx.paths(fn, stop_trait_methods=STOP))
        slot = self_field(fn_)
        bad = None
        seen = set()
        for p in paths:
            d = None
            for c, v in cond_facts(p):
                if c == ('discr', slot) and v[0] == 'int':
                    d = v[1]
            pulls = [(k, e) for k, e in call_events(p) if (e.get('trait'), e['name']) == pull]
            w = heap_writes(p)
            if d == 1:
                ok = (len(pulls) == 1 and pulls[0][1]['args'][0] == ('ref', self_loc(fi)) and w.get(self_loc(fn_)) == ('ret', pulls[0][0])
                      and p['ret'] == ('field', ('variant', slot, 1), 0))
                if not ok:
                    bad = 'with a frame in the look-ahead slot it must return that frame and refill the slot with exactly one pull: [%s]' % describe_path(p)
            elif d == 0:
                ok = not pulls and EQ(p['ret'])
                if not ok:
                    bad = 'with an empty look-ahead slot it must not touch the iterator and must yield EQUILIBRIUM: [%s]' % describe_path(p)
            else:
                bad = 'path not decided by the look-ahead slot: [%s]' % describe_path(p)
            seen.add(d)
        if seen != {0, 1}:
            bad = bad or 'expected the two cases Some / None of the look-ahead slot'
        run.check(bad is None, 'lookahead.next', fn, cfg, bad or '', where=where(body), sample=[describe_path(p) for p in paths])
        # constructor primes the slot with one pull from the iterator it stores
        cb = cx.body(ctor)
        if cb is None:
            run.fail('lookahead.ctor', ctor, cfg, 'constructor not found')
            continue
        cps = returning(cx.paths(ctor))
        ok = False
        if len(cps) == 1:
            p = cps[0]
            pulls = [(k, e) for k, e in call_events(p) if (e.get('trait'), e['name']) == pull]
            r = p['ret']
            if len(pulls) == 1 and r[0] == 'agg' and r[1][0] == 'adt' and r[1][1] == key:
                k, e = pulls[0]
                ok = r[2][fn_] == ('ret', k) and r[2][fi] == ('mut', k, 0) and e['args'][0][0] == 'ref'
        run.check(ok, 'lookahead.ctor', ctor, cfg, 'constructor must prime the look-ahead slot with exactly one pull from the iterator it keeps: [%s]' % '; '.join(describe_path(p) for p in cps),
                  where=where(cb))


def check_iterators(run, cx, cfg):
    # UntilExhausted::next
    fn = '<dasp_signal::UntilExhausted<S> as core::iter::traits::iterator::Iterator>::next'
    body = cx.body(fn)
    if body is None:
        run.fail('until_exhausted.step', fn, cfg, 'function not found')
    else:
        sig = cx.field_index('dasp_signal::UntilExhausted', 'signal')
        paths = returning(cx.paths(fn, stop_trait_methods=STOP))
        bad = None
        cases = set()
        for p in paths:
            evs = call_events(p)
            if not evs or not is_call(evs[0][1], SIGNAL, 'is_exhausted') or evs[0][1]['args'][0] != ('ref', self_loc(sig)):
                bad = 'must test signal.is_exhausted() before anything else: [%s]' % describe_path(p)
                break
            ex = dict(cond_facts(p)).get(('ret', evs[0][0]))
            if ex == ('bool', True):
                cases.add(True)
                if len(evs) != 1 or not (p['ret'][0] == 'agg' and p['ret'][1][2] == 0):
                    bad = 'when exhausted it must return None without pulling: [%s]' % describe_path(p)
            elif ex == ('bool', False):
                cases.add(False)
                nx = next_calls(p)
                if len(nx) != 1 or len(evs) != 2 or p['ret'] != ('agg', ('adt', 'core::option::Option', 1, 'Some'), (('ret', nx[0][0]),)):
                    bad = 'when not exhausted it must return Some(signal.next()) with exactly one pull: [%s]' % describe_path(p)
            else:
                bad = 'path not decided by is_exhausted(): [%s]' % describe_path(p)
        if cases != {True, False}:
            bad = bad or 'missing case'
        run.check(bad is None, 'until_exhausted.step', fn, cfg, bad or '', where=where(body), sample=[describe_path(p) for p in paths])
    # Take::next
    fn = '<dasp_signal::Take<S> as core::iter::traits::iterator::Iterator>::next'
    body = cx.body(fn)
    if body is None:
        run.fail('take.step', fn, cfg, 'function not found')
    else:
        ni, si = cx.field_index('dasp_signal::Take', 'n'), cx.field_index('dasp_signal::Take', 'signal')
        n = self_field(ni)
        paths = returning(cx.paths(fn, stop_trait_methods=STOP))
        bad = None
        cases = set()
        for p in paths:
            lo, hi = int_constraint(p, n)
            nx = next_calls(p)
            w = heap_writes(p)
            if hi == 0:
                cases.add(0)
                if nx or self_loc(ni) in w or not (p['ret'][0] == 'agg' and p['ret'][1][2] == 0):
                    bad = 'with n == 0 it must return None, leave n and not pull: [%s]' % describe_path(p)
            elif lo >= 1:
                cases.add(1)
                if len(nx) != 1 or w.get(self_loc(ni)) != ('op', 'Sub', n, ('int', 1, 'usize')) or p['ret'] != ('agg', ('adt', 'core::option::Option', 1, 'Some'), (('ret', nx[0][0]),)):
                    bad = 'with n > 0 it must decrement n by one and return Some(signal.next()): [%s]' % describe_path(p)
            else:
                bad = 'path not decided by n == 0: [%s]' % describe_path(p)
        if cases != {0, 1}:
            bad = bad or 'missing case'
        run.check(bad is None, 'take.step', fn, cfg, bad or '', where=where(body), sample=[describe_path(p) for p in paths])
    # IntoInterleavedSamples::next_sample
    fn = 'dasp_signal::IntoInterleavedSamples::<S>::next_sample'
    body = cx.body(fn)
    if body is None:
        run.fail('interleaved.step', fn, cfg, 'function not found')
    else:
        key = 'dasp_signal::IntoInterleavedSamples'
        si, ci = cx.field_index(key, 'signal'), cx.field_index(key, 'current_frame')
        cur = self_field(ci)
        paths = returning(cx.paths(fn, stop_trait_methods=STOP, stop=[fn], transparent=('core::option::Option::<T>::map',)))
        bad = None
        kinds = set()
        for p in paths:
            facts_ = dict(cond_facts(p))
            evs = call_events(p)
            nx = next_calls(p)
            exq = [(k, e) for k, e in evs if is_call(e, SIGNAL, 'is_exhausted')]
            had_frame = None
            if facts_.get(('op', 'Eq', ('discr', cur), ('int', 0, 'isize'))) == ('bool', False) or facts_.get(('discr', cur)) == ('int', 1, 'isize'):
                had_frame = True
            if facts_.get(('op', 'Eq', ('discr', cur), ('int', 0, 'isize'))) == ('bool', True):
                had_frame = False
            chan_next = [(k, e) for k, e in evs if (e.get('trait'), e['name']) == ITER_NEXT]
            rec = [(k, e) for k, e in evs if (e.get('rpath') or e['path']) == fn]
            isnone = p['ret'][0] == 'agg' and p['ret'][1][1] == 'core::option::Option' and p['ret'][1][2] == 0
            if had_frame:
                # no refill, no exhaustion-dependent pull
                if nx:
                    bad = 'pulls a new frame although the current one is not finished: [%s]' % describe_path(p)
            else:
                if len(exq) != 1 or exq[0][1]['args'][0] != ('ref', self_loc(si)):
                    bad = 'without a current frame it must consult signal.is_exhausted(): [%s]' % describe_path(p)
                else:
                    ex = facts_.get(('ret', exq[0][0]))
                    if ex == ('bool', True):
                        if nx or not isnone or chan_next:
                            bad = 'no frame and exhausted: must return None without pulling: [%s]' % describe_path(p)
                        kinds.add('end')
                    elif ex == ('bool', False):
                        if len(nx) != 1 or nx[0][1]['args'][0] != ('ref', self_loc(si)):
                            bad = 'no frame and not exhausted: must pull exactly one frame: [%s]' % describe_path(p)
                        kinds.add('refill')
            if isnone and had_frame is not False:
                bad = bad or 'returns None although a frame may still be in progress: [%s]' % describe_path(p)
            if rec:
                # recursion only after the channel iterator ran dry, and after clearing the slot
                k, e = rec[0]
                if len(chan_next) != 1 or option_variant(facts_, ('ret', chan_next[0][0])) != 0 or p['ret'] != ('ret', k):
                    bad = bad or 'recurses without the channel iterator having finished: [%s]' % describe_path(p)
                # the slot must have been cleared when the recursive call is made: otherwise the call finds the finished
                # channel iterator again and recurses forever
                pre = (e.get('pre') or {}).get(0)
                cleared = False
                if pre is not None and pre[0] == 'upd':
                    for rel, val in pre[2]:
                        if rel == (('f', ci),) and val[0] == 'agg' and val[1][1] == 'core::option::Option' and val[1][2] == 0:
                            cleared = True
                if not cleared:
                    bad = bad or 'recurses with the finished frame still in the slot (the slot must be set to None first): [%s]' % describe_path(p)
                kinds.add('frame-finished')
            elif not isnone:
                same_option = len(chan_next) == 1 and p['ret'] == ('ret', chan_next[0][0]) and option_variant(facts_, p['ret']) == 1     # handed on as it is, known to be Some
                if not same_option and (len(chan_next) != 1 or p['ret'] != ('agg', ('adt', 'core::option::Option', 1, 'Some'), (('field', ('variant', ('ret', chan_next[0][0]), 1), 0),))):
                    bad = bad or 'must yield exactly the next channel of the current frame: [%s]' % describe_path(p)
                kinds.add('sample')
            if bad:
                break
        if not bad and not {'end', 'refill', 'frame-finished', 'sample'} <= kinds:
            bad = 'step function lacks a case (has %s)' % sorted(kinds)
        run.check(bad is None, 'interleaved.step', fn, cfg, bad or '', where=where(body), sample=[describe_path(p) for p in paths][:3])
    # lift = from_iter -> user fn -> until_exhausted
    fn = 'dasp_signal::lift'
    body = cx.body(fn)
    if body is not None:
        ps = returning(cx.paths(fn))
        ok = False
        if len(ps) == 1:
            evs = [e for k, e in call_events(ps[0])]
            names = [(e.get('trait'), e['name']) for e in evs]
            try:
                i_pull = names.index(ITER_NEXT)
                i_user = names.index(('core::ops::function::FnOnce', 'call_once'))
                i_ue = names.index((SIGNAL, 'until_exhausted'))
                user_arg = evs[i_user]['args'][1]
                ok = (i_pull < i_user < i_ue and names.count(ITER_NEXT) == 1 and user_arg[0] == 'agg' and user_arg[2][0][0] == 'agg'
                      and user_arg[2][0][1][1] == 'dasp_signal::FromIterator' and evs[i_ue]['args'][0] == evs[i_user]['result']
                      and ps[0]['ret'] == evs[i_ue]['result'])
            except ValueError:
                ok = False
        run.check(ok, 'lift.wiring', fn, cfg, 'lift must be from_iter(iter) -> user function -> until_exhausted(): [%s]' % '; '.join(describe_path(p) for p in ps), where=where(body))
    else:
        run.fail('lift.wiring', fn, cfg, 'function not found')


def check_take_len(run, cx, cfg):
    """Take's size_hint / len report exactly the remaining count n"""
    ni = cx.field_index('dasp_signal::Take', 'n')
    n = ('field', ('deref', ('param', 1)), ni)
    for fn, want in (('<dasp_signal::Take<S> as core::iter::traits::iterator::Iterator>::size_hint',
                      ('agg', ('tuple',), (n, ('agg', ('adt', 'core::option::Option', 1, 'Some'), (n,))))),
                     ('<dasp_signal::Take<S> as core::iter::traits::exact_size::ExactSizeIterator>::len', n)):
        body = cx.body(fn)
        if body is None:
            run.fail('take.len', fn, cfg, 'function not found')
            continue
        ps = returning(cx.paths(fn))
        ok = len(ps) == 1 and not call_events(ps[0]) and not heap_writes(ps[0]) and ps[0]['ret'] == want
        run.check(ok, 'take.len', fn, cfg, 'must report exactly the remaining count n: [%s]' % '; '.join(describe_path(p) for p in ps), where=where(body))


def run(run, tier, load):
    run.rule_text = 'one instance per (impl or function x rule x configuration); non-trivial = rule matched code of the tree'
    run.explanation = ('Decided for all paths: (1) every impl Signal that stores a Signal source overrides is_exhausted; (2) each override is the OR of its sources '
                       '(forwarding for one source; Delay: n_frames == 0 AND source; iterator-backed: next.is_none()); (3) the one-frame look-ahead protocol of '
                       'from_iter / from_interleaved_samples_iter (constructor primes, next refills with exactly one pull, equilibrium and no pull when empty); '
                       '(4) the step functions of UntilExhausted, Take, IntoInterleavedSamples::next_sample and the wiring of lift. '
                       'The history-level statement (min-length then None forever, frames x channels samples) follows by induction over adaptor depth (paper step).')
    run.assumptions = ['user iterators/closures are opaque effects', 'Frame::from_samples returns None on a short iterator (C03)']
    cfgs = ['std-debug'] + (['nostd', 'std-release'] if tier == 'thorough' else [])
    for cfg in cfgs:
        fx_ = load(cfg, optional=(cfg == 'nostd'))
        if fx_ is None:
            continue
        cx = Ctx(fx_)
        check_override(run, cx, cfg)
        check_truth_tables(run, cx, cfg)
        check_lookahead(run, cx, cfg)
        check_iterators(run, cx, cfg)
        check_take_len(run, cx, cfg)
        # Signal impls: next belongs to C04 and the per-adaptor properties; here: nothing beyond next / is_exhausted is overridden,
        # and the iterators of this property override nothing that no rule covers
        check_overrides(run, cx, cfg, 'exhaustion.inventory', lambda p: p.startswith('dasp_signal::') or p == "&'a mut S", minimum=60)
        ev = {fn for _, fn, _, _ in run.instances}
        check_overrides(run, cx, cfg, 'exhaustion.iter-inventory', lambda p: p in ('dasp_signal::Take', 'dasp_signal::UntilExhausted', 'dasp_signal::IntoInterleavedSamplesIterator'), evaluated=ev, minimum=5)
