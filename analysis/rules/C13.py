"""C13 — bus: necessary structural conditions of send / next_frame / pending_frames / drop.

Each condition below is necessary for the history-level statement (gap-free streams, backlog = slowest lag):
breaking any one produces a lost or duplicated frame or an untrimmed backlog.  The step from these conditions to
the full invariant is the paper argument of DESIGN Appendix C.3; nothing is explored over interleavings."""
from rules.common import *
from rules.C04 import STOP

LEVEL = 'other'
NODE = 'dasp_signal::bus::SharedNode'
VD = 'alloc::collections::vec_deque::VecDeque::<T, A>::'
BT = 'alloc::collections::btree::map::BTreeMap::<K, V, A>::'


def rp(e):
    return e.get('rpath') or e['path'] if e['kind'] == 'call' else None


def key_arg_is(p, a, want):
    return deref(p, a) == want if a[0] == 'ref' else a == want


def check_next_frame(run, cx, cfg):
    fn = NODE + '::<S>::next_frame'
    body = cx.body(fn)
    if body is None:
        run.fail('bus.next_frame', fn, cfg, 'function not found')
        return
    si, bi, fi = (cx.field_index(NODE, n) for n in ('signal', 'buffer', 'frames_read'))
    ps = normal_paths(cx.paths(fn, stop_trait_methods=STOP))
    KEY = ('param', 2)
    bad = None
    kinds = set()
    for p in ps:
        evs = call_events(p)
        names = [rp(e) for k, e in evs]
        lens = [(k, e) for k, e in evs if rp(e) == VD + 'len' and e['args'][0] == ('ref', self_loc(bi))]
        rem = [(k, e) for k, e in evs if rp(e) == BT + 'remove' and e['args'][0] == ('ref', self_loc(fi))]
        ins = [(k, e) for k, e in evs if rp(e) == BT + 'insert' and e['args'][0] == ('ref', self_loc(fi))]
        exp = [(k, e) for k, e in evs if rp(e) in ('core::option::Option::<T>::expect', 'core::option::Option::<T>::unwrap')]
        gets = [(k, e) for k, e in evs if rp(e) == VD + 'get' and e['args'][0] == ('ref', self_loc(bi))]
        if len(rem) != 1 or not key_arg_is(p, rem[0][1]['args'][1], KEY) or len(exp) != 1 or exp[0][1]['args'][0] != ('ret', rem[0][0]) or not (lens or gets):
            bad = 'must take this output\'s offset with frames_read.remove(&key) and read buffer.len(): [%s]' % describe_path(p)
            break
        FR = ('ret', exp[0][0])
        L = ('ret', lens[0][0]) if lens else None
        probe = (lens or gets)[0][0]
        if probe > rem[0][0] and any(rp(e) in (VD + 'push_back', VD + 'pop_front') for k, e in evs if k < probe):
            bad = 'buffer length read after modifying the buffer'
            break
        # R8 pairing: remove(key) is followed by insert(key, _) on every non-panicking return
        if p['end'] == 'return':
            if len(ins) != 1 or ins[0][1]['args'][1] != KEY or ins[0][0] < rem[0][0]:
                bad = 'a returning path does not re-insert this output\'s offset under its key: [%s]' % describe_path(p)
                break
        # which frame
        behind = None
        for c, v in cond_facts(p):
            if c == ('op', 'Lt', FR, L) and v[0] == 'bool':
                behind = v[1]
            if c == ('op', 'Ge', FR, L) and v[0] == 'bool':
                behind = not v[1]
        got = None
        if behind is None and len(gets) == 1 and gets[0][1]['args'][1] == FR:
            # `match buffer.get(frames_read)`: Some(frame) exactly when frames_read < buffer.len()
            dg = dict(cond_facts(p)).get(('discr', ('ret', gets[0][0])))
            if dg is not None and dg[0] == 'int':
                behind = dg[1] == 1
                got = ('deref', ('field', ('variant', ('ret', gets[0][0]), 1), 0))
        if behind is None:
            bad = 'path not decided by `frames_read < buffer.len()`: [%s]' % describe_path(p)
            break
        pulls = [(k, e) for k, e in evs if is_call(e, SIGNAL, 'next')]
        pushes = [(k, e) for k, e in evs if rp(e) == VD + 'push_back']
        frame = None
        if behind:
            idx = [(k, e) for k, e in evs if rp(e).endswith('core::ops::index::Index<usize>>::index') and e['args'] == [('ref', self_loc(bi)), FR]]
            if pulls or pushes or (len(idx) != 1 and got is None):
                bad = 'an output that lags must read buffer[frames_read] and must not pull the source: [%s]' % describe_path(p)
                break
            frame = got if got is not None else ('deref', ('ret', idx[0][0]))
        else:
            if len(pulls) != 1 or pulls[0][1]['args'][0] != ('ref', self_loc(si)) or len(pushes) != 1 \
                    or pushes[0][1]['args'] != [('ref', self_loc(bi)), ('ret', pulls[0][0])] or pushes[0][0] < pulls[0][0]:
                bad = 'an output that has caught up must pull exactly one frame and append that frame to the backlog: [%s]' % describe_path(p)
                break
            frame = ('ret', pulls[0][0])
        # least-reader test: no *other* offset <= this offset.  Accepted idioms: !values().any(|o| o <= fr)  and  values().all(|o| o > fr)
        # (both are true for a lone output, which must pop what it pushed).
        anys = [(k, e) for k, e in evs if is_call(e, ITER, 'any') or is_call(e, ITER, 'all')]
        vals = [(k, e) for k, e in evs if rp(e) == BT + 'values' and e['args'][0] == ('ref', self_loc(fi))]
        # third idiom: values().min().map_or(true, |&m| m > fr) -- no other output, or even the slowest other one is ahead
        mins = [(k, e) for k, e in evs if is_call(e, ITER, 'min') and vals and e['args'][0] == ('ret', vals[0][0])]
        via_min = not anys and len(mins) == 1
        least_min = None
        if via_min:
            # (map_or is seen through: a branch on the variant of the minimum, then the comparison of its payload)
            cfm = dict(cond_facts(p))
            mv = option_variant(cfm, ('ret', mins[0][0]))
            if mv == 0:
                least_min = True                      # no other output at all
            elif mv == 1:
                pay = ('field', ('variant', ('ret', mins[0][0]), 1), 0)
                for c, v in cond_facts(p):
                    if v[0] != 'bool' or c[0] != 'op':
                        continue
                    x, y = strip_epoch(c[2]), strip_epoch(c[3])
                    isp = lambda t: t == ('deref', pay) or t == pay
                    if c[1] == 'Gt' and isp(x) and y == FR or c[1] == 'Lt' and x == FR and isp(y):
                        least_min = v[1]              # min_other > frames_read
                    elif c[1] == 'Le' and isp(x) and y == FR or c[1] == 'Ge' and x == FR and isp(y):
                        least_min = not v[1]          # !(min_other <= frames_read)
            if least_min is None or len(vals) != 1 or vals[0][0] < rem[0][0]:
                bad = 'least-reader test through values().min(): the path is not decided by `no other output, or the smallest other offset > frames_read`: [%s]' % describe_path(p)[:300]
                break
        elif len(anys) != 1 or len(vals) != 1 or vals[0][0] < rem[0][0]:
            bad = ('least-reader test must scan frames_read.values() with any/all after this output\'s own offset was removed (a lone output must count as the least reader, '
                   'otherwise its backlog grows without bound)')
            break
        least = least_min
        if not via_min:
            is_all = anys[0][1]['name'] == 'all'
            clo = anys[0][1]['args'][1]
            if not (clo[0] == 'agg' and clo[1][0] == 'closure'):
                bad = 'least-reader predicate is not a closure'
                break
            cps = returning(cx.closure_paths(clo, p, [('ref', (('L', 'x', 0), ()))]))
            okc = False
            if len(cps) == 1:
                r = cps[0]['ret']
                want = ('Gt', 'Lt') if is_all else ('Le', 'Ge')      # all(other > fr)  |  any(other <= fr)
                if r[0] == 'op' and r[1] in want:
                    a, b = (r[2], r[3]) if r[1] == want[0] else (r[3], r[2])
                    okc = (b == FR) and a != FR
            if not okc:
                bad = 'least-reader predicate must be `other_frames_read <= frames_read` under any() (or `>` under all()): two outputs tied at the front must not both pop; is %s' % (
                    short(cps[0]['ret']) if cps else '?')
                break
            for c, v in cond_facts(p):
                truth = None
                if c == ('ret', anys[0][0]) and v[0] == 'bool':
                    truth = v[1]
                if c == ('un', 'Not', ('ret', anys[0][0])) and v[0] == 'bool':
                    truth = not v[1]
                if truth is not None:
                    least = truth if is_all else (not truth)
        pops = [(k, e) for k, e in evs if rp(e) == VD + 'pop_front' and e['args'][0] == ('ref', self_loc(bi))]
        if least is None:
            bad = 'path not decided by the least-reader test'
            break
        if not least:
            if pops or p['end'] != 'return' or ins[0][1]['args'][2] != ('op', 'Add', FR, ('int', 1, 'usize')):
                bad = 'when another output still needs the front frame: no pop, new offset = frames_read + 1: [%s]' % describe_path(p)
                break
            kinds.add(('keep', behind))
        else:
            vm = [(k, e) for k, e in evs if rp(e) == BT + 'values_mut' and e['args'][0] == ('ref', self_loc(fi))]
            if len(pops) != 1 or len(vm) != 1:
                bad = 'the least reader must pop the front frame exactly once and then rebase every other offset: [%s]' % describe_path(p)
                break
            if p['end'] == 'return':
                if ins[0][1]['args'][2] != FR or ins[0][0] < pops[0][0]:
                    bad = 'after popping, this output\'s new offset must be frames_read (unchanged): [%s]' % describe_path(p)
                    break
                kinds.add(('pop', behind))
            else:
                # one iteration of the rebase loop: *other -= 1
                w = [(loc, v) for loc, v in heap_writes(p).items() if loc[0][0] == 'P' and loc[0][1][0] == 'field' and v[0] == 'op']
                okw = len(w) == 1 and w[0][1][1] == 'Sub' and w[0][1][3] == ('int', 1, 'usize') and strip_epoch(w[0][1][2]) == ('deref', w[0][0][0][1])
                if not okw:
                    bad = 'rebase loop must decrement each other offset by exactly one: [%s]' % describe_path(p)
                    break
                kinds.add(('rebase', behind))
        if p['end'] == 'return' and strip_epoch(p['ret']) != frame:
            bad = 'returns %s, expected the frame %s' % (short(p['ret']), short(frame))
            break
    want = {(k, b) for k in ('keep', 'pop', 'rebase') for b in (True, False)}
    if not bad and kinds != want:
        bad = 'step function lacks cases: %s' % sorted(want - kinds)
    run.check(bad is None, 'bus.next_frame', fn, cfg, bad or '', where=where(body), sample=[describe_path(p)[:300] for p in ps][:2])


def check_send(run, cx, cfg):
    fn = 'dasp_signal::bus::Bus::<S>::send'
    body = cx.body(fn)
    if body is None:
        run.fail('bus.send', fn, cfg, 'function not found')
        return
    bi, fi, ki = (cx.field_index(NODE, n) for n in ('buffer', 'frames_read', 'next_key'))
    ps = returning(cx.paths(fn))
    bad = None
    if len(ps) != 1:
        bad = 'expected one path'
    else:
        p = ps[0]
        evs = call_events(p)
        lens = [(k, e) for k, e in evs if rp(e) == VD + 'len']
        ins = [(k, e) for k, e in evs if rp(e) == BT + 'insert']
        if len(lens) != 1 or len(ins) != 1:
            bad = 'must read buffer.len() once and insert one offset'
        else:
            cell = lens[0][1]['args'][0][1]
            node = (cell[0], cell[1][:-1])
            okl = cell[1][-1] == ('f', bi) and ins[0][1]['args'][0] == ('ref', (node[0], node[1] + (('f', fi),)))
            key = ins[0][1]['args'][1]
            if not okl or ins[0][1]['args'][2] != ('ret', lens[0][0]):
                bad = 'a new output must be registered at the current end of the backlog (frames_read[key] = buffer.len()): inserts %s' % short(ins[0][1]['args'][2])
            else:
                w = heap_writes(p)
                nk = w.get((node[0], node[1] + (('f', ki),)))
                old_key_ok = key[0] == 'field' and key[2] == ki
                r = p['ret']
                if nk is not None and nk[0] == 'field' and nk[2] == 0 and nk[1][0] == 'app' and nk[1][1].endswith('overflowing_add'):
                    nk = ('app', nk[1][1].replace('overflowing_add', 'wrapping_add')) + tuple(nk[1][2:])     # overflowing_add(..).0 is wrapping_add(..)
                if not old_key_ok or nk is None or not (nk[0] == 'app' and nk[1].endswith('wrapping_add') and nk[2] == (key, ('int', 1, 'usize'))):
                    bad = 'the key must be the old next_key and next_key must advance by one'
                elif not (r[0] == 'agg' and r[1][1] == 'dasp_signal::bus::Output' and r[2][cx.field_index('dasp_signal::bus::Output', 'key')] == key):
                    bad = 'the Output must carry the key that was registered'
    run.check(bad is None, 'bus.send', fn, cfg, bad or '', where=where(body))


def check_misc(run, cx, cfg, only=None):
    """only: subset of {'pending', 'drop', 'exhaustion', 'next'} (None = all)"""
    want = lambda g: only is None or g in only
    bi, fi, si = (cx.field_index(NODE, n) for n in ('buffer', 'frames_read', 'signal'))
    fn = NODE + '::<S>::pending_frames'
    body = cx.body(fn)
    if not want('pending'):
        pass
    elif body is None:
        run.fail('bus.pending_frames', fn, cfg, 'function not found')
    else:
        ps = returning(cx.paths(fn))
        ok = False
        if len(ps) == 1:
            p = ps[0]
            evs = call_events(p)
            lens = [(k, e) for k, e in evs if rp(e) == VD + 'len' and e['args'][0] == ('ref', self_loc(bi))]
            idx = [(k, e) for k, e in evs if 'core::ops::index::Index' in rp(e) and e['args'][0] == ('ref', self_loc(fi)) and key_arg_is(p, e['args'][1], ('param', 2))]
            ok = len(lens) == 1 and len(idx) == 1 and p['ret'] == ('op', 'Sub', ('ret', lens[0][0]), ('deref', ('ret', idx[0][0])))
        run.check(ok, 'bus.pending_frames', fn, cfg, 'must be buffer.len() - frames_read[&key]: [%s]' % '; '.join(describe_path(p) for p in ps), where=where(body))
    if not want('drop'):
        return check_misc_tail(run, cx, cfg, want)
    # Drop for Output exists and forwards its own key
    imp = [i for i in cx.facts.impls if i.get('trait') == 'core::ops::drop::Drop' and cx.facts.ty(i['self_ty']).get('path') == 'dasp_signal::bus::Output']
    run.check(len(imp) == 1, 'bus.drop-impl', 'impl Drop for Output', cfg, 'Output must implement Drop (a dropped output must stop pinning the backlog)')
    fn = '<dasp_signal::bus::Output<S> as core::ops::drop::Drop>::drop'
    body = cx.body(fn)
    if body is not None:
        ps = returning(cx.paths(fn, stop=[NODE + '::<S>::drop_output']))
        ki = cx.field_index('dasp_signal::bus::Output', 'key')
        ok = False
        if len(ps) == 1:
            evs = [e for k, e in call_events(ps[0])]
            ok = len(evs) == 1 and rp(evs[0]) == NODE + '::<S>::drop_output' and evs[0]['args'][1] == self_field(ki) and evs[0]['args'][0][0] == 'ref' \
                and evs[0]['args'][0][1][1][-1:] == (('cell',),)
        run.check(ok, 'bus.drop-forwards', fn, cfg, 'drop must call node.drop_output(self.key) exactly once', where=where(body))
    fn = NODE + '::<S>::drop_output'
    body = cx.body(fn)
    if body is None:
        run.fail('bus.drop_output', fn, cfg, 'function not found')
    else:
        ps = normal_paths(cx.paths(fn))
        bad = None
        kinds = set()
        for p in ps:
            evs = call_events(p)
            rem = [(k, e) for k, e in evs if rp(e) == BT + 'remove' and e['args'][0] == ('ref', self_loc(fi)) and key_arg_is(p, e['args'][1], ('param', 2))]
            folds = [(k, e) for k, e in evs if is_call(e, ITER, 'fold')]
            lens = [(k, e) for k, e in evs if rp(e) == VD + 'len' and e['args'][0] == ('ref', self_loc(bi))]
            vals = [(k, e) for k, e in evs if rp(e) == BT + 'values' and e['args'][0] == ('ref', self_loc(fi))]
            if len(rem) != 1 or evs[0][0] != rem[0][0]:
                bad = 'must first remove the dropped output\'s offset'
                break
            # fast path: no output is left after the removal -> nothing needs the backlog: buffer.clear() and return
            # (what the general path does too: the fold over no offsets yields buffer.len(), every frame is popped)
            emp = [(k, e) for k, e in evs if rp(e) == BT + 'is_empty' and e['args'][0] == ('ref', self_loc(fi)) and k > rem[0][0]]
            if emp:
                gone = dict(cond_facts(p)).get(('ret', emp[0][0]))
                if gone == ('bool', True):
                    rest = [(k, e) for k, e in evs if k > emp[0][0]]
                    if not (p['end'] == 'return' and len(rest) == 1 and rp(rest[0][1]) == VD + 'clear' and rest[0][1]['args'][0] == ('ref', self_loc(bi))):
                        bad = 'with no output left the backlog must be emptied (buffer.clear()) and nothing else: [%s]' % describe_path(p)[:300]
                        break
                    kinds.add('all-gone')
                    continue
                if gone != ('bool', False):
                    bad = 'path not decided by frames_read.is_empty()'
                    break
                evs = [(k, e) for k, e in evs if k != emp[0][0]]
            # values().fold(..) or values().copied().fold(..)
            fsrc = folds[0][1]['args'][0] if len(folds) == 1 else None
            if fsrc is not None and fsrc[0] == 'ret' and p['events'][fsrc[1]]['kind'] == 'call' and p['events'][fsrc[1]]['name'] in ('copied', 'cloned') \
                    and p['events'][fsrc[1]].get('trait') == ITER:
                fsrc = p['events'][fsrc[1]]['args'][0]
            if len(folds) != 1 or len(lens) != 1 or len(vals) != 1 or fsrc != ('ret', vals[0][0]) or folds[0][1]['args'][1] != ('ret', lens[0][0]) \
                    or vals[0][0] < rem[0][0]:
                bad = 'least remaining offset must be values().fold(buffer.len(), min) computed after the removal'
                break
            clo = folds[0][1]['args'][2]
            cps = returning(cx.closure_paths(clo, p, [('acc',), ('ref', (('L', 'x', 0), ()))])) if clo[0] == 'agg' else []
            okm = clo[0] == 'fnitem' and clo[1] in ('core::cmp::Ord::min', 'core::cmp::min')      # the function itself as the folding step
            if len(cps) == 1:
                ce = [e for k, e in call_events(cps[0])]
                # core::cmp::min(a, b)  or the method spelling a.min(b) (Ord::min)
                X = ('ref', (('L', 'x', 0), ()))
                elem = (('deref', X), strip_epoch(deref(cps[0], X)))
                okm = len(ce) == 1 and (rp(ce[0]) == 'core::cmp::min' or (ce[0]['name'] == 'min' and ce[0].get('trait') == 'core::cmp::Ord')) \
                    and cps[0]['ret'] == ce[0]['result'] and len(ce[0]['args']) == 2 \
                    and ((ce[0]['args'][0] == ('acc',) and strip_epoch(ce[0]['args'][1]) in elem) or (ce[0]['args'][1] == ('acc',) and strip_epoch(ce[0]['args'][0]) in elem))
                r = cps[0]['ret']
                okm = okm or (r[0] == 'app' and r[1].endswith('min') and len(r[2]) == 2 and ('acc',) in r[2] and any(strip_epoch(a) in elem for a in r[2]))
            if not okm:
                bad = 'fold closure must be min(acc, *offset)'
                break
            LEAST = ('ret', folds[0][0])
            lo, hi = int_constraint(p, LEAST)
            pops = [(k, e) for k, e in evs if rp(e) == VD + 'pop_front']
            if hi == 0:
                touched = [rp(e) for k, e in evs if k > folds[0][0] and rp(e).startswith((VD, BT)) and not rp(e).endswith(('::len', '::is_empty', '::values', '::iter', '::get', '::contains_key'))]
                if pops or touched:
                    bad = 'with least == 0 nothing may be trimmed'
                kinds.add('nothing')
            elif lo >= 1 or (lo == 0 and hi == float('inf')):
                if lo == 0:
                    # no guard at all: `for _ in 0..least` does not run for least == 0 and rebasing by 0 changes nothing, so the
                    # conditions below cover that case as well
                    kinds.add('nothing')
                if p['end'] == 'return':
                    kinds.add('done')
                else:
                    rl = [l for l in range_loops(p)]
                    if pops:
                        if len(pops) != 1 or not rl or rl[0]['lo'] != ('int', 0, 'usize') or rl[0]['hi'] != LEAST:
                            bad = 'must pop exactly `least` frames (for _ in 0..least): [%s]' % describe_path(p)
                        kinds.add('trim')
                    else:
                        w = [(loc, v) for loc, v in heap_writes(p).items() if loc[0][0] == 'P' and loc[0][1][0] == 'field' and v[0] == 'op']
                        if not (len(w) == 1 and w[0][1][1] == 'Sub' and w[0][1][3] == LEAST and strip_epoch(w[0][1][2]) == ('deref', w[0][0][0][1])):
                            bad = 'must rebase every remaining offset by `least`: [%s]' % describe_path(p)
                        kinds.add('rebase')
            else:
                bad = 'path not decided by least > 0'
            if bad:
                break
        kinds.discard('all-gone')
        if not bad and kinds != {'nothing', 'done', 'trim', 'rebase'}:
            bad = 'lacks cases (has %s)' % sorted(kinds)
        run.check(bad is None, 'bus.drop_output', fn, cfg, bad or '', where=where(body))
    check_misc_tail(run, cx, cfg, want)


def check_misc_tail(run, cx, cfg, want):
    # is_exhausted of Output
    fn = '<dasp_signal::bus::Output<S> as dasp_signal::Signal>::is_exhausted'
    body = cx.body(fn)
    if body is not None and want('exhaustion'):
        pf = NODE + '::<S>::pending_frames'
        ps = returning(cx.paths(fn, stop_trait_methods=STOP, stop=[pf]))
        bad = None
        seen = set()
        for p in ps:
            evs = call_events(p)
            pfs = [(k, e) for k, e in evs if rp(e) == pf]
            srcq = [(k, e) for k, e in evs if is_call(e, SIGNAL, 'is_exhausted')]
            if len(pfs) != 1 or pfs[0][1]['args'][1] != self_field(cx.field_index('dasp_signal::bus::Output', 'key')):
                bad = 'must consult pending_frames(self.key)'
                break
            lo, hi = int_constraint(p, ('ret', pfs[0][0]))
            if hi == 0:
                seen.add(0)
                if len(srcq) != 1 or p['ret'] != ('ret', srcq[0][0]):
                    bad = 'with nothing pending it must forward the source\'s is_exhausted()'
            elif lo >= 1:
                seen.add(1)
                if p['ret'] != ('bool', False):
                    bad = 'with frames pending it must not be exhausted'
            else:
                bad = 'not decided by pending_frames == 0'
        if seen != {0, 1}:
            bad = bad or 'missing case'
        run.check(bad is None, 'bus.output-exhaustion', fn, cfg, bad or '', where=where(body))
    # Output::next forwards its own key
    fn = '<dasp_signal::bus::Output<S> as dasp_signal::Signal>::next'
    body = cx.body(fn)
    if body is not None and want('next'):
        nf = NODE + '::<S>::next_frame'
        ps = returning(cx.paths(fn, stop=[nf]))
        ok = False
        if len(ps) == 1:
            evs = [e for k, e in call_events(ps[0])]
            ok = len(evs) == 1 and rp(evs[0]) == nf and evs[0]['args'][1] == self_field(cx.field_index('dasp_signal::bus::Output', 'key')) and ps[0]['ret'] == evs[0]['result']
        run.check(ok, 'bus.output-next', fn, cfg, 'Output::next must be node.next_frame(self.key)', where=where(body))


# who may change which part of the shared state.  Keys are unique because only `send` ever advances `next_key`; the
# backlog and the offsets move only in the three functions whose steps the rules above describe.
WRITERS = {
    'next_key': ('dasp_signal::bus::Bus::<S>::send',),
    'frames_read': ('dasp_signal::bus::Bus::<S>::send', NODE + '::<S>::drop_output', NODE + '::<S>::next_frame'),
    'buffer': (NODE + '::<S>::drop_output', NODE + '::<S>::next_frame'),
    'signal': (NODE + '::<S>::next_frame',),
}


def check_writers(run, cx, cfg):
    facts = cx.facts
    for name, allowed in sorted(WRITERS.items()):
        idx = cx.field_index(NODE, name)
        if idx is None:
            run.fail('bus.writers', NODE + '.' + name, cfg, 'field not found')
            continue
        group = set()
        for a in allowed:
            group |= confined_helpers(facts, a)      # private helpers reachable only from an allowed writer act for it
        ws = field_writers(facts, NODE, idx)
        bad = sorted({(w[0].split('::{closure')[0], w[2]) for w in ws if w[0].split('::{closure')[0] not in group})
        run.check(not bad, 'bus.writers', NODE + '.' + name, cfg,
                  'written (%s) outside the functions whose steps are verified: %s; allowed: %s' % (', '.join(sorted({k for _, k in bad})), ', '.join(f for f, _ in bad), ', '.join(allowed)),
                  where=where(cx.body(bad[0][0])) if bad and cx.body(bad[0][0]) else None)
        run.analysed['bus.writers:%s sites' % name] = len(ws)
    run.floor('bus.writers', 'write / mutable-borrow sites of SharedNode fields', sum(run.analysed.get('bus.writers:%s sites' % n, 0) for n in WRITERS), 8)


def run(run, tier, loadcfg):
    run.rule_text = 'one instance per (function x rule); each is a conjunction of structural conditions over all acyclic paths'
    run.explanation = ('send registers frames_read[key] = buffer.len() under a fresh key; next_frame: remove(key) ... insert(key, _) on every return, source pulled exactly on the '
                       'path not(frames_read < len), once, frame appended and returned, otherwise buffer[frames_read]; pop_front iff no other offset <= this one (operator checked), with '
                       'every other offset decremented and the new offset frames_read (popped) or frames_read+1; pending_frames = len - offset; Drop exists and calls drop_output(key), '
                       'which removes the key, trims min(remaining offsets, or len) frames and rebases; Output exhaustion; who-may-write: next_key only in send (keys stay unique), offsets / backlog / source only in send, next_frame, drop_output and their private helpers. NOT decided: the history-level statement itself '
                       '(gap-free streams, backlog == slowest lag) — these are necessary conditions, the step to the invariant is DESIGN Appendix C.3 on paper.')
    run.assumptions = ['VecDeque / BTreeMap behave as documented', 'the backlog-length hook mentioned in the property is not needed by this technique and is not added']
    cfg = 'std-debug'
    cx = Ctx(loadcfg(cfg))
    if cx.body(NODE + '::<S>::next_frame') is None:
        run.fail('bus.present', NODE, cfg, 'bus module not compiled in the all-features configuration')
        return
    check_next_frame(run, cx, cfg)
    check_send(run, cx, cfg)
    check_misc(run, cx, cfg)
    check_writers(run, cx, cfg)
