"""C20 — windowing yields the documented window shape and chunk schedule.

Hann / Rectangle formulas (E4, 2*pi bit-exact), Window::new phase step 1/(n-1) from phase 0, one phase step per item with
all channels equal, Windowed::next = one window item x one source frame, the Windower transition on the remaining length
L (Some iff bin <= L, chunk = frames[..bin], L' = L - hop if hop < L else 0), and the consistency rule: size_hint's
non-zero guard is the same predicate as next's Some guard and its count is the closed form (L - bin)/hop + 1 of that
transition (Appendix C.5)."""
from rules.common import *
from rules.C04 import STOP
from absint.scaled import float_fraction
import poly as P
import scalar as S

LEVEL = 'other'
TWO_PI = 0x401921fb54442d18
WR = "<dasp_signal::window::Windower<'a, F, W> as core::iter::traits::iterator::Iterator>::"
SL = 'core::slice::<impl [T]>::'


def rp(e):
    return (e.get('rpath') or e['path']) if e['kind'] == 'call' else None


def check_shapes(run, cx, cfg):
    fn = '<dasp_window::hann::Hann as dasp_window::Window<S>>::window'
    body = cx.body(fn)
    if body is None:
        run.fail('window.hann', fn, cfg, 'function not found')
    else:
        ps = returning(cx.paths(fn))
        bad = None
        if len(ps) != 1:
            bad = 'expected a single path'
        else:
            N = P.Normalizer()
            got = N(ps[0]['ret'])
            p = P.atom(('param', 1))
            arg = p * P.const(float_fraction(TWO_PI, 64))
            want = P.const(Fraction(1, 2)) * (P.const(1) - P.atom(('fn', 'cos', (arg.key(),))))
            if not (got == want):
                bad = 'window(p) is %r, expected 0.5*(1 - cos(2*pi*p)) with the constant bit-equal to 2*pi' % got
        run.check(bad is None, 'window.hann', fn, cfg, bad or '', where=where(body), sample='0.5*(1 - cos(6.283185307179586*p))')
    fn = '<dasp_window::rectangle::Rectangle as dasp_window::Window<S>>::window'
    body = cx.body(fn)
    if body is None:
        run.fail('window.rectangle', fn, cfg, 'function not found')
    else:
        ps = returning(cx.paths(fn))
        ok = len(ps) == 1 and unwrap_ident(ps[0]['ret']) == ('assoc', 'dasp_sample::FloatSample::IDENTITY') or \
            (len(ps) == 1 and unwrap_ident(ps[0]['ret'])[0] == 'assoc' and unwrap_ident(ps[0]['ret'])[2] == 'IDENTITY')
        run.check(ok, 'window.rectangle', fn, cfg, 'rectangle window must be the multiplicative identity everywhere', where=where(body))


from fractions import Fraction


def unwrap_ident(t):
    while t[0] == 'app' and t[1] in P.IDENT_APPS:
        t = t[2][0]
    return t


def window_new_ok(cx, t, n):
    """t == Window { phase: Phase { step: ConstHz { step: 1/(n-1) }, next: 0.0 }, .. }"""
    if not (t[0] == 'agg' and t[1][1] == 'dasp_signal::window::Window'):
        return 'not a Window value'
    ph = t[2][cx.field_index('dasp_signal::window::Window', 'phase')]
    if not (ph[0] == 'agg' and ph[1][1] == 'dasp_signal::Phase'):
        return 'phase is not constructed here'
    step = ph[2][cx.field_index('dasp_signal::Phase', 'step')]
    nxt = ph[2][cx.field_index('dasp_signal::Phase', 'next')]
    if not (nxt[0] == 'float' and fval(nxt) == 0.0):
        return 'phase must start at 0.0'
    if not (step[0] == 'agg' and step[1][1] == 'dasp_signal::ConstHz'):
        return 'step is not a ConstHz'
    N = P.Normalizer()
    got = N(step[2][0])
    want = P.const(1) / (N(n) - P.const(1))
    return None if got == want else 'phase step is %r, expected 1/(len - 1)' % got


def check_window_iter(run, cx, cfg):
    fn = 'dasp_signal::window::Window::<F, W>::new'
    body = cx.body(fn)
    if body is None:
        run.fail('window.new', fn, cfg, 'function not found')
    else:
        ps = returning(cx.paths(fn))
        why = window_new_ok(cx, ps[0]['ret'], ('param', 1)) if len(ps) == 1 else 'expected a single path'
        run.check(why is None, 'window.new', fn, cfg, why or '', where=where(body))
    fn = '<dasp_signal::window::Window<F, W> as core::iter::traits::iterator::Iterator>::next'
    body = cx.body(fn)
    if body is None:
        run.fail('window.next', fn, cfg, 'function not found')
    else:
        ps = returning(cx.paths(fn))
        bad = None
        if len(ps) != 1:
            bad = 'expected a single path'
        else:
            p = ps[0]
            pi = cx.field_index('dasp_signal::window::Window', 'phase')
            ni = cx.field_index('dasp_signal::Phase', 'next')
            old = ('field', self_field(pi), ni)
            steps = [(k, e) for k, e in call_events(p) if is_call(e, 'dasp_signal::Step', 'step')]
            wloc = (('P', ('param', 1)), (('f', pi), ('f', ni)))
            w = heap_writes(p).get(wloc)
            if len(steps) != 1 or w is None or not (w[0] == 'op' and w[1] == 'Rem' and w[2] == ('op', 'Add', old, ('ret', steps[0][0])) and w[3][0] == 'float' and fval(w[3]) == 1.0):
                bad = 'must advance the phase exactly once per item'
            else:
                r = p['ret']
                if not (r[0] == 'agg' and r[1][1] == 'core::option::Option' and r[1][2] == 1):
                    bad = 'must yield Some(frame)'
                else:
                    try:
                        cs = S.Scalar(cx, p).cases(r[2][0])
                        want = P.atom(('app', 'dasp_window::Window::window', (old,)))
                        ok = len(cs) == 1 and not cs[0][0] and [a for a in cs[0][1].atoms() if isinstance(a, tuple) and a[0] == 'app' and a[1] == 'dasp_window::Window::window' and a[2] == (old,)] \
                            and not [a for a in cs[0][1].atoms() if a == ('chan-index',)] and len(cs[0][1].atoms()) == 1
                        if not ok:
                            bad = 'every channel must carry W::window(phase before the step); is %s' % S.show_cases(cs)
                    except S.Unsupported as u:
                        bad = 'scalarisation failed: %s' % u
        run.check(bad is None, 'window.next', fn, cfg, bad or '', where=where(body))
    # Windowed::next
    fn = '<dasp_signal::window::Windowed<S, W> as core::iter::traits::iterator::Iterator>::next'
    body = cx.body(fn)
    if body is None:
        run.fail('windowed.next', fn, cfg, 'function not found')
    else:
        K = 'dasp_signal::window::Windowed'
        sg, wi = cx.field_index(K, 'signal'), cx.field_index(K, 'window')
        wn = '<dasp_signal::window::Window<F, W> as core::iter::traits::iterator::Iterator>::next'
        ps = returning(cx.paths(fn, stop=[wn], stop_trait_methods=STOP))
        bad = None
        if len(ps) != 1:
            bad = 'expected a single path'
        else:
            p = ps[0]
            evs = call_events(p)
            wn_ev = [(k, e) for k, e in evs if rp(e) == wn and e['args'][0] == ('ref', self_loc(wi))]
            maps = [(k, e) for k, e in evs if rp(e) == 'core::option::Option::<T>::map']
            if len(wn_ev) != 1 or len(maps) != 1 or maps[0][1]['args'][0] != ('ret', wn_ev[0][0]) or p['ret'] != ('ret', maps[0][0]) or len(evs) != 2:
                bad = 'must be window.next().map(closure)'
            else:
                clo = maps[0][1]['args'][1]
                wf = ('wf',)
                cps = returning(cx.closure_paths(clo, p, [wf], stop_trait_methods=STOP))
                ok = False
                if len(cps) == 1:
                    ce = call_events(cps[0])
                    ok = (len(ce) == 1 and is_call(ce[0][1], SIGNAL, 'next') and ce[0][1]['args'][0] == ('ref', self_loc(sg))
                          and cps[0]['ret'][0] == 'app' and cps[0]['ret'][1] == 'dasp_frame::Frame::mul_amp' and cps[0]['ret'][2] == (('ret', ce[0][0]), wf))
                if not ok:
                    bad = 'per item it must pull exactly one source frame and return frame.mul_amp(window frame)'
        run.check(bad is None, 'windowed.next', fn, cfg, bad or '', where=where(body))


def wsym(cx):
    K = 'dasp_signal::window::Windower'
    return tuple(self_field(cx.field_index(K, n)) for n in ('bin', 'hop', 'frames')), cx.field_index(K, 'frames')


def lin(cx, p, t):
    """affine view over symbols B (bin), H (hop), L (remaining frames)"""
    from absint.linear import Aff
    (b, h, fr), fi = wsym(cx)
    t = strip_epoch(t)
    if t == b:
        return Aff.sym('B')
    if t == h:
        return Aff.sym('H')
    if t[0] == 'int':
        return Aff.const(t[1])
    if t[0] == 'ret':
        e = p['events'][t[1]]
        if rp(e) == SL + 'len' and e['args'][0] == ('ref', (('P', fr), ())):
            return Aff.sym('L')
    if t[0] == 'op' and t[1] in ('Add', 'Sub'):
        a, c = lin(cx, p, t[2]), lin(cx, p, t[3])
        return None if a is None or c is None else (a + c if t[1] == 'Add' else a - c)
    return None


def guard_interval(cx, p):
    """(relation between B and L established by the path): returns 'le' if B <= L is entailed, 'gt' if B > L, None otherwise"""
    from absint.linear import Poly, Aff
    poly = Poly()
    for s in 'BHL':
        poly.ge0(Aff.sym(s))
    for c, v in cond_facts(p):
        if v[0] != 'bool' or c[0] != 'op' or c[1] not in ('Lt', 'Le', 'Gt', 'Ge', 'Eq', 'Ne'):
            continue
        a, b = lin(cx, p, c[2]), lin(cx, p, c[3])
        if a is None or b is None:
            continue
        op = c[1]
        if not v[1]:
            op = {'Lt': 'Ge', 'Le': 'Gt', 'Gt': 'Le', 'Ge': 'Lt', 'Eq': 'Ne', 'Ne': 'Eq'}[op]
        {'Lt': poly.lt, 'Le': poly.le, 'Gt': poly.gt, 'Ge': poly.ge, 'Eq': poly.eq, 'Ne': lambda a, b: None}[op](a, b)
    # `frames.get(..n)` is Some exactly when n <= frames.len()
    for k, e in call_events(p):
        if rp(e) == SL + 'get' and len(e['args']) == 2 and e['args'][1][0] == 'agg' and e['args'][1][1][1] == 'core::ops::range::RangeTo':
            (b_, h_, fr_), _fi = wsym(cx)
            n = lin(cx, p, e['args'][1][2][0])
            ln = Aff.sym('L') if e['args'][0] == ('ref', (('P', fr_), ())) else None
            d = dict(cond_facts(p)).get(('discr', ('ret', k)))
            if n is not None and ln is not None and d is not None and d[0] == 'int':
                (poly.le if d[1] == 1 else poly.gt)(n, ln)
        if e['kind'] == 'call' and rp(e) == SL + 'split_at_checked':
            # frames.split_at_checked(n): Some((front, back)) iff n <= len
            (b_, h_, fr_), _fi = wsym(cx)
            n = lin(cx, p, e['args'][1])
            ln = Aff.sym('L') if e['args'][0] == ('ref', (('P', fr_), ())) else None
            d = dict(cond_facts(p)).get(('discr', ('ret', k)))
            if n is not None and ln is not None and d is not None and d[0] == 'int':
                (poly.le if d[1] == 1 else poly.gt)(n, ln)
    return poly


def check_windower(run, cx, cfg):
    from absint.linear import Aff
    (b, h, fr), fi = wsym(cx)
    B, H, L = Aff.sym('B'), Aff.sym('H'), Aff.sym('L')
    fn = WR + 'next'
    body = cx.body(fn)
    if body is None:
        run.fail('windower.next', fn, cfg, 'function not found')
        return
    ps = returning(cx.paths(fn))
    bad = None
    kinds = set()
    for p in ps:
        poly = guard_interval(cx, p)
        r = p['ret']
        some = r[0] == 'agg' and r[1][1] == 'core::option::Option' and r[1][2] == 1
        w = heap_writes(p).get(self_loc(fi))
        if poly.entails_gt(B, L):
            kinds.add('none')
            if some or w is not None:
                bad = 'with fewer than `bin` frames left it must return None and keep its state: [%s]' % describe_path(p)[:300]
        elif poly.entails_le(B, L):
            if not some:
                bad = 'with at least `bin` frames left it must yield a chunk'
                break
            chunk = [(k, e) for k, e in call_events(p) if 'core::ops::index::Index' in rp(e) and e['args'][1][0] == 'agg' and e['args'][1][1][1] == 'core::ops::range::RangeTo'
                     and e['args'][0] == ('ref', (('P', fr), ())) and e['args'][1][2][0] == b]
            chunk_ref = ('ref', (('P', ('ret', chunk[0][0])), ())) if len(chunk) == 1 else None
            if not chunk:
                gets = [(k, e) for k, e in call_events(p) if rp(e) == SL + 'get' and e['args'][0] == ('ref', (('P', fr), ())) and e['args'][1][0] == 'agg'
                        and e['args'][1][1][1] == 'core::ops::range::RangeTo' and e['args'][1][2][0] == b]
                if len(gets) == 1 and dict(cond_facts(p)).get(('discr', ('ret', gets[0][0]))) == ('int', 1, 'isize'):
                    chunk = gets
                    chunk_ref = ('ref', (('P', ('field', ('variant', ('ret', gets[0][0]), 1), 0)), ()))
            if not chunk:
                # frames.split_at(bin).0
                sp = [(k, e) for k, e in call_events(p) if rp(e) == SL + 'split_at' and e['args'][0] == ('ref', (('P', fr), ())) and e['args'][1] == b]
                if len(sp) >= 1:
                    chunk = sp[:1]
                    chunk_ref = ('ref', (('P', ('field', ('ret', sp[0][0]), 0)), ()))
            if not chunk:
                # frames.split_at_checked(bin)?.0
                sp = [(k, e) for k, e in call_events(p) if rp(e) == SL + 'split_at_checked' and e['args'][0] == ('ref', (('P', fr), ())) and e['args'][1] == b
                      and dict(cond_facts(p)).get(('discr', ('ret', k))) == ('int', 1, 'isize')]
                if len(sp) >= 1:
                    chunk = sp[:1]
                    chunk_ref = ('ref', (('P', ('field', ('field', ('variant', ('ret', sp[0][0]), 1), 0), 0)), ()))
            if len(chunk) != 1:
                bad = 'the chunk must be frames[..bin]'
                break
            win = r[2][0]
            if not (win[0] == 'agg' and win[1][1] == 'dasp_signal::window::Windowed'):
                bad = 'must yield a Windowed value'
                break
            wv = win[2][cx.field_index('dasp_signal::window::Windowed', 'window')]
            why = window_new_ok(cx, wv, b)
            if why:
                bad = 'window of the chunk: ' + why
                break
            sig = win[2][cx.field_index('dasp_signal::window::Windowed', 'signal')]
            # signal = from_iter(chunk.iter().cloned())
            its = [(k, e) for k, e in call_events(p) if rp(e) == SL + 'iter' and e['args'][0] == chunk_ref]
            if not (sig[0] == 'agg' and sig[1][1] == 'dasp_signal::FromIterator') or len(its) != 1:
                bad = 'the chunk signal must iterate exactly frames[..bin]'
                break
            # remaining frames: L' = L - hop if hop < L else 0, whichever way the code spells it
            newlen = None
            if w is not None and w[0] == 'ref' and w[1][0][0] == 'P' and w[1][0][1][0] == 'ret':
                e = p['events'][w[1][0][1][1]]
                if 'core::ops::index::Index' in rp(e) and e['args'][0] == ('ref', (('P', fr), ())) and e['args'][1][0] == 'agg' \
                        and e['args'][1][1][1] == 'core::ops::range::RangeFrom':
                    s = lin(cx, p, e['args'][1][2][0])
                    if s is not None and poly.entails_le(s, L):
                        newlen = L - s
            elif w is not None and w[0] == 'ref' and w[1][0][0] == 'P' and not w[1][1] and w[1][0][1][0] == 'field' and w[1][0][1][2] == 1 and w[1][0][1][1][0] == 'ret' \
                    and rp(p['events'][w[1][0][1][1][1]]) == SL + 'split_at' and p['events'][w[1][0][1][1][1]]['args'][0] == ('ref', (('P', fr), ())):
                # frames.split_at(hop).1
                s = lin(cx, p, p['events'][w[1][0][1][1][1]]['args'][1])
                if s is not None and poly.entails_le(s, L):
                    newlen = L - s
            elif w is not None and w[0] == 'ref' and w[1][0][0] == 'P' and w[1][0][1][0] == 'promoted' and w[1][0][1][3].endswith('; 0]'):
                newlen = Aff.const(0)
            if newlen is None:
                bad = 'the remaining frames must become frames[hop..] or the empty slice (is %s)' % (short(w) if w else 'unchanged')
            else:
                q1 = poly.copy().lt(H, L)
                q2 = poly.copy().ge(H, L)
                ok1 = q1.unsat() or q1.entails_eq(newlen, L - H)
                ok2 = q2.unsat() or q2.entails_eq(newlen, 0)
                if not (ok1 and ok2):
                    bad = 'remaining length becomes %r; it must be L - hop when hop < L and 0 otherwise' % newlen
                if not q1.unsat():
                    kinds.add('advance')
                if not q2.unsat():
                    kinds.add('finish')
        else:
            bad = 'path not decided by bin <= remaining: [%s]' % describe_path(p)[:200]
        if bad:
            break
    if not bad and kinds != {'none', 'advance', 'finish'}:
        bad = 'transition lacks a case (has %s)' % sorted(kinds)
    run.check(bad is None, 'windower.next', fn, cfg, bad or '', where=where(body))
    # size_hint consistency
    fn = WR + 'size_hint'
    body = cx.body(fn)
    if body is None:
        run.fail('windower.size_hint', fn, cfg, 'function not found')
        return
    ps = returning(cx.paths(fn))
    bad = None
    for p in ps:
        poly = guard_interval(cx, p)
        r = p['ret']
        if not (r[0] == 'agg' and r[1][0] == 'tuple' and len(r[2]) == 2):
            bad = 'must return (lower, Option<upper>)'
            break
        lo, up = r[2]
        zero = lo == ('int', 0, 'usize') and up[0] == 'agg' and up[1][2] == 1 and up[2][0] == ('int', 0, 'usize')
        if zero:
            # reports "nothing left": must imply that next() returns None, i.e. bin > L
            if not poly.entails_gt(B, L):
                q = poly.copy().eq(B, L)
                wit = ' (e.g. remaining == bin: next() still yields one chunk)' if not q.unsat() else ''
                bad = 'reports (0, Some(0)) on a path where bin <= remaining is possible%s; the guard must be the predicate `bin <= remaining` of next()' % wit
                break
            continue
        # a non-zero hint: must be on bin <= L, and equal the closed form (L - bin)/hop + 1 (or unbounded for hop == 0)
        if not poly.entails_le(B, L):
            bad = 'reports a non-zero hint without bin <= remaining'
            break
        if poly.entails_eq(H, 0):
            if not (up[0] == 'agg' and up[1][2] == 0):
                bad = 'hop == 0 iterates forever: upper bound must be None'
            continue

        def closed(t):
            # (L - B) / H + 1
            t = strip_epoch(t)
            if t[0] == 'op' and t[1] == 'Add' and t[3] == ('int', 1, 'usize'):
                q = t[2]
                if q[0] == 'op' and q[1] == 'Div':
                    n, d = lin(cx, p, q[2]), lin(cx, p, q[3])
                    return n is not None and d is not None and n == L - B and d == H
            return False
        if not closed(lo) or not (up[0] == 'agg' and up[1][2] == 1 and closed(up[2][0])):
            bad = 'hint is (%s, %s); the number of chunks the transition of next() yields from L >= bin is (L - bin)/hop + 1' % (short(lo), short(up))
            break
    run.check(bad is None, 'windower.size_hint', fn, cfg, bad or '', where=where(body))


def run(run, tier, loadcfg):
    run.rule_text = 'one instance per (function x rule x configuration)'
    run.explanation = __doc__
    run.assumptions = ['floating-point rounding ignored in the Hann identity; Hann range/symmetry follow from the formula (paper)']
    for cfg in ['std-debug'] + (['nostd', 'std-release'] if tier == 'thorough' else []):
        fx_ = loadcfg(cfg, optional=(cfg == 'nostd'))
        if fx_ is None:
            continue
        from rules.C17 import _Merged      # the remainder fast path of the phase stepper, folded (see C17.merge_rem_fastpath)
        cx = _Merged(Ctx(fx_))
        check_shapes(run, cx, cfg)
        check_window_iter(run, cx, cfg)
        check_windower(run, cx, cfg)
        check_overrides(run, cx, cfg, 'window.inventory', lambda p: p.startswith('dasp_signal::window::'), evaluated={fn for _, fn, _, _ in run.instances}, minimum=4)
