"""C09 — graph processing runs exactly the upstream subgraph, once each, inputs first (wiring only).

Decided (E3): in `process`, reset(Reversed(&graph)) and move_to(node) precede the loop (per-call reset); the traversal is
advanced only by next(Reversed(&graph)) — the Reversed adaptor is present at both sites; per iteration exactly one
Node::process, on the weight of the node yielded by the traversal, with (&processor.inputs, &mut its own buffers);
inputs.clear() precedes the pushes of that iteration; each push is Input::new(&graph[in_n].buffers) for in_n drawn from
neighbors_directed(n, Incoming) and guarded by n != in_n; Processor::process forwards; Input::new has no other caller
and is not `pub`.  sources / sinks: direction constants, the filter keeps ids whose neighbour iterator is empty, and the
scanned index range must be bounded by node_bound() (API contract of NodeIndexable::from_index).
NOT decided: "exactly the upstream nodes, once each, inputs first" is petgraph's DfsPostOrder over Reversed; this check
verifies dasp's use of it, not the traversal itself."""
from rules.common import *
from rules.elemof import Den, rp
import mirutil

LEVEL = 'other'
PG = 'petgraph::visit::traversal::DfsPostOrder::<N, VM>::'
PROC = 'dasp_graph::Processor'
NODE = 'dasp_graph::node::Node'


def is_reversed_graph(t):
    return t[0] == 'agg' and t[1][0] == 'adt' and t[1][1] == 'petgraph::visit::reversed::Reversed' and t[2][0] in (('ref', (('P', ('param', 2)), ())), ('param', 2))


def check_process(run, cx, cfg):
    fn = 'dasp_graph::process'
    body = cx.body(fn)
    if body is None:
        run.fail('graph.process', fn, cfg, 'function not found')
        return
    bad, kinds = step_rule(cx, fn)
    run.check(bad is None, 'graph.process', fn, cfg, bad or '', where=where(body), sample=sorted(kinds))
    # Processor::process: the same step function (it forwards to process(), or process() forwards to it: both are seen
    # with the other inlined, and both take (processor, graph, node) in this order)
    fn = PROC + '::<G>::process'
    body = cx.body(fn)
    if body is not None:
        ps = returning(cx.paths(fn, stop=['dasp_graph::process']))
        ok = len(ps) == 1 and len(call_events(ps[0])) == 1 and rp(call_events(ps[0])[0][1]) == 'dasp_graph::process' \
            and [unre(a) for a in call_events(ps[0])[0][1]['args']] == [('param', 1), ('param', 2), ('param', 3)]
        why = 'Processor::process must forward (self, graph, node) to process()'
        if not ok:
            bad2, kinds2 = step_rule(cx, fn)
            ok = bad2 is None
            why += ', or be that step function itself: ' + (bad2 or '')
        run.check(ok, 'graph.processor-forwards', fn, cfg, why, where=where(body))
    # who may call Input::new: process() / Processor::process(), possibly through private helpers that only they reach
    callers, offenders = callers_confined(cx.facts, 'dasp_graph::node::Input::new', {'dasp_graph::process', PROC + '::<G>::process'})
    info = cx.facts.fns.get('dasp_graph::node::Input::new', {})
    run.check(not offenders and info.get('pub') is False, 'graph.input-who-may-call', 'dasp_graph::node::Input::new', cfg,
              'Input (a raw pointer + length) may only be built by process() (or its private helpers), from buffers that outlive the call: reachable from %s, pub=%s' % (sorted(offenders), info.get('pub')))
    run.check(len(callers) >= 1, 'graph.input-who-may-call', 'dasp_graph::node::Input::new', cfg + ':positive-control', 'matcher found no caller at all')


def step_rule(cx, fn):
    """(what is wrong | None, kinds of step seen) for the traversal loop of `fn(processor, graph, node)`"""
    di, ii = cx.field_index(PROC, 'dfs_post_order'), cx.field_index(PROC, 'inputs')
    dfs = ('ref', self_loc(di))
    inputs = ('ref', self_loc(ii))
    G = ('ref', (('P', ('param', 2)), ()))
    ps = normal_paths(cx.paths(fn))
    bad = None
    kinds = set()
    for p in ps:
        evs = call_events(p)
        names = [rp(e) for k, e in evs]
        resets = [(k, e) for k, e in evs if rp(e) == PG + 'reset']
        moves = [(k, e) for k, e in evs if rp(e) == PG + 'move_to']
        nexts = [(k, e) for k, e in evs if rp(e) == PG + 'next']
        first_loop = min([k for k, e in enumerate(p['events']) if e['kind'] == 'loop-enter'] or [10 ** 9])
        if len(resets) != 1 or resets[0][1]['args'][0] != dfs or not is_reversed_graph(resets[0][1]['args'][1]) or resets[0][0] > first_loop:
            bad = 'each call must first reset the traversal on Reversed(&graph) (visit map cleared per call)'
            break
        if len(moves) != 1 or moves[0][1]['args'] != [dfs, ('param', 3)] or not (resets[0][0] < moves[0][0] < first_loop):
            bad = 'the traversal must be moved to the requested node after the reset and before the loop'
            break
        if len(nexts) != 1 or nexts[0][1]['args'][0] != dfs or not is_reversed_graph(nexts[0][1]['args'][1]) or nexts[0][0] < first_loop:
            bad = 'the loop must be driven by dfs_post_order.next(Reversed(&graph)) (edge direction reversed at this site too)'
            break
        nk = nexts[0][0]
        got = dict(cond_facts(p)).get(('discr', ('ret', nk)))
        procs = [(k, e) for k, e in evs if is_call(e, NODE, 'process')]
        if got == ('int', 0, 'isize'):
            if procs or p['end'] != 'return':
                bad = 'when the traversal is finished nothing more may be processed'
            kinds.add('done')
            continue
        n = ('field', ('variant', ('ret', nk), 1), 0)
        nwm = [(k, e) for k, e in evs if rp(e) == 'petgraph::data::DataMapMut::node_weight_mut' and k > nk]
        clears = [(k, e) for k, e in evs if rp(e) == 'alloc::vec::Vec::<T, A>::clear' and k > nk]
        nbrs = [(k, e) for k, e in evs if e['name'] == 'neighbors_directed' and k > nk]
        pushes = [(k, e) for k, e in evs if rp(e) == 'alloc::vec::Vec::<T, A>::push' and k > nk]
        if len(nwm) != 1 or nwm[0][1]['args'] != [G, n]:
            bad = 'the node processed must be the one yielded by the traversal (graph.node_weight_mut(n))'
            break
        if len(clears) != 1 or clears[0][1]['args'][0] != inputs or len(nbrs) != 1 or clears[0][0] > nbrs[0][0]:
            bad = 'inputs.clear() must precede the collection of this node\'s inputs in every iteration'
            break
        a = nbrs[0][1]['args']
        if not (a[0] in (G, ('param', 2)) or unre(a[0]) == ('param', 2)) or a[1] != n or not (a[2][0] == 'agg' and a[2][1][3] == 'Incoming'):
            bad = 'inputs must be drawn from graph.neighbors_directed(n, Incoming) (is direction %s)' % (a[2][1][3] if a[2][0] == 'agg' else short(a[2]))
            break
        inner = [(k, e) for k, e in evs if e['name'] == 'next' and e.get('trait') == ITER and k > nbrs[0][0]]
        if len(inner) != 1:
            bad = 'expected one loop over the incoming neighbours'
            break
        ik = inner[0][0]
        more = dict(cond_facts(p)).get(('discr', ('ret', ik)))
        in_n = ('field', ('variant', ('ret', ik), 1), 0)
        if more == ('int', 1, 'isize'):
            # one neighbour: either skipped (self edge) or pushed
            eqs = [(k, e) for k, e in call_events(p, effectful_only=False) if e.get('trait') == 'core::cmp::PartialEq' and e['name'] in ('eq', 'ne') and k > ik]
            # the self-edge test may sit in a lazy `.filter(|&in_n| !(n == in_n))` on the neighbour iterator instead of the loop body
            filt = [(k, e) for k, e in evs if is_call(e, ITER, 'filter') and e['args'][0] == ('ret', nbrs[0][0]) and nbrs[0][0] < k < ik]
            if not eqs and len(filt) == 1 and filt[0][1]['args'][1][0] == 'agg':
                cps = returning(cx.closure_paths(filt[0][1]['args'][1], p, [('ref', (('L', 'cand', 0), ()))]))
                okf = False
                if len(cps) == 1 and not call_events(cps[0]):
                    r = cps[0]['ret']
                    neg = False
                    while r[0] == 'un' and r[1] == 'Not':
                        r, neg = r[2], not neg
                    if r[0] == 'app' and r[1] in ('core::cmp::PartialEq::eq', 'core::cmp::PartialEq::ne'):
                        keeps_other = (r[1].endswith('::ne')) != neg
                        ops = sorted(short(strip_epoch(deref(cps[0], x)) if x[0] == 'ref' else x) for x in r[2])
                        cand = short(('deref', ('ref', (('L', 'cand', 0), ()))))
                        okf = keeps_other and short(n) in ops and any('cand' in o for o in ops)
                if not okf:
                    bad = 'the filter on the neighbour iterator must keep exactly the neighbours that differ from the node itself'
                    break
                kinds.add('skip-self')
                same = ('bool', False)
                eqs = None
            elif len(eqs) != 1 or sorted(short(deref(p, x)) for x in eqs[0][1]['args']) != sorted([short(n), short(in_n)]):
                bad = 'every neighbour must be compared with the node itself (n == in_n) before being used as an input'
                break
            else:
                same = dict(cond_facts(p)).get(eqs[0][1]['result'])
            if same is None:
                bad = 'self-edge test not branched on'
                break
            is_self = (same[1] if eqs[0][1]['name'] == 'eq' else not same[1]) if eqs else False
            if is_self:
                if pushes:
                    bad = 'a node\'s own buffers are presented to it as an input (self edge not skipped)'
                kinds.add('skip-self')
            else:
                nw = [(k, e) for k, e in evs if e['name'] == 'node_weight' and e.get('trait') == 'petgraph::data::DataMap' and k > ik]
                news = [(k, e) for k, e in evs if rp(e) == 'dasp_graph::node::Input::new' and k > ik]
                ok = (len(nw) == 1 and nw[0][1]['args'][1] == in_n and unre(deref(p, nw[0][1]['args'][0]) if nw[0][1]['args'][0][1][0][0] == 'L' else nw[0][1]['args'][0]) == ('param', 2)
                      and len(pushes) == 1 and pushes[0][1]['args'][0] == inputs)
                if ok:
                    if news:
                        ok = len(news) == 1 and pushes[0][1]['args'][1] == ('ret', news[0][0])
                        src = news[0][1]['args'][0]
                    else:
                        # Input::new inlined: Input { buffers_ptr: as_ptr(slice), buffers_len: len(slice) }
                        v = pushes[0][1]['args'][1]
                        ok = v[0] == 'agg' and v[1][1] == 'dasp_graph::node::Input'
                        src = None
                        if ok:
                            pe = p['events'][v[2][0][1]] if v[2][0][0] == 'ret' else None
                            ok = pe is not None and rp(pe) == 'core::slice::<impl [T]>::as_ptr'
                            src = pe['args'][0] if ok else None
                    if ok and src is not None:
                        # src must be &graph.node_weight(in_n).expect(..).buffers (through Vec's Deref)
                        nd = 'dasp_graph::NodeData'
                        bi = cx.field_index(nd, 'buffers')
                        x = unre(src)
                        if x[0] == 'ret' and p['events'][x[1]]['name'] in ('deref', 'as_slice'):
                            x = p['events'][x[1]]['args'][0]
                        ok = x[0] == 'ref' and x[1][1] == (('f', bi),) and x[1][0][0] == 'P' and x[1][0][1][0] == 'ret'
                        if ok:
                            ex = p['events'][x[1][0][1][1]]
                            ok = rp(ex) in ('core::option::Option::<T>::expect', 'core::option::Option::<T>::unwrap') and ex['args'][0] == ('ret', nw[0][0])
                        if ok and not news:
                            ln = pushes[0][1]['args'][1][2][1]
                            le = p['events'][ln[1]] if ln[0] == 'ret' else None
                            ok = le is not None and rp(le) == 'core::slice::<impl [T]>::len' and le['args'][0] == pe['args'][0]
                if not ok:
                    bad = 'each other incoming neighbour must contribute exactly one Input::new(&graph[in_n].buffers) pushed onto processor.inputs: [%s]' % describe_path(p)[-400:]
                kinds.add('push')
        elif more == ('int', 0, 'isize'):
            # inputs collected: process the node once
            if len(procs) != 1:
                bad = 'exactly one Node::process per node yielded by the traversal (found %d)' % len(procs)
                break
            a = procs[0][1]['args']
            data = ('ret', [k for k, e in evs if rp(e) in ('core::option::Option::<T>::expect', 'core::option::Option::<T>::unwrap') and e['args'][0] == ('ret', nwm[0][0])][0])
            nd = 'dasp_graph::NodeData'
            bi, ni_ = cx.field_index(nd, 'buffers'), cx.field_index(nd, 'node')
            ok = a[0] == ('ref', (('P', data), (('f', ni_),)))
            d = Den(p)
            ok = ok and d.slice_of(a[1]) == ('vec', ('proj', ('param', 1), (('f', ii),))) and d.slice_of(a[2]) == ('vec', ('proj', d.of(data), (('f', bi),)))
            if not ok:
                bad = 'Node::process must receive (&processor.inputs, &mut this node\'s own buffers): gets (%s, %s, %s)' % tuple(short(x)[:80] for x in a)
            kinds.add('process')
        if bad:
            break
    if not bad and kinds != {'done', 'skip-self', 'push', 'process'}:
        bad = 'step function lacks cases (has %s)' % sorted(kinds)
    return bad, kinds


def unre(t):
    while t[0] == 'ref' and t[1][0][0] == 'P' and not t[1][1]:
        t = t[1][0][1]
    return t


def check_sources_sinks(run, cx, cfg):
    for name, direction in (('sources', 'Incoming'), ('sinks', 'Outgoing')):
        fn = 'dasp_graph::' + name
        body = cx.body(fn)
        if body is None:
            run.fail('graph.scan', fn, cfg, 'function not found')
            continue
        ps = returning(cx.paths(fn))
        bad_dir = bad_bound = bad_start = None
        bound_desc = ''
        if len(ps) != 1:
            bad_dir = 'expected a single path'
        else:
            p = ps[0]
            evs = call_events(p)
            maps = [(k, e) for k, e in evs if is_call(e, ITER, 'map')]
            fms = [(k, e) for k, e in evs if is_call(e, ITER, 'filter_map') or is_call(e, ITER, 'filter')]
            ids = [(k, e) for k, e in evs if e['name'] == 'node_identifiers']
            if ids and not maps and len(fms) == 1 and fms[0][1]['args'][0] == ('ret', ids[0][0]) and p['ret'] == ('ret', fms[0][0]):
                # alternative spelling: iterate the existing node identifiers directly (no index scan at all)
                maps = [(ids[0][0], None)]
            fused = False
            if not maps and len(fms) == 1 and fms[0][1]['args'][0][0] == 'agg' and fms[0][1]['args'][0][1][1] == 'core::ops::range::Range' and p['ret'] == ('ret', fms[0][0]):
                # (0..bound).filter_map(|ix| { let id = g.from_index(ix); .. }): the index conversion happens inside the one closure
                fused = True
                maps = [(fms[0][0], {'args': [fms[0][1]['args'][0], None]})]
            if maps and maps[0][1] is None:
                pass
            elif fused:
                pass
            elif len(maps) != 1 or len(fms) != 1 or fms[0][1]['args'][0] != ('ret', maps[0][0]) or p['ret'] != ('ret', fms[0][0]):
                bad_dir = 'must be (0..bound).map(from_index).filter_map(no neighbour in the given direction)'
            if not bad_dir:
                rng = maps[0][1]['args'][0] if maps[0][1] is not None else None
                if rng is None:
                    pass
                elif not (rng[0] == 'agg' and rng[1][1] == 'core::ops::range::Range' and rng[2][0] == ('int', 0, 'usize')):
                    bad_start = 'the index scan must start at 0 (is %s)' % short(rng)
                elif rng[2][1][0] != 'ret':
                    bound_desc = ':0..' + short(rng[2][1])
                    bad_bound = 'the scan bound %s is not node_bound()' % short(rng[2][1])
                else:
                    be = p['events'][rng[2][1][1]]
                    bound_desc = ':0..%s()' % be['name']
                    if be['name'] != 'node_bound':
                        bad_bound = ('scans indices 0..%s(): NodeIndexable::from_index is only defined below node_bound(), and for graphs with vacant indices '
                                     '(StableGraph after removals) node_count() < node_bound(), so existing nodes are missed and vacant indices are reported' % be['name'])
                # id closure: from_index(g, ix)
                c0 = returning(cx.closure_paths(maps[0][1]['args'][1], p, [('ix',)])) if (maps[0][1] is not None and not fused) else None
                ok = c0 is None or len(c0) == 1 and len(call_events(c0[0])) == 1 and call_events(c0[0])[0][1]['name'] == 'from_index' and call_events(c0[0])[0][1]['args'][1] == ('ix',)
                if not ok:
                    bad_dir = 'indices must be converted with g.from_index(ix)'
                # filter closure
                c1 = returning(cx.closure_paths(fms[0][1]['args'][1], p, [('ix',) if fused else ('id',)]))
                seen = set()
                for cp in c1:
                    ce = call_events(cp)
                    if fused:
                        # id := g.from_index(ix), computed first; from here on it plays the role of the closure argument
                        fi_ = [(k, e) for k, e in ce if e['name'] == 'from_index']
                        if len(fi_) != 1 or fi_[0][1]['args'][1] != ('ix',) or ce[0][0] != fi_[0][0]:
                            bad_dir = 'indices must be converted with g.from_index(ix)'
                            break
                        idt = ('ret', fi_[0][0])
                        ce = [(k, dict(e, args=[('id',) if a == idt else a for a in e['args']])) for k, e in ce if k != fi_[0][0]]
                        cp = dict(cp, ret=substitute(cp['ret'], idt, ('id',)) if cp['ret'] is not None else None)
                    nb = [(k, e) for k, e in ce if e['name'] == 'neighbors_directed']
                    nx = [(k, e) for k, e in ce if e['name'] == 'next' and e.get('trait') == ITER]
                    # (`filter` hands the predicate a reference to the id, `filter_map` the id itself)
                    if len(nb) != 1 or len(nx) != 1 or nb[0][1]['args'][1] not in (('id',), ('deref', ('id',))):
                        bad_dir = 'filter must examine neighbors_directed(id, %s).next()' % direction
                        break
                    dirn = nb[0][1]['args'][2]
                    if not (dirn[0] == 'agg' and dirn[1][3] == direction):
                        bad_dir = '%s() must look for neighbours in direction %s (uses %s)' % (name, direction, dirn[1][3] if dirn[0] == 'agg' else short(dirn))
                        break
                    cf = dict(cond_facts(cp))
                    D = ('discr', ('ret', nx[0][0]))
                    has = cf.get(D)
                    if has is None:
                        # the test spelled as a boolean first (`let none = it.next().is_none(); none.then(|| id)`)
                        for t_, when_true, when_false in ((('op', 'Eq', D, ('int', 0, 'isize')), 0, 1), (('op', 'Ne', D, ('int', 1, 'isize')), 0, 1),
                                                          (('op', 'Eq', D, ('int', 1, 'isize')), 1, 0), (('op', 'Ne', D, ('int', 0, 'isize')), 1, 0)):
                            if cf.get(t_) in (('bool', True), ('bool', False)):
                                has = ('int', when_true if cf[t_][1] else when_false, 'isize')
                    r = cp['ret']
                    if has is None and r in (('op', 'Eq', ('discr', ('ret', nx[0][0])), ('int', 0, 'isize')), ('op', 'Ne', ('discr', ('ret', nx[0][0])), ('int', 1, 'isize'))):
                        # `.next().is_none()` as the filter predicate: kept exactly when there is no such neighbour
                        seen.update(('keep', 'drop'))
                        continue
                    if has == ('int', 0, 'isize'):
                        if not (r[0] == 'agg' and r[1][2] == 1 and r[2][0] == ('id',)) and r != ('bool', True):
                            bad_dir = 'a node without such a neighbour must be kept'
                        seen.add('keep')
                    elif has == ('int', 1, 'isize'):
                        if not (r[0] == 'agg' and r[1][2] == 0) and r != ('bool', False):
                            bad_dir = 'a node with such a neighbour must be dropped'
                        seen.add('drop')
                if not bad_dir and seen != {'keep', 'drop'}:
                    bad_dir = 'filter lacks a case'
        run.check(bad_dir is None, 'graph.scan-direction', fn, cfg, bad_dir or '', where=where(body))
        run.check(bad_start is None, 'graph.index-scan-start', fn, cfg, bad_start or '', where=where(body))
        run.check(bad_bound is None, 'graph.index-scan-bound', fn, cfg + bound_desc, bad_bound or '', where=where(body))


def run(run, tier, loadcfg):
    if tier == 'thorough':
        import witness
        witness.check(run, 'c09', 1)
    run.rule_text = 'one instance per function x rule; process() is checked as a step function over all acyclic paths incl. generic loop iterations'
    run.explanation = __doc__
    run.assumptions = ['petgraph DfsPostOrder / Reversed / neighbors_directed behave as documented (the traversal itself is not verified)',
                       'dasp_graph links the registry copies of the sibling crates']
    cfg = 'std-debug'
    cx = Ctx(loadcfg(cfg))
    check_process(run, cx, cfg)
    check_sources_sinks(run, cx, cfg)
    # a nested graph is graph processing too: GraphNode::process must copy the outer inputs in, run the inner processor on
    # the inner output node, copy the outputs out -- in this order (the C16 rule, filed here as a dependency), or a graph
    # that contains one does not equal its functional evaluation
    from report import Prefixed
    from rules import C16
    C16.check_graph_node(Prefixed(run, 'dep.C16.'), cx, cfg)
