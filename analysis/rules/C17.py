"""C17 — oscillators and noise sources keep phase and amplitude in range at any rate.

Phase protocol (starts at 0, returns the old phase, stores (old + step()) % rem with exactly one step(); step = hz/rate
for ConstHz and one pull / rate for Hz), waveform formulas sine = sin(2 pi p) (2 pi bit-exact), saw = 1 - 2p, square =
select(p < 0.5, 1, -1), ranges by interval evaluation of the extracted formulas on p in [0, 1), noise = pure function of
the seed with the masked hash scaled into [-1, 1], seed += 1; simplex: wrap constant 2^16, every table index goes through
`as u8` (< 256); rigorous bound of 0.395*|n0 + n1| <= 1 from the extracted polynomial (exact Sturm-based
maximisation over x0 in [0, 1] at the vertices of the gradient magnitudes)."""
from fractions import Fraction

from rules.common import *
from rules.C04 import STOP
from absint.scaled import float_fraction
from absint import poly1d
import poly as P

LEVEL = 'other'
TWO_PI = 0x401921fb54442d18
PH = 'dasp_signal::Phase'


def fl(t, v):
    return t[0] == 'float' and fval(t) == v


def merge_rem_fastpath(ps):
    """`if 0.0 <= x && x < r { x } else { x % r }` stores exactly `x % r`: for a float x with 0 <= x < r the remainder
    fmod(x, r) is x itself (also for -0.0; a NaN fails both tests and takes the `%`).  The short-circuit test gives three
    paths -- {A false}, {A true, B false}: store x % r;  {A true, B true}: store x -- that differ in nothing else.  They are
    merged into the one path `store x % r` that the rules below describe; anything else is left as it is (and fails there)."""
    def tests(p):
        """[(index, which, X, R, truth)] for conds of the form 0.0 <= X / X >= 0.0 (which = 'lo') and X < R ('hi')"""
        out = []
        for i, (c, val) in enumerate(cond_facts(p)):
            if c[0] != 'op' or val[0] != 'bool':
                continue
            if c[1] == 'Le' and fl(c[2], 0.0):
                out.append((i, 'lo', c[3], None, val[1]))
            elif c[1] == 'Ge' and fl(c[3], 0.0):
                out.append((i, 'lo', c[2], None, val[1]))
            elif c[1] == 'Lt':
                out.append((i, 'hi', c[2], c[3], val[1]))
            elif c[1] == 'Gt':
                out.append((i, 'hi', c[3], c[2], val[1]))
        return out
    groups = {}
    for n, p in enumerate(ps):
        ts = tests(p)
        X = None
        for v in p['writes'].values():
            if v[0] == 'op' and v[1] == 'Rem':
                X = v[2]
            elif any(t[1] == 'hi' and t[2] == v and t[4] for t in ts) and any(t[1] == 'lo' and t[2] == v and t[4] for t in ts):
                X = v
        if X is None:
            continue
        mine = [t for t in ts if t[2] == X]
        lo = [t for t in mine if t[1] == 'lo']
        hi = [t for t in mine if t[1] == 'hi']
        if len(lo) > 1 or len(hi) > 1:
            continue
        shape = (lo[0][4] if lo else None, hi[0][4] if hi else None)
        R = hi[0][3] if hi else None
        drop = {t[0] for t in mine}
        rem = None
        w2 = {}
        for loc, v in p['writes'].items():
            if shape == (True, True) and v == X:
                v = ('op', 'Rem', X, R)
            if v[0] == 'op' and v[1] == 'Rem' and v[2] == X:
                rem = v[3]
            w2[loc] = v
        if rem is None or (R is not None and R != rem):
            continue
        key = repr((X, rem, [c for i, c in enumerate(p['conds']) if i not in drop], [(e['kind'], e.get('path'), e.get('args')) for e in p['events']],
                    sorted(w2.items(), key=repr), p['ret'], p['end']))
        groups.setdefault(key, []).append((n, shape, drop, w2))
    out = list(ps)
    gone = set()
    for key, g in groups.items():
        shapes = sorted((s for _, s, _, _ in g), key=repr)
        if len(g) == 3 and (True, True) in shapes and ((False, None) in shapes and (True, False) in shapes or (None, False) in shapes and (False, True) in shapes):
            n0, _, drop, w2 = g[0]
            q = dict(ps[n0])
            q['conds'] = [c for i, c in enumerate(q['conds']) if i not in drop]
            q['writes'] = w2
            out[n0] = q
            gone |= {n for n, _, _, _ in g[1:]}
    return [p for n, p in enumerate(out) if n not in gone]


class _Merged:
    """the rule context with the remainder fast path folded (see merge_rem_fastpath)"""

    def __init__(self, cx):
        self._cx = cx

    def __getattr__(self, name):
        return getattr(self._cx, name)

    def paths(self, *a, **kw):
        return merge_rem_fastpath(self._cx.paths(*a, **kw))


def check_phase(run, cx, cfg):
    si, ni = cx.field_index(PH, 'step'), cx.field_index(PH, 'next')
    fn = PH + '::<S>::next_phase_wrapped_to'
    body = cx.body(fn)
    if body is None:
        run.fail('phase.step', fn, cfg, 'function not found')
    else:
        ps = returning(cx.paths(fn))
        ok = False
        if len(ps) == 1:
            p = ps[0]
            steps = [(k, e) for k, e in call_events(p) if is_call(e, 'dasp_signal::Step', 'step') and e['args'][0] == ('ref', self_loc(si))]
            w = heap_writes(p).get(self_loc(ni))
            old = self_field(ni)
            ok = (len(steps) == 1 and len(call_events(p)) == 1 and p['ret'] == old
                  and w == ('op', 'Rem', ('op', 'Add', old, ('ret', steps[0][0])), ('param', 2)))
        run.check(ok, 'phase.step', fn, cfg, 'must return the current phase and store (phase + step()) %% rem with exactly one step(): [%s]' % '; '.join(describe_path(p) for p in ps),
                  where=where(body), sample='phase\' = (phase + step) % rem  =>  phase in [0, rem) for step >= 0 (fmod of a non-negative dividend)')
    fn = PH + '::<S>::next_phase'
    body = cx.body(fn)
    if body is not None:
        ps = returning(cx.paths(fn, stop=[PH + '::<S>::next_phase_wrapped_to']))
        ok = len(ps) == 1 and len(call_events(ps[0])) == 1 and call_events(ps[0])[0][1]['args'][0] in (('ref', (('P', ('param', 1)), ())), ('param', 1)) \
            and fl(call_events(ps[0])[0][1]['args'][1], 1.0) and ps[0]['ret'] == ('ret', call_events(ps[0])[0][0])
        run.check(ok, 'phase.wrap-1', fn, cfg, 'next_phase must wrap at exactly 1.0', where=where(body))
    fn = 'dasp_signal::phase'
    body = cx.body(fn)
    if body is not None:
        ps = returning(cx.paths(fn))
        ok = len(ps) == 1 and ps[0]['ret'][0] == 'agg' and ps[0]['ret'][2][si] == ('param', 1) and fl(ps[0]['ret'][2][ni], 0.0)
        run.check(ok, 'phase.starts-at-0', fn, cfg, 'phase() must start at 0.0', where=where(body))
    else:
        run.fail('phase.starts-at-0', fn, cfg, 'function not found')
    # step sources
    fn = '<dasp_signal::ConstHz as dasp_signal::Step>::step'
    body = cx.body(fn)
    if body is not None:
        ps = returning(cx.paths(fn))
        ok = len(ps) == 1 and ps[0]['ret'] == self_field(cx.field_index('dasp_signal::ConstHz', 'step')) and not heap_writes(ps[0])
        run.check(ok, 'step.const', fn, cfg, 'ConstHz::step must return its stored step', where=where(body))
    fn = 'dasp_signal::Rate::const_hz'
    body = cx.body(fn)
    if body is not None:
        ps = returning(cx.paths(fn))
        ok = False
        if len(ps) == 1 and ps[0]['ret'][0] == 'agg' and ps[0]['ret'][1][1] == 'dasp_signal::ConstHz':
            N = P.Normalizer()
            ok = N(ps[0]['ret'][2][0]) == P.atom(('param', 2)) / P.atom(('field', ('param', 1), cx.field_index('dasp_signal::Rate', 'hz')))
        run.check(ok, 'step.const-hz', fn, cfg, 'const_hz must store hz / rate', where=where(body))
    fn = '<dasp_signal::Hz<S> as dasp_signal::Step>::step'
    body = cx.body(fn)
    if body is not None:
        K = 'dasp_signal::Hz'
        hi_, ri_ = cx.field_index(K, 'hz'), cx.field_index(K, 'rate')
        ps = returning(cx.paths(fn, stop_trait_methods=STOP))
        ok = False
        if len(ps) == 1:
            nx = [(k, e) for k, e in call_events(ps[0]) if is_call(e, SIGNAL, 'next')]
            ok = len(nx) == 1 and nx[0][1]['args'][0] == ('ref', self_loc(hi_)) and ps[0]['ret'] == ('op', 'Div', ('ret', nx[0][0]), ('field', self_field(ri_), cx.field_index('dasp_signal::Rate', 'hz')))
        run.check(ok, 'step.hz', fn, cfg, 'Hz::step must pull exactly one frequency frame and divide it by the rate', where=where(body))


def interval_of(rf, box):
    """sound interval enclosure of a polynomial RF (denominator 1) over a box atom -> (lo, hi)"""
    lo = hi = Fraction(0)
    for mon, c in rf.n.t.items():
        mlo = mhi = Fraction(1)
        for a, e in mon:
            alo, ahi = box[a]
            for _ in range(e):
                cands = [mlo * alo, mlo * ahi, mhi * alo, mhi * ahi]
                mlo, mhi = min(cands), max(cands)
        cands = [mlo * c, mhi * c]
        lo += min(cands)
        hi += max(cands)
    return lo, hi


def check_waveforms(run, cx, cfg):
    for name in ('Sine', 'Saw', 'Square'):
        K = 'dasp_signal::' + name
        fn = '<%s<S> as dasp_signal::Signal>::next' % K
        body = cx.body(fn)
        if body is None:
            run.fail('wave.formula', fn, cfg, 'function not found')
            continue
        pi = cx.field_index(K, 'phase')
        ni = cx.field_index(PH, 'next')
        old = ('field', self_field(pi), ni)
        ps = returning(cx.paths(fn, stop_trait_methods=STOP))
        bad = None
        N = P.Normalizer()
        p_at = P.atom(old)
        for p in ps:
            steps = [(k, e) for k, e in call_events(p) if is_call(e, 'dasp_signal::Step', 'step')]
            w = heap_writes(p).get((('P', ('param', 1)), (('f', pi), ('f', ni))))
            if len(steps) != 1 or w != ('op', 'Rem', ('op', 'Add', old, ('ret', steps[0][0])), ('float', 0x3ff0000000000000, 64)):
                bad = 'must advance the phase exactly once per frame, wrapping at 1.0'
                break
        if not bad:
            if name == 'Sine':
                want = P.atom(('fn', 'sin', ((p_at * P.const(float_fraction(TWO_PI, 64))).key(),)))
                if len(ps) != 1 or not (N(ps[0]['ret']) == want):
                    bad = 'must be sin(2*pi*phase) with the constant bit-equal to 2*pi (is %r)' % (N(ps[0]['ret']) if ps else None)
            elif name == 'Saw':
                want = P.const(1) - P.const(2) * p_at
                got = N(ps[0]['ret']) if len(ps) == 1 else None
                if got is None or not (got == want):
                    bad = 'must be 1 - 2*phase (is %r)' % got
                else:
                    lo, hi = interval_of(got, {old: (Fraction(0), Fraction(1))})
                    if lo < -1 or hi > 1:
                        bad = 'range over phase in [0,1] is [%s, %s], outside [-1, 1]' % (lo, hi)
            else:
                seen = {}
                for p in ps:
                    for c, v in cond_facts(p):
                        if c[0] == 'op' and c[1] in ('Lt', 'Ge') and c[2] == old and fl(c[3], 0.5) and v[0] == 'bool':
                            first = v[1] if c[1] == 'Lt' else not v[1]
                            seen[first] = p['ret']
                if set(seen) != {True, False} or not fl(seen[True], 1.0) or not fl(seen[False], -1.0) or len(ps) != 2:
                    bad = 'must be +1 for phase < 0.5 and -1 otherwise (is %s)' % {k: short(v) for k, v in seen.items()}
        run.check(bad is None, 'wave.formula', fn, cfg, bad or '', where=where(body))


def check_noise(run, cx, cfg):
    fn = 'dasp_signal::Noise::next_sample'
    body = cx.body(fn)
    if body is None:
        run.fail('noise.range-purity', fn, cfg, 'function not found')
        return
    sd = cx.field_index('dasp_signal::Noise', 'seed')
    ps = returning(cx.paths(fn))
    bad = None
    if len(ps) != 1:
        bad = 'expected a single path'
    else:
        p = ps[0]
        seed = self_field(sd)
        r = p['ret']
        pat = ('op', 'Sub', '?one', ('op', 'Div', ('cast', 'IntToFloat', ('op', 'BitAnd', '?h', '?mask'), 'f64'), '?div'))
        m = match(pat, r)
        if m is None:
            # the masked value narrowed to an unsigned type that holds every masked value before it becomes a float
            # (`f64::from((h & 0x7fff_ffff) as u32)`): the same number
            pat2 = ('op', 'Sub', '?one', ('op', 'Div', ('cast', 'IntToFloat', ('cast', 'IntToInt', ('op', 'BitAnd', '?h', '?mask'), '?ty'), 'f64'), '?div'))
            m2 = match(pat2, r)
            if m2 is not None and m2['?mask'][0] == 'int' and m2['?ty'] in ('u8', 'u16', 'u32', 'u64', 'u128', 'usize') \
                    and 0 <= m2['?mask'][1] < (1 << {'u8': 8, 'u16': 16, 'u32': 32, 'u64': 64, 'u128': 128, 'usize': 64}[m2['?ty']]):
                m = m2
        if m is None:
            bad = 'must be 1.0 - (hash & mask) as f64 / divisor (is %s)' % short(r)[:200]
        else:
            one, mask, div = m['?one'], m['?mask'], m['?div']
            if not fl(one, 1.0) or mask[0] != 'int' or div[0] != 'float':
                bad = 'constants are not literals'
            else:
                top = Fraction(mask[1]) / float_fraction(div[1], 64)
                lo, hi = 1 - top, Fraction(1)
                if mask[1] < 0 or lo < -1:
                    bad = 'output range is [%s, %s]: mask %#x / divisor %s exceeds 2' % (float(lo), float(hi), mask[1], fval(div))
                rest = substitute(m['?h'], seed, ('SEED',))
                impure = [s for s in subterms(rest) if s[0] in ('param', 'ret', 'phi', 'phiheap', 'derefh', 'deref', 'mut', 'assoc', 'promoted', 'uninit')]
                if impure:
                    bad = bad or 'the hash depends on %s, not only on the seed' % short(impure[0])
        w = heap_writes(p)
        if not bad and (set(w) != {self_loc(sd)} or w[self_loc(sd)] != ('op', 'Add', seed, ('int', 1, 'u64'))):
            bad = 'the only state change must be seed += 1'
        if not bad and [e for k, e in call_events(p)]:
            bad = 'calls %s: noise must be a pure function of the seed' % ev_key(call_events(p)[0][1])
    run.check(bad is None, 'noise.range-purity', fn, cfg, bad or '', where=where(body), sample='1 - (hash(seed) & 0x7fffffff)/2^30 in [-1 + 2^-30, 1]; seed += 1')


def check_simplex(run, cx, cfg, tier):
    K = 'dasp_signal::NoiseSimplex'
    fn = K + '::<S>::next_sample'
    body = cx.body(fn)
    if body is None:
        run.fail('simplex.structure', fn, cfg, 'function not found')
        return
    pi, ni = cx.field_index(K, 'phase'), cx.field_index(PH, 'next')
    old = ('field', self_field(pi), ni)
    ps = returning(cx.paths(fn, stop_trait_methods=STOP))
    bad = None
    for p in ps:
        w = heap_writes(p).get((('P', ('param', 1)), (('f', pi), ('f', ni))))
        steps = [(k, e) for k, e in call_events(p) if is_call(e, 'dasp_signal::Step', 'step')]
        if len(steps) != 1 or w is None or w[0] != 'op' or w[1] != 'Rem' or w[2] != ('op', 'Add', old, ('ret', steps[0][0])) or not fl(w[3], 65536.0):
            bad = 'must advance the phase once, wrapping at 2^16'
            break
        for e in p['events']:
            if e['kind'] == 'assert' and e['msg'] == 'BoundsCheck':
                idx = e['ops'][1]
                okidx = idx[0] == 'cast' and idx[3] == 'usize' and idx[2][0] == 'cast' and idx[2][3] == 'u8'
                # ... or through a mask with 0xFF (the same residue for a two's-complement integer)
                inner = idx[2] if idx[0] == 'cast' and idx[3] == 'usize' else idx
                if not okidx and inner[0] == 'op' and inner[1] == 'BitAnd' and (inner[3] in (('int', 255, 'i64'), ('int', 255, 'usize'), ('int', 255, 'i32'), ('int', 255, 'u64'))
                                                                                or inner[2][0] == 'int' and inner[2][1] == 255):
                    okidx = True
                ln = e['ops'][0]
                if not okidx or not (ln[0] == 'int' and ln[1] == 256):
                    bad = 'a permutation-table index is not reduced through `as u8` (index %s, table length %s)' % (short(idx)[:80], short(ln))
    # no arithmetic overflow check can fire: the phase lies in [0, 65536), so floor(phase) + 1 <= 65536 must fit the integer
    # type the corner coordinate is computed in (with debug assertions an overflow is a panic, not an output in [-1, 1])
    WIDE = ('i32', 'u32', 'i64', 'u64', 'i128', 'u128', 'isize', 'usize')
    if not bad:
        for p in cx.paths(fn, stop_trait_methods=STOP):
            for e in p['events']:
                if e['kind'] == 'assert' and str(e['msg']).startswith('Overflow'):
                    c = e['cond']
                    a = c[2] if c[0] == 'ovf' else None
                    okov = (a is not None and c[1] == 'Add' and c[3][0] == 'int' and c[3][1] == 1 and a[0] == 'cast' and a[1] == 'FloatToInt' and a[3] in WIDE
                            and a[2][0] == 'app' and a[2][1].rsplit('::', 1)[-1] in ('floor', 'floorf64'))
                    if not okov:
                        bad = 'an overflow check (%s on %s) can fire for a phase in [0, 65536): with debug assertions the call panics instead of returning a sample' % (e['msg'], short(c)[:120])
            if bad:
                break
    nb = sum(1 for e in (ps[0]['events'] if ps else []) if e['kind'] == 'assert' and e['msg'] == 'BoundsCheck')
    if not bad and nb < 2:
        bad = 'expected two table look-ups'
    run.check(bad is None, 'simplex.structure', fn, cfg, bad or '', where=where(body))
    if bad:
        return
    # ---- rigorous amplitude bound from the extracted polynomial
    X0 = ('x0',)
    FLOOR = ('floor',)
    worst = Fraction(0)
    npoly = 0
    try:
        for p in ps:
            def leaf(t, p=p):
                if t == old:
                    return P.atom(X0) + P.atom(FLOOR)
                if t[0] == 'cast' and t[1] == 'IntToFloat' and t[2][0] == 'cast' and t[2][1] == 'FloatToInt':
                    inner = t[2][2]
                    if inner[0] == 'app' and inner[1].rsplit('::', 1)[-1] in ('floor', 'floorf64') and inner[2][0] == old:
                        return P.atom(FLOOR)
                if t[0] == 'cast' and t[1] == 'IntToFloat' and t[2][0] == 'op' and t[2][1] == 'BitAnd' and t[2][3][0] == 'int' and t[2][3][1] == 7:
                    # (the hash masked to its low three bits, in whatever integer type it is carried: a magnitude in [0, 7])
                    return P.atom(('g', repr(t[2][2])[:0] + str(hash(t[2][2]) % 1000003)))
                return None
            N = P.Normalizer(leaf=leaf)
            rf = N(p['ret'])
            if not (rf.d == P.Poly.const(1)):
                raise ValueError('not a polynomial')
            gs = sorted(a for a in rf.atoms() if isinstance(a, tuple) and a[0] == 'g')
            others = [a for a in rf.atoms() if a != X0 and a not in gs]
            if others:
                raise ValueError('unexpected atom %s' % (others[0],))
            # linear in each gradient magnitude g in [0, 7]: extremes at the vertices
            import itertools
            for vertex in itertools.product((0, 7), repeat=len(gs)):
                env = dict(zip(gs, vertex))
                coeffs = {}
                for mon, c in rf.n.t.items():
                    deg = 0
                    k = c
                    for a, e in mon:
                        if a == X0:
                            deg += e
                        else:
                            if e != 1:
                                raise ValueError('not linear in a gradient')
                            k *= env[a]
                    coeffs[deg] = coeffs.get(deg, 0) + k
                poly = [coeffs.get(i, Fraction(0)) for i in range(max(coeffs) + 1)] if coeffs else []
                worst = max(worst, poly1d.max_abs(poly, 0, 1))
                npoly += 1
    except (ValueError, KeyError) as e:
        run.unproven('simplex.bound', fn, cfg, 'cannot extract the noise polynomial: %s' % e, where=where(body))
        return
    run.check(worst <= 1 and npoly >= 4, 'simplex.bound', fn, cfg, 'sup |0.395*(n0+n1)| over x0 in [0,1] and all gradients is %s > 1' % float(worst), where=where(body),
              sample={'rigorous sup of |output|': float(worst), 'polynomials maximised': npoly})


def check_wrappers(run, cx, cfg):
    """Signal::next of the oscillator types forward to the formula (Noise, NoiseSimplex, Phase)"""
    for K, meth in (('dasp_signal::Noise', 'next_sample'), ('dasp_signal::NoiseSimplex', 'next_sample'), (PH, 'next_phase')):
        gen = '<S>' if K != 'dasp_signal::Noise' else ''
        fn = '<%s%s as dasp_signal::Signal>::next' % (K, gen)
        target = '%s%s::%s' % (K, '::<S>' if gen else '', meth)
        body = cx.body(fn)
        if body is None:
            run.fail('wave.forward', fn, cfg, 'function not found')
            continue
        ps = returning(cx.paths(fn, stop=[target]))
        ok = len(ps) == 1 and len(call_events(ps[0])) == 1 and (call_events(ps[0])[0][1].get('rpath') or call_events(ps[0])[0][1]['path']) == target \
            and ps[0]['ret'] == ('ret', call_events(ps[0])[0][0])
        run.check(ok, 'wave.forward', fn, cfg, 'next must be %s()' % meth, where=where(body))


def run(run, tier, loadcfg):
    run.rule_text = 'one instance per (function x rule x configuration)'
    run.explanation = __doc__
    run.assumptions = ['|sin| <= 1 (library)', 'f64 `%` of a non-negative finite dividend by rem > 0 lies in [0, rem)', 'long-run floating-point drift of the phase is not decided',
                       'frequency / rate are finite and non-negative (the statement\'s domain)']
    for cfg in ['std-debug'] + (['nostd', 'std-release'] if tier == 'thorough' else []):
        fx_ = loadcfg(cfg, optional=(cfg == 'nostd'))
        if fx_ is None:
            continue
        cx = _Merged(Ctx(fx_))
        check_phase(run, cx, cfg)
        check_waveforms(run, cx, cfg)
        check_noise(run, cx, cfg)
        check_simplex(run, cx, cfg, tier)
        check_wrappers(run, cx, cfg)
