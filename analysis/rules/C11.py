"""C11 — windowed RMS equals the true RMS of the last N frames in every configuration (formula conformance).

Decided (E3 + E4 scalarisation): next_squared pushes x*x (x the float-converted frame), adds THE SAME term to the
running sum, subtracts THE RETURN of that push, clamps the result at zero, and outputs sum'/N with N = window.len();
next / current apply the square root exactly once, next_squared does not; reset zeroes every slot and the sum; the
signal adaptor is rms.next(signal.next()); the square root is the platform sqrt (std) or, in no_std, the exponent-halving
bit trick whose bias constant must be bit-equal to 1.0 of THAT float type.  With C06 (push returns the value pushed N
pushes earlier) the sum is the windowed sum of squares; the relative error of the bit trick is <= 6.07 % (Appendix C.6).
Not decided: the rounding-error bound of the running sum over long histories."""
from rules.common import *
from rules.C04 import STOP
import poly as P
import scalar as S

LEVEL = 'other'
RB = ('dasp_ring_buffer::',)
RMS = 'dasp_rms::Rms'
PUSH = 'dasp_ring_buffer::Fixed::<S>::push'
LEN = 'dasp_ring_buffer::Fixed::<S>::len'


def rp(e):
    return (e.get('rpath') or e['path']) if e['kind'] == 'call' else None


def check_next_squared(run, cx, cfg):
    fn = RMS + '::<F, S>::next_squared'
    body = cx.body(fn)
    if body is None:
        run.fail('rms.next_squared', fn, cfg, 'function not found')
        return
    wi, si = cx.field_index(RMS, 'window'), cx.field_index(RMS, 'square_sum')
    ps = returning(cx.paths(fn, opaque_prefixes=RB))
    bad = None
    sample = None
    if len(ps) != 1:
        bad = 'expected a single path'
    else:
        p = ps[0]
        sc = S.Scalar(cx, p)
        pushes = [(k, e) for k, e in call_events(p) if rp(e) == PUSH and e['args'][0] == ('ref', self_loc(wi))]
        lens = [(k, e) for k, e in call_events(p) if rp(e) == LEN and e['args'][0] == ('ref', self_loc(wi))]
        try:
            if len(pushes) != 1:
                bad = 'must push exactly one value into the window'
            else:
                x = S.ch(('param', 2))
                pushed = sc.cases(pushes[0][1]['args'][1])
                if not S.cases_equal(pushed, [((), x * x)]):
                    bad = 'the value pushed into the window is %s, expected the square x*x of the float-converted frame' % S.show_cases(pushed)
                else:
                    old = S.ch(('ret', pushes[0][0]))
                    sum0 = S.ch(self_field(si))
                    d = sum0 + x * x - old
                    w = heap_writes(p).get(self_loc(si))
                    if w is None:
                        bad = 'the running sum is not updated'
                    else:
                        got = sc.cases(w)
                        want = [((('<', d),), P.const(0)), ((('>=', d),), d)]
                        if not S.cases_equal(got, want):
                            bad = 'running sum becomes %s; expected max(sum + x*x - evicted, 0) with the SAME square that was pushed and the value RETURNED by that push' % S.show_cases(got)
                        elif len(lens) < 1:
                            bad = 'divisor is not window.len()'
                        else:
                            n = P.atom(('ret', lens[-1][0]))
                            out = sc.cases(p['ret'])
                            want_out = [(c, v / n) for c, v in want]
                            if not S.cases_equal(out, want_out):
                                bad = 'output is %s, expected (updated sum) / window.len()' % S.show_cases(out)
                            sample = {'pushed': S.show_cases(pushed), 'sum\'': S.show_cases(got), 'out': S.show_cases(out)}
                            if any(a[0] == 'fn' for c, v in out for a in v.atoms() if isinstance(a, tuple)):
                                bad = bad or 'next_squared must not take a square root'
        except S.Unsupported as u:
            run.unproven('rms.next_squared', fn, cfg, 'scalarisation failed: %s' % u, where=where(body))
            return
    run.check(bad is None, 'rms.next_squared', fn, cfg, bad or '', where=where(body), sample=sample)


def check_sqrt_placement(run, cx, cfg):
    wi, si = cx.field_index(RMS, 'window'), cx.field_index(RMS, 'square_sum')
    for name, inner in (('next', RMS + '::<F, S>::next_squared'), ('current', RMS + '::<F, S>::calc_rms_squared')):
        fn = RMS + '::<F, S>::' + name
        body = cx.body(fn)
        if body is None:
            run.fail('rms.sqrt-once', fn, cfg, 'function not found')
            continue
        ps = returning(cx.paths(fn, stop=[inner], opaque_prefixes=RB))
        bad = None
        if len(ps) != 1:
            bad = 'expected a single path'
        else:
            p = ps[0]
            calls = [(k, e) for k, e in call_events(p) if rp(e) == inner]
            if len(calls) != 1 or unre(calls[0][1]['args'][0]) != ('param', 1) or (name == 'next' and calls[0][1]['args'][1] != ('param', 2)):
                bad = 'must call %s(self%s) exactly once' % (inner.rsplit('::', 1)[-1], ', frame' if name == 'next' else '')
            else:
                try:
                    sc = S.Scalar(cx, p)
                    got = sc.cases(p['ret'])
                    v = S.ch(('ret', calls[0][0]))
                    want = [((), P.atom(('fn', 'sqrt', (v.key(),))))]
                    if not S.cases_equal(got, want):
                        bad = 'result is %s, expected sample_sqrt applied exactly once to each channel of the mean square' % S.show_cases(got)
                except S.Unsupported as u:
                    bad = 'scalarisation failed: %s' % u
        run.check(bad is None, 'rms.sqrt-once', fn, cfg, bad or '', where=where(body))
    # calc_rms_squared = sum / len
    fn = RMS + '::<F, S>::calc_rms_squared'
    body = cx.body(fn)
    if body is not None:
        ps = returning(cx.paths(fn, opaque_prefixes=RB))
        bad = None
        if len(ps) != 1:
            bad = 'expected a single path'
        else:
            p = ps[0]
            lens = [(k, e) for k, e in call_events(p) if rp(e) == LEN and e['args'][0] == ('ref', self_loc(wi))]
            try:
                got = S.Scalar(cx, p).cases(p['ret'])
                want = [((), S.ch(self_field(si)) / P.atom(('ret', lens[0][0])))] if lens else None
                if want is None or not S.cases_equal(got, want):
                    bad = 'mean square is %s, expected square_sum / window.len()' % S.show_cases(got)
            except S.Unsupported as u:
                bad = 'scalarisation failed: %s' % u
        run.check(bad is None, 'rms.mean', fn, cfg, bad or '', where=where(body))


def unre(t):
    while t[0] == 'ref' and t[1][0][0] == 'P' and not t[1][1]:
        t = t[1][0][1]
    return t


def check_reset_new(run, cx, cfg):
    wi, si = cx.field_index(RMS, 'window'), cx.field_index(RMS, 'square_sum')
    fn = RMS + '::<F, S>::reset'
    body = cx.body(fn)
    if body is None:
        run.fail('rms.reset', fn, cfg, 'function not found')
    else:
        ps = normal_paths(cx.paths(fn, opaque_prefixes=RB))
        bad = None
        kinds = set()
        eq = lambda t: t[0] == 'assoc' and t[2] == 'EQUILIBRIUM'
        for p in ps:
            loops = iterator_loops(p)
            fe = foreach_assignments(cx, p) if not loops else []
            if len(fe) == 1 and p['end'] == 'return':
                # window.iter_mut().for_each(|slot| *slot = EQUILIBRIUM)
                it, val, _k = fe[0]
                src = p['events'][it[1]] if it[0] == 'ret' else None
                if not src or rp(src) != 'dasp_ring_buffer::Fixed::<S>::iter_mut' or src['args'][0] != ('ref', self_loc(wi)):
                    bad = 'must iterate window.iter_mut() (every slot)'
                elif not eq(val):
                    bad = 'each slot must be set to EQUILIBRIUM'
                else:
                    w = heap_writes(p).get(self_loc(si))
                    if w is None or not eq(w):
                        bad = 'the running sum must be set to EQUILIBRIUM after the loop'
                kinds.update(('slot', 'sum'))
                if bad:
                    break
                continue
            if not loops:
                bad = 'expected a loop over the window'
                break
            # one pass over window.iter_mut(), or over both halves of window.slices_mut() (chained, or one loop each)
            covers = [slot_cover(p, l['iter'], ('ref', self_loc(wi))) for l in loops]
            if any(c is None for c in covers) or (p['end'] == 'return' and not covers_all(covers)):
                bad = 'must iterate window.iter_mut() (every slot)'
                break
            nk = loops[-1]['next']
            d = dict(cond_facts(p)).get(('discr', ('ret', nk)))
            if d == ('int', 1, 'isize'):
                el = ('field', ('variant', ('ret', nk), 1), 0)
                w = p['writes'].get((('P', el), ()))
                if w is None or not eq(w):
                    bad = 'each slot must be set to EQUILIBRIUM'
                kinds.add('slot')
            elif d == ('int', 0, 'isize') and p['end'] == 'return':
                w = heap_writes(p).get(self_loc(si))
                if w is None or not eq(w):
                    bad = 'the running sum must be set to EQUILIBRIUM after the loop'
                kinds.add('sum')
        if not bad and kinds != {'slot', 'sum'}:
            bad = 'missing case'
        run.check(bad is None, 'rms.reset', fn, cfg, bad or '', where=where(body))
    fn = RMS + '::<F, S>::new'
    body = cx.body(fn)
    if body is not None:
        ps = returning(cx.paths(fn))
        ok = len(ps) == 1 and ps[0]['ret'][0] == 'agg' and ps[0]['ret'][2][wi] == ('param', 1) and ps[0]['ret'][2][si][0] == 'assoc' and ps[0]['ret'][2][si][2] == 'EQUILIBRIUM'
        run.check(ok, 'rms.new', fn, cfg, 'new must keep the given window and start the running sum at EQUILIBRIUM', where=where(body))
    if cfg != 'nostd' or cx.body('<dasp_signal::rms::Rms<S, D> as dasp_signal::Signal>::next') is not None:
        fn = '<dasp_signal::rms::Rms<S, D> as dasp_signal::Signal>::next'
        body = cx.body(fn)
        if body is None:
            run.fail('rms.signal-adaptor', fn, cfg, 'function not found')
        else:
            K = 'dasp_signal::rms::Rms'
            sg, rm = cx.field_index(K, 'signal'), cx.field_index(K, 'rms')
            ps = returning(cx.paths(fn, stop_trait_methods=STOP, stop=[RMS + '::<F, S>::next']))
            ok = False
            if len(ps) == 1:
                evs = call_events(ps[0])
                ok = (len(evs) == 2 and is_call(evs[0][1], SIGNAL, 'next') and evs[0][1]['args'][0] == ('ref', self_loc(sg)) and rp(evs[1][1]) == RMS + '::<F, S>::next'
                      and evs[1][1]['args'] == [('ref', self_loc(rm)), ('ret', evs[0][0])] and ps[0]['ret'] == ('ret', evs[1][0]))
            run.check(ok, 'rms.signal-adaptor', fn, cfg, 'must be rms.next(signal.next()) with exactly one pull', where=where(body))


ONE = {32: 0x3f800000, 64: 0x3ff0000000000000}


def check_sqrt(run, cx, cfg):
    for w in (32, 64):
        ty = 'f%d' % w
        fn = '<%s as dasp_sample::FloatSample>::sample_sqrt' % ty
        target = 'dasp_sample::ops::%s::sqrt' % ty
        body = cx.body(fn)
        if body is None:
            run.fail('sqrt.dispatch', fn, cfg, 'function not found')
            continue
        ps = returning(cx.paths(fn, stop=['dasp_sample::ops::f32::sqrt', 'dasp_sample::ops::f64::sqrt']))
        ok = len(ps) == 1 and len(call_events(ps[0])) == 1 and rp(call_events(ps[0])[0][1]) == target and call_events(ps[0])[0][1]['args'] == [('param', 1)] \
            and ps[0]['ret'] == ('ret', call_events(ps[0])[0][0])
        run.check(ok, 'sqrt.dispatch', fn, cfg, 'sample_sqrt for %s must call %s(self)' % (ty, target), where=where(body))
        sb = cx.body(target)
        if sb is None:
            run.fail('sqrt.body', target, cfg, 'function not found')
            continue
        ps = returning(cx.paths(target))
        bad = None
        if cfg != 'nostd':
            lib = ('std::%s::<impl %s>::sqrt' % (ty, ty), 'core::%s::<impl %s>::sqrt' % (ty, ty))
            ok = len(ps) == 1 and ps[0]['ret'][0] == 'app' and ps[0]['ret'][1] in lib and ps[0]['ret'][2] == (('param', 1),)
            if not ok:
                bad = 'std build must use the library square root of %s' % ty
        else:
            seen = set()
            for p in ps:
                g = None
                for c, v in cond_facts(p):
                    if c[0] == 'op' and c[1] in ('Ge', 'Lt') and c[2] == ('param', 1) and c[3][0] == 'float' and fval(c[3]) == 0.0 and v[0] == 'bool':
                        g = v[1] if c[1] == 'Ge' else not v[1]
                if g is None:
                    bad = 'path not decided by x >= 0.0'
                    break
                seen.add(g)
                r = p['ret']
                if not g:
                    if not (r[0] == 'float' and r[2] == w and fval(r) != fval(r)):
                        bad = 'negative input must yield NaN'
                else:
                    pat = ('app', 'core::%s::<impl %s>::from_bits' % (ty, ty), (('op', 'Shr', ('op', 'Add', ('app', 'core::%s::<impl %s>::to_bits' % (ty, ty), (('param', 1),), '_'), '?k'), '?s'),), '_')
                    m = match(pat, r)
                    if m is None:
                        bad = 'non-negative input must yield from_bits((to_bits(x) + K) >> 1); is %s' % short(r)
                    else:
                        K, sh = m['?k'], m['?s']
                        if sh[0] != 'int' or sh[1] != 1:
                            bad = 'the exponent must be halved by a shift of exactly 1'
                        elif K[0] != 'int' or K[1] != ONE[w]:
                            bad = ('the bias constant is %#x but bits(1.0%s) = %#x: the exponent is halved without re-biasing, so the result is off by about 2^(+-%d)'
                                   % (K[1] if K[0] == 'int' else -1, ty, ONE[w], (1023 - 127) // 2 if w == 64 else 0))
            if not bad and seen != {True, False}:
                bad = 'missing case'
        run.check(bad is None, 'sqrt.body', target, cfg, bad or '', where=where(sb),
                  sample={'bias': hex(ONE[w]), 'type': ty} if cfg == 'nostd' else None)


def check_precision(run, cx, cfg):
    """Precision discipline: every arithmetic step of the detector is performed in the frame's own float companion
    (a generic type in these bodies).  Fixed-width f32 may appear only as the exact cast of the window length; an
    f32 *operation* (e.g. a reciprocal formed in f32 and widened) would leak 2^-24 relative error into f64 frames,
    which the polynomial comparison cannot see."""
    n = 0
    for b in sorted(cx.facts.bodies_in('dasp_rms'), key=lambda b: b['path']):
        n += 1
        ar = fixed_float_arith(cx.facts, b)
        run.check(not ar, 'rms.precision', b['path'], cfg,
                  'performs %s in fixed-width %s (line %s): the mean square must be computed in the frame\'s float companion, not through a narrower intermediate' % (
                      ar[0][0], ar[0][1], ar[0][2]) if ar else '', where=where(b))
    run.floor('rms.precision', 'dasp_rms bodies (%s)' % cfg, n, 12)
    # positive control: the scanner sees fixed-width float arithmetic where it exists (calc_gain: -1.0 / n in f32)
    ctl = cx.body('dasp_envelope::detect::calc_gain')
    if ctl is not None:
        run.check(bool(fixed_float_arith(cx.facts, ctl)), 'rms.precision', 'positive-control:dasp_envelope::detect::calc_gain', cfg,
                  'the scanner no longer sees the f32 division in calc_gain: it may be blind')


def run(run, tier, loadcfg):
    run.rule_text = 'one instance per (function x rule x configuration: std-debug and nostd)'
    run.explanation = __doc__
    run.assumptions = ['amplitude abstraction: sample conversions are the identity, EQUILIBRIUM is 0 (C01/C02/C03)', 'ring buffer = delay line of its length (C06)',
                       'floating-point rounding is ignored in the polynomial identities']
    for cfg in ['std-debug', 'nostd']:
        fx_ = loadcfg(cfg, optional=(cfg == 'nostd'))
        if fx_ is None:
            continue
        cx = Ctx(fx_)
        check_next_squared(run, cx, cfg)
        check_sqrt_placement(run, cx, cfg)
        check_reset_new(run, cx, cfg)
        check_sqrt(run, cx, cfg)
        check_precision(run, cx, cfg)
        from rules import C06
        C06.check_used(run, cx, cfg, [b for b in fx_.bodies.values() if b['crate'] == 'dasp_rms'], 3, handed=C06.F)
