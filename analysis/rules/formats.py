"""The 14 sample formats (spec side, independent of the code)."""
WRAP_PATH = {
    'i24': 'dasp_sample::types::i24::I24', 'u24': 'dasp_sample::types::u24::U24',
    'i48': 'dasp_sample::types::i48::I48', 'u48': 'dasp_sample::types::u48::U48',
}
REP = {'i24': 'i32', 'u24': 'i32', 'i48': 'i64', 'u48': 'i64'}
INT_FORMATS = ['i8', 'i16', 'i24', 'i32', 'i48', 'i64', 'u8', 'u16', 'u24', 'u32', 'u48', 'u64']
FLOAT_FORMATS = ['f32', 'f64']
ALL_FORMATS = INT_FORMATS + FLOAT_FORMATS


def bits(f):
    return int(f[1:])


def unsigned(f):
    return f[0] == 'u'


def frange(f):
    b = bits(f)
    return (0, (1 << b) - 1) if unsigned(f) else (-(1 << (b - 1)), (1 << (b - 1)) - 1)


def offset(f):
    return (1 << (bits(f) - 1)) if unsigned(f) else 0


def rust_type(f):
    return WRAP_PATH.get(f, f)


def adt_ranges():
    return {WRAP_PATH[f]: frange(f) for f in WRAP_PATH}


def fmt_of_type(ty):
    for f, p in WRAP_PATH.items():
        if p == ty:
            return f
    if ty in ALL_FORMATS:
        return ty
    return None


def spec_int(src, dst, s):
    """The property's closed form: floor((s - off_src) * 2^(b_dst - b_src)) + off_dst."""
    a = s - offset(src)
    d = bits(dst) - bits(src)
    v = a << d if d >= 0 else a >> (-d)
    return v + offset(dst)
