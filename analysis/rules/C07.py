"""C07 — no heap allocation in steady state (sound may-allocate effect analysis, E2).

Architectural backbone: `core` cannot allocate.  A heap effect can therefore enter a dasp body only through
 (a) a call whose resolved callee lives in `alloc` / `std` (or another non-workspace crate),
 (b) a Drop terminator on a place whose type owns heap memory other than through a type parameter,
 (c) an owned value of a heap-owning type being produced / moved / dropped in the body,
 (d) a call through a type parameter or user closure — attributed to the user's storage / code by the property.
Every body of the eleven library crates is classified, in the std and the no_std configuration.  (a) must be on the
allowlist of non-allocating accessors (each confirmed by reading the library source) unless the body is on the frozen
exception table (bus, Rc fork creation, boxed slices, constructors / Clone bodies, dasp_graph constructors).  The graph
clause: in dasp_graph::process the only heap-capable calls are Vec::clear / Vec::push on processor.inputs and the petgraph
DfsPostOrder calls, and no body outside Processor::with_capacity assigns the Processor's fields.
A positive control requires the classifier to flag the known allocating sites inside the exception table."""
import re

from rules.common import *
import mirutil

LEVEL = 'other'
CRATES = ['dasp_sample', 'dasp_frame', 'dasp_slice', 'dasp_ring_buffer', 'dasp_peak', 'dasp_rms', 'dasp_envelope', 'dasp_interpolate', 'dasp_window', 'dasp_signal', 'dasp_graph']

# non-allocating items of alloc / std that hot-path code may call (reason each)
ALLOW = [
    (r'^std::f(32|64)::<impl f(32|64)>::', 'libm-backed float math: no allocation'),
    (r'^<alloc::vec::Vec<T, A> as core::ops::index::Index(Mut)?<I>>::index(_mut)?$', 'indexing an existing Vec'),
    (r'^<alloc::vec::Vec<T, A> as core::ops::deref::Deref(Mut)?>::deref(_mut)?$', 'borrowing a Vec as a slice'),
    (r'^<alloc::rc::Rc<T, A> as core::ops::deref::Deref>::deref$', 'borrowing through an existing Rc'),
    (r'^<alloc::boxed::Box<T, A> as core::ops::deref::Deref(Mut)?>::deref(_mut)?$', 'borrowing through an existing Box'),
    (r'^alloc::vec::Vec::<T, A>::(len|is_empty|as_slice|as_mut_slice|capacity|iter|iter_mut)$', 'read-only Vec accessors'),
    (r'^std::panicking::begin_panic$', 'panic path (message-carrying assert); not steady state'),
    (r'^std::rt::begin_panic', 'panic path'),
    (r'^alloc::vec::partial_eq::', 'comparing two existing Vecs element-wise'),
]
ALLOW_RE = [(re.compile(p), why) for p, why in ALLOW]

# heap-capable calls that are part of the documented amortised behaviour of dasp_graph::process (graph clause)
GRAPH_PROCESS = 'dasp_graph::process'
GRAPH_OK = {
    'alloc::vec::Vec::<T, A>::clear': 'keeps capacity; Input has no destructor',
    'alloc::vec::Vec::<T, A>::push': 'amortised: no reallocation once the processor has processed a graph of this size',
}
PETGRAPH_OK_PREFIX = ('petgraph::visit::traversal::DfsPostOrder::<N, VM>::', 'petgraph::visit::', 'petgraph::data::', "<&'a G as petgraph::", "<&'a mut G as petgraph::")

# frozen exception table: body path prefix -> reason (documented or inherently owning)
EXCEPTIONS = [
    ('dasp_signal::bus::', 'the bus is the documented allocating exception'),
    ('<dasp_signal::bus::', 'the bus is the documented allocating exception'),
    ('dasp_signal::Fork::<S, D>::by_rc', 'reference-counted fork branches allocate at creation'),
    ('dasp_slice::boxed::', 'boxed-slice conversions own / re-own heap memory by definition'),
    ('<alloc::boxed::Box<[', 'boxed-slice conversion impls'),
    ('dasp_slice::frame::fixed_size_array::<impl dasp_slice::boxed::', 'boxed-slice conversion impls'),
    ('dasp_graph::NodeData::<T>::new', 'constructor'),
    ('dasp_graph::NodeData::<dasp_graph::node::boxed::BoxedNode>::boxed', 'constructor'),
    ('dasp_graph::Processor::<G>::with_capacity', 'constructor (allocates the reusable traversal state)'),
    ('dasp_graph::node::boxed::BoxedNode::new', 'constructor'),
    ('dasp_graph::node::boxed::BoxedNodeSend::new', 'constructor'),
    ('<dasp_graph::node::boxed::BoxedNode as core::convert::', 'conversion from/to an existing Box (construction)'),
    ('<dasp_graph::node::boxed::BoxedNodeSend as core::convert::', 'conversion from/to an existing Box (construction)'),
]
CONSTRUCTION_TRAITS = ('core::clone::Clone', 'core::fmt::Debug', 'core::default::Default', 'core::iter::traits::collect::FromIterator', 'core::ops::drop::Drop')

HEAP_ADT_PREFIX = ('alloc::vec::Vec', 'alloc::boxed::Box', 'alloc::rc::Rc', 'alloc::sync::Arc', 'alloc::string::String', 'alloc::collections::', 'std::collections::')


def exception_reason(body):
    p = body['path']
    for pre, why in EXCEPTIONS:
        if p.startswith(pre):
            return why
    imp = body.get('impl') or {}
    if imp.get('trait') in CONSTRUCTION_TRAITS:
        return 'body of %s (construction / formatting / destruction, not a steady-state operation)' % imp['trait'].rsplit('::', 1)[-1]
    if body['kind'] == 'Closure':
        root = body.get('root', '')
        for pre, why in EXCEPTIONS:
            if root.startswith(pre):
                return why
    return None


class HeapTypes:
    def __init__(self, facts):
        self.facts = facts
        self.memo = {}

    def owns(self, ty, depth=0):
        """does a value of this type own heap memory other than through a type parameter?"""
        if ty in self.memo:
            return self.memo[ty]
        self.memo[ty] = False
        t = self.facts.ty(ty)
        k = t.get('k')
        r = False
        if k == 'adt':
            if t.get('is_box') or t['path'].startswith(HEAP_ADT_PREFIX):
                r = True
            elif depth < 6:
                a = self.facts.adts.get(t['path'])
                if a:
                    for v in a['variants']:
                        for f in v['fields']:
                            if self.owns(f['ty'], depth + 1):
                                r = True
                if not r:
                    # generic arguments that are concrete heap types (Option<Vec<..>>, Fixed<Vec<..>>, ...)
                    r = any(self.owns(x, depth + 1) for x in t['args'] if not x.startswith('const '))
        elif k in ('tuple',):
            r = any(self.owns(x, depth + 1) for x in t['elems'])
        elif k in ('array', 'slice'):
            r = self.owns(t['inner'], depth + 1)
        self.memo[ty] = r
        return r


def classify_body(cx, ht, body):
    """list of (kind, detail, line) heap-capable effects in one body (normal control flow only)"""
    out = []
    nb = mirutil.normal_blocks(body)
    for i in sorted(nb):
        blk = body['blocks'][i]
        t = blk['t']
        if t['k'] == 'call' and t['callee']:
            cal = t['callee']
            r = cal.get('res') or cal
            kr = r['krate']
            path = r['path']
            if kr in ('alloc', 'std'):
                if not any(rx.match(path) for rx, _ in ALLOW_RE):
                    out.append(('call', path, t.get('l')))
            elif kr not in ('core',) and not kr.startswith('dasp'):
                out.append(('foreign', path, t.get('l')))
            elif kr == 'core' and ('core::iter::adapters::fuse::' in path or path == 'core::iter::traits::iterator::Iterator::fuse'):
                # `Fuse` DROPS the iterator it wraps as soon as that iterator returns None: wrapped around the user's
                # (possibly heap-backed) source, the source is freed inside a steady-state `next()`
                out.append(('call', '%s (Fuse drops the wrapped iterator when it is exhausted: user storage freed in steady state)' % path, t.get('l')))
            elif kr == 'core':
                # `core` itself cannot allocate, but its generic functions and blanket impls run the code of the types they
                # are instantiated with: `iter.collect::<Vec<_>>()`, `x.into()` / `try_into()` to or from a Vec, `mem::take`
                # of a Vec.  A heap-owning type among the type arguments, or as the type of the value returned, makes the
                # call heap-capable.
                # A heap-owning type passed or returned BY VALUE makes the call heap-capable (a reference to one does not:
                # `ptr::from_mut(&mut node_data)`, `mem::swap(&mut a, &mut b)`).
                dest = t.get('dest')
                dty = body['locals'][dest[0]] if dest and not dest[1] else None
                by_value = [body['locals'][a[1][0]] for a in t['args'] if a[0] in ('cp', 'mv') and not a[1][1]]
                heap_args = [a for a in by_value if ht.owns(a)]
                if dty is not None and ht.owns(dty):
                    out.append(('call', '%s returning a %s' % (path, dty), t.get('l')))
                elif heap_args:
                    out.append(('call', '%s consuming a %s' % (path, heap_args[0]), t.get('l')))
        elif t['k'] == 'drop':
            if ht.owns(t['ty']):
                out.append(('drop', t['ty'], t.get('l')))
        for st in blk['s']:
            if st[0] != '=':
                continue
            place, rv = st[1], st[2]
            if place[1]:
                continue
            lty = body['locals'][place[0]]
            if not ht.owns(lty):
                continue
            # an owned heap value is produced / moved here (copies of a Box pointer out of a reference are MIR plumbing)
            if rv[0] == 'agg':
                out.append(('owned-value', 'builds a %s' % lty, st[3]))
            elif rv[0] == 'use' and rv[1][0] == 'mv':
                src = rv[1][1]
                if not src[1]:
                    out.append(('owned-value', 'moves a %s' % lty, st[3]))
    return out


def run(run, tier, loadcfg):
    run.rule_text = ('one instance per body of the eleven library crates per configuration; non-trivial = the body contains at least one call / drop / assignment that had to be classified')
    run.explanation = __doc__
    run.assumptions = ['`core` does not allocate', 'the allowlisted alloc/std accessors do not allocate (confirmed by reading)', 'calls through type parameters / user closures are the user\'s storage and code',
                       'petgraph\'s visit map / stack do not reallocate for a graph of unchanged size (paper amortisation argument)',
                       'registry copies of dasp_* linked by dasp_graph are the published 0.11.0 versions of the crates analysed here']
    total_controls = 0
    for cfg in ['std-debug', 'nostd']:
        facts = loadcfg(cfg, optional=(cfg == 'nostd'))
        if facts is None:
            continue
        cx = Ctx(facts)
        ht = HeapTypes(facts)
        nbodies = 0
        controls = 0
        # the documented reuse of processor-owned storage may be spread over private helpers that only process() reaches
        graph_group = confined_helpers(facts, GRAPH_PROCESS)
        for body in sorted(facts.bodies.values(), key=lambda b: b['path']):
            if body['crate'] not in CRATES:
                continue
            nbodies += 1
            effects = classify_body(cx, ht, body)
            why = exception_reason(body)
            fn = body['path']
            if why is not None:
                if effects:
                    controls += sum(1 for e in effects if e[0] == 'call')
                run.ok('heap.exception', fn, cfg, nontrivial=bool(effects),
                       sample={'reason': why, 'heap effects seen': [e[1] for e in effects][:4]} if effects and len(run.samples) < 12 else None)
                continue
            if fn in graph_group or body.get('root') in graph_group:
                bad = None
                for kind, detail, line in effects:
                    if kind == 'call' and detail in GRAPH_OK:
                        continue
                    if kind == 'foreign' and detail.startswith(PETGRAPH_OK_PREFIX):
                        continue
                    bad = '%s %s at line %s is not part of the documented reuse of processor-owned storage' % (kind, detail, line)
                    break
                run.check(bad is None, 'heap.graph-process', fn, cfg, bad or '', where=where(body), sample={'allowed': sorted(set(e[1] for e in effects))})
                continue
            if body['crate'] == 'dasp_graph':
                # petgraph calls (node_weight_mut, neighbors_directed, node_count, from_index) are part of the graph API and do not allocate
                effects = [e for e in effects if not (e[0] == 'foreign' and e[1].startswith(PETGRAPH_OK_PREFIX))]
            if effects:
                kind, detail, line = effects[0]
                what = {'call': 'calls %s, which can allocate / free heap memory' % detail,
                        'foreign': 'calls %s outside the workspace (not on the allowlist)' % detail,
                        'drop': 'drops a value of type %s, which owns heap memory (deallocation in steady state)' % detail,
                        'owned-value': '%s (an owned heap value is created or moved in a steady-state operation)' % detail}[kind]
                run.fail('heap.no-alloc', fn, '%s:%s' % (cfg, detail[:60]), what, where=where(body, line))
            else:
                run.ok('heap.no-alloc', fn, cfg, nontrivial=len(body['blocks']) > 1)
        run.floor('heap.no-alloc', 'bodies classified (%s)' % cfg, nbodies, 1500 if cfg == 'std-debug' else 1300)
        total_controls += controls
        # graph clause: Processor fields are only assigned by the constructor
        if cfg == 'std-debug':
            writers = set()
            for body in facts.bodies_in('dasp_graph'):
                for blk in body['blocks']:
                    for st in blk['s']:
                        if st[0] == '=' and st[1][1]:
                            base = facts.ty(body['locals'][st[1][0]])
                            while base.get('k') == 'ref':
                                base = facts.ty(base['inner'])
                            if base.get('k') == 'adt' and base['path'] == 'dasp_graph::Processor' and st[1][1][0] == '*' or \
                                    (base.get('k') == 'adt' and base['path'] == 'dasp_graph::Processor' and st[1][1][0] != '*'):
                                writers.add(body['path'])
                        if st[0] == '=' and st[2][0] == 'agg' and st[2][1][0] == 'adt' and st[2][1][1] == 'dasp_graph::Processor':
                            writers.add(body['path'])
            run.check(writers <= {'dasp_graph::Processor::<G>::with_capacity'}, 'heap.processor-storage', 'dasp_graph::Processor', cfg,
                      'the processor\'s reusable storage (inputs, traversal state) is replaced outside its constructor by %s' % sorted(writers - {'dasp_graph::Processor::<G>::with_capacity'}))
    # bus clause: "whose backlog nevertheless stops growing once its outputs are pulled in step" — structural part:
    # next_frame pops the front frame exactly when this output is the least reader (a lone output always is) and the
    # drop path trims; these are the C13 step-function rules, re-evaluated here because C07 states the clause too.
    facts = loadcfg('std-debug')
    if facts.body('dasp_signal::bus::SharedNode::<S>::next_frame') is not None:
        from rules import C13
        cxb = Ctx(facts)
        C13.check_next_frame(run, cxb, 'std-debug:bus-clause')
        # ... and the bookkeeping the pop decision relies on: a new output registers at the end of the backlog, a
        # dropped output's offset is removed (else it stays the least reader forever) and what nobody needs is trimmed
        C13.check_send(run, cxb, 'std-debug:bus-clause')
        C13.check_misc(run, cxb, 'std-debug:bus-clause', only={'drop', 'next'})
    # positive control: the classifier is not blind
    run.check(total_controls >= 20, 'heap.positive-control', 'exception table', 'all', 'the classifier flagged only %d allocating call sites inside the exception table (expected >= 20: Rc::new, VecDeque::push_back, BTreeMap::insert, Box::new, vec!, Box::from_raw ...): it may be blind' % total_controls,
              sample={'allocating call sites seen inside the exception table': total_controls})
