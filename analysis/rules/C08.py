"""C08 — the rate converter positions and consumes source frames exactly by the rate ratio.

Step-function conformance of Converter::next (generic loop iteration + exit), its exhaustion predicate, the ratio
constructors / setters as rational functions (E4), MulHz wiring, and the Floor / Linear interpolators (state update
order, blend polynomial l + (r - l) x).  Accumulator rounding and the frame counts are a paper step (Appendix C.4)."""
from rules.common import *
from rules.C04 import STOP
import poly as P

LEVEL = 'other'
CONV = 'dasp_signal::interpolate::Converter'
INTERP = 'dasp_interpolate::Interpolator'


def fconst(t, v):
    return t[0] == 'float' and fval(t) == v


ONE = ('float', 0x3ff0000000000000, 64)


def converter_trace(ps, si, ii, vi, ri):
    """Converter::next as guarded steps, for bodies whose advance loop is not literally `while v >= 1.0 { .. }` (a rotated
    loop behind an `if`):  every *advance* (pull one frame, hand it to the interpolator, v -= 1) must happen at a position
    V known to be >= 1.0, the *emit* (interpolate at X, v = X + ratio, return) at a position X known to be < 1.0 -- not
    `>= 1.0`, to be exact about NaN.  "Known" = a branch condition of the path, or, for the value a loop header starts
    an iteration with, the header invariant `v >= 1.0`: it must hold where the loop is entered and at every back edge."""
    vloc = self_loc(vi)

    def geq(p, X):
        for c, val in cond_facts(p):
            if c[0] == 'op' and c[1] in ('Ge', 'Lt') and fconst(c[3], 1.0) and c[2] == X and val[0] == 'bool':
                return val[1] if c[1] == 'Ge' else (not val[1])
        return None

    def header_value(n):
        return ('field', ('derefh', SELF, n), vi)

    inv = {}

    def invariant(h):
        if h not in inv:
            ok = True
            n = 0
            for q in ps:
                for e in q['events']:
                    if e['kind'] == 'loop-enter' and (e['header'], e['frame']) == h:
                        n += 1
                        ok = ok and geq(q, e.get('heap_before', {}).get(vloc, self_field(vi))) is True
                        hv = header_value(e['hv'])
                        if isinstance(q['end'], tuple) and q['end'][0] == 'back' and (q['end'][1], q['end'][2]) == h:
                            ok = ok and geq(q, heap_writes(q).get(vloc, hv)) is True
            inv[h] = ok and n > 0
        return inv[h]

    def justified(p, V):
        if geq(p, V) is True:
            return True
        for e in p['events']:
            if e['kind'] == 'loop-enter' and V == header_value(e['hv']):
                return invariant((e['header'], e['frame']))
        return False

    kinds = set()
    for p in ps:
        evs = call_events(p)
        w = heap_writes(p)
        if not set(w) <= {vloc, self_loc(si), self_loc(ii)}:
            return None, 'next() writes %s: only the position, the source and the interpolator may change' % sorted(short_loc(l) for l in set(w) - {vloc, self_loc(si), self_loc(ii)})
        pulls = [(k, e) for k, e in evs if is_call(e, SIGNAL, 'next')]
        nsf = [(k, e) for k, e in evs if is_call(e, INTERP, 'next_source_frame')]
        emit = [(k, e) for k, e in evs if is_call(e, INTERP, 'interpolate')]
        if len(evs) != len(pulls) + len(nsf) + len(emit) or len(pulls) > 1 or len(nsf) != len(pulls) or len(emit) > 1:
            return None, 'a pass is at most one advance and one emit: [%s]' % describe_path(p)
        V = None
        if pulls:
            (k0, e0), (k1, e1) = pulls[0], nsf[0]
            if not (k0 < k1 and e0['args'][0] == ('ref', self_loc(si)) and e1['args'] == [('ref', self_loc(ii)), ('ret', k0)] and (not emit or emit[0][0] > k1)):
                return None, 'an advance must be exactly interpolator.next_source_frame(source.next()): [%s]' % describe_path(p)
        if emit:
            k, e = emit[0]
            X = e['args'][1]
            if pulls:
                if not (X[0] == 'op' and X[1] == 'Sub' and X[3] == ONE):
                    return None, 'an advance must take exactly 1.0 off the position: [%s]' % describe_path(p)
                V = X[2]
            ok = (p['end'] == 'return' and e['args'][0] == ('ref', self_loc(ii)) and p['ret'] == ('ret', k) and geq(p, X) is False
                  and w.get(vloc) == ('op', 'Add', X, self_field(ri)) or (w.get(vloc) is not None and w[vloc][:3] == ('op', 'Add', X) and strip_epoch(w[vloc][3]) == self_field(ri)
                                                                             and p['end'] == 'return' and e['args'][0] == ('ref', self_loc(ii)) and p['ret'] == ('ret', k) and geq(p, X) is False))
            if not ok:
                return None, 'with v < 1.0 it must interpolate once at v, then add the ratio to v and return the interpolated frame: [%s]' % describe_path(p)
            kinds.add('emit')
        else:
            if not pulls or p['end'] == 'return':
                return None, 'a pass that neither advances nor emits: [%s]' % describe_path(p)
            wv = w.get(vloc)
            if not (wv is not None and wv[0] == 'op' and wv[1] == 'Sub' and wv[3] == ONE):
                return None, 'an advance must take exactly 1.0 off the position: [%s]' % describe_path(p)
            V = wv[2]
        if pulls:
            if strip_epoch(V) != self_field(vi) or not justified(p, V):
                return None, 'advances at a position not known to be >= 1.0: [%s]' % describe_path(p)
            kinds.add('advance')
    if kinds != {'advance', 'emit'}:
        return None, 'step function lacks a case (has %s)' % sorted(kinds)
    return kinds, None


def check_converter_next(run, cx, cfg):
    fn = '<%s<S, I> as dasp_signal::Signal>::next' % CONV
    body = cx.body(fn)
    if body is None:
        run.fail('converter.next', fn, cfg, 'function not found')
        return
    si, ii, vi, ri = (cx.field_index(CONV, n) for n in ('source', 'interpolator', 'interpolation_value', 'source_to_target_ratio'))
    ps = normal_paths(cx.paths(fn, stop_trait_methods=STOP + [(INTERP, 'interpolate'), (INTERP, 'next_source_frame')]))
    bad = None
    kinds = set()
    vloc = self_loc(vi)
    for p in ps:
        # the loop guard: v >= 1.0 on the generic header value
        guard = None
        v = None
        for c, val in cond_facts(p):
            if c[0] == 'op' and c[1] in ('Ge', 'Lt') and fconst(c[3], 1.0) and strip_epoch(c[2]) == self_field(vi) and val[0] == 'bool':
                guard = val[1] if c[1] == 'Ge' else (not val[1])
                v = c[2]
        if guard is None:
            bad = 'path not decided by `interpolation_value >= 1.0`: [%s]' % describe_path(p)
            break
        evs = call_events(p)
        w = heap_writes(p)
        if guard:
            # one iteration: pull one frame, hand it to the interpolator unmodified, v -= 1
            ok = (isinstance(p['end'], tuple) and len(evs) == 2 and is_call(evs[0][1], SIGNAL, 'next') and evs[0][1]['args'][0] == ('ref', self_loc(si))
                  and is_call(evs[1][1], INTERP, 'next_source_frame') and evs[1][1]['args'] == [('ref', self_loc(ii)), ('ret', evs[0][0])]
                  and w.get(vloc) == ('op', 'Sub', v, ('float', 0x3ff0000000000000, 64)))
            if not ok:
                bad = 'while v >= 1.0 one iteration must be exactly interpolator.next_source_frame(source.next()); v -= 1.0: [%s]' % describe_path(p)
            kinds.add('advance')
        else:
            ratio = self_field(ri)
            ok = (p['end'] == 'return' and len(evs) == 1 and is_call(evs[0][1], INTERP, 'interpolate') and evs[0][1]['args'][0] == ('ref', self_loc(ii))
                  and strip_epoch(evs[0][1]['args'][1]) == self_field(vi) and p['ret'] == ('ret', evs[0][0])
                  and w.get(vloc) is not None and w[vloc][0] == 'op' and w[vloc][1] == 'Add' and strip_epoch(w[vloc][2]) == self_field(vi)
                  # (the ratio may be read after the advance loop: the loop writes nothing but v and what it hands out by &mut, checked below)
                  and strip_epoch(w[vloc][3]) == ratio)
            if not ok:
                bad = 'with v < 1.0 it must interpolate once at v, then add the ratio to v and return the interpolated frame: [%s]' % describe_path(p)
            kinds.add('emit')
        if not bad and not set(w) <= {vloc, self_loc(si), self_loc(ii)}:
            bad = 'next() writes %s: only the position, the source and the interpolator may change' % sorted(short_loc(l) for l in set(w) - {vloc, self_loc(si), self_loc(ii)})
        if bad:
            break
    if not bad and kinds != {'advance', 'emit'}:
        bad = 'step function lacks a case (has %s)' % sorted(kinds)
    if bad:
        _, bad2 = converter_trace(ps, si, ii, vi, ri)
        bad = ('%s; as guarded steps: %s' % (bad, bad2)) if bad2 else None
    run.check(bad is None, 'converter.next', fn, cfg, bad or '', where=where(body), sample=[describe_path(p) for p in ps])
    # exhaustion predicate
    fn = '<%s<S, I> as dasp_signal::Signal>::is_exhausted' % CONV
    body = cx.body(fn)
    if body is None:
        run.fail('converter.is_exhausted', fn, cfg, 'function not found')
        return
    ps = returning(cx.paths(fn, stop_trait_methods=STOP))
    bad = None
    want = ('op', 'Ge', self_field(vi), ('float', 0x3ff0000000000000, 64))
    for p in ps:
        evs = call_events(p)
        srcq = [(k, e) for k, e in evs if is_call(e, SIGNAL, 'is_exhausted') and e['args'][0] == ('ref', self_loc(si))]
        facts_ = dict(cond_facts(p))
        r = p['ret']
        if len(srcq) == 1 and facts_.get(('ret', srcq[0][0])) == ('bool', False):
            if r != ('bool', False):
                bad = 'must be false while the source is live'
        elif len(srcq) == 1 and facts_.get(('ret', srcq[0][0])) == ('bool', True):
            if r != want and not (facts_.get(want) is not None and r == facts_[want]):
                bad = 'with the source exhausted it must be `interpolation_value >= 1.0`, is %s' % short(r)
        elif len(srcq) == 1 and r == ('op', 'BitAnd', ('ret', srcq[0][0]), want) or (len(srcq) == 1 and r == ('op', 'BitAnd', want, ('ret', srcq[0][0]))):
            pass
        elif facts_.get(want) == ('bool', False) and r == ('bool', False):
            pass
        elif facts_.get(want) == ('bool', True) and len(srcq) == 1 and r == ('ret', srcq[0][0]):
            pass
        else:
            bad = 'not of the form source.is_exhausted() && interpolation_value >= 1.0: [%s]' % describe_path(p)
        if bad:
            break
    run.check(bad is None and ps, 'converter.is_exhausted', fn, cfg, bad or 'no path', where=where(body))


def check_ratio_api(run, cx, cfg):
    si, ii, vi, ri = (cx.field_index(CONV, n) for n in ('source', 'interpolator', 'interpolation_value', 'source_to_target_ratio'))
    N = P.Normalizer()
    p3, p4 = P.atom(('param', 3)), P.atom(('param', 4))
    ctors = {'scale_playback_hz': p3, 'from_hz_to_hz': p3 / p4, 'scale_sample_hz': P.const(1) / p3}
    for name, want in ctors.items():
        fn = '%s::<S, I>::%s' % (CONV, name)
        body = cx.body(fn)
        if body is None:
            run.fail('converter.ctor', fn, cfg, 'function not found')
            continue
        ps = cx.paths(fn)
        rets = returning(ps)
        bad = None
        if not rets:
            bad = 'no returning path'
        for p in rets:
            r = p['ret']
            if not (r[0] == 'agg' and r[1][0] == 'adt' and r[1][1] == CONV):
                bad = 'does not construct a Converter'
                break
            f = r[2]
            if f[si] != ('param', 1) or f[ii] != ('param', 2):
                bad = 'source / interpolator are not the arguments'
            elif not fconst(f[vi], 0.0):
                bad = 'interpolation_value must start at 0.0 (is %s)' % short(f[vi])
            elif not (N(f[ri]) == want):
                bad = 'ratio is %r, expected %r' % (N(f[ri]), want)
            else:
                # the returning path must have established ratio > 0
                okc = False
                for c, v in cond_facts(p):
                    if c[0] == 'op' and c[1] == 'Gt' and fconst(c[3], 0.0) and N(c[2]) == want and v == ('bool', True):
                        okc = True
                    # (`!(ratio <= 0.0)` is NOT the same guard: it lets NaN through, and a NaN ratio never advances)
                if not okc:
                    bad = 'constructs the converter without having asserted ratio > 0 (a guard of the form !(ratio <= 0) admits NaN)'
            if bad:
                break
        if not bad and not [p for p in ps if p['end'] != 'return']:
            bad = 'no rejecting path for a non-positive scale'
        run.check(bad is None, 'converter.ctor', fn, cfg, bad or '', where=where(body), sample={'ratio': repr(want)})
    p2, p3 = P.atom(('param', 2)), P.atom(('param', 3))
    setters = {'set_playback_hz_scale': p2, 'set_hz_to_hz': p2 / p3, 'set_sample_hz_scale': P.const(1) / p2}
    for name, want in setters.items():
        fn = '%s::<S, I>::%s' % (CONV, name)
        body = cx.body(fn)
        if body is None:
            run.fail('converter.setter', fn, cfg, 'function not found')
            continue
        rets = returning(cx.paths(fn))
        bad = None
        for p in rets:
            w = heap_writes(p)
            if set(w) != {self_loc(ri)}:
                bad = 'must write the ratio field only (writes %s)' % [short_loc(l) for l in w]
            elif not (N(w[self_loc(ri)]) == want):
                bad = 'sets the ratio to %r, expected %r' % (N(w[self_loc(ri)]), want)
        run.check(bad is None and len(rets) == 1, 'converter.setter', fn, cfg, bad or 'expected one path', where=where(body), sample={'ratio': repr(want)})


def check_mulhz(run, cx, cfg):
    fn = '<dasp_signal::MulHz<S, M, I> as dasp_signal::Signal>::next'
    body = cx.body(fn)
    if body is None:
        run.fail('mulhz.next', fn, cfg, 'function not found')
        return
    K = 'dasp_signal::MulHz'
    sg, mu = cx.field_index(K, 'signal'), cx.field_index(K, 'mul_per_frame')
    setter = '%s::<S, I>::set_playback_hz_scale' % CONV
    ps = returning(cx.paths(fn, stop_trait_methods=STOP, stop=[setter]))
    ok = False
    if len(ps) == 1:
        evs = call_events(ps[0])
        ok = (len(evs) == 3 and is_call(evs[0][1], SIGNAL, 'next') and evs[0][1]['args'][0] == ('ref', self_loc(mu))
              and (evs[1][1].get('rpath') or evs[1][1]['path']) == setter and evs[1][1]['args'] == [('ref', self_loc(sg)), ('ret', evs[0][0])]
              and is_call(evs[2][1], SIGNAL, 'next') and evs[2][1]['args'][0] == ('ref', self_loc(sg)) and ps[0]['ret'] == ('ret', evs[2][0]))
    run.check(ok, 'mulhz.next', fn, cfg, 'must pull one control frame, pass it to set_playback_hz_scale, then pull the converter once: [%s]' % '; '.join(describe_path(p) for p in ps), where=where(body),
              sample=describe_path(ps[0]) if ps else None)


def check_interpolators(run, cx, cfg):
    # Floor
    K = 'dasp_interpolate::floor::Floor'
    li = cx.field_index(K, 'left')
    pre = '<%s<F> as %s>::' % (K, INTERP)
    for meth, chk in (('interpolate', lambda p: not call_events(p) and p['ret'] == self_field(li) and not heap_writes(p)),
                      ('next_source_frame', lambda p: heap_writes(p) == {self_loc(li): ('param', 2)}),
                      ('reset', lambda p: set(heap_writes(p)) == {self_loc(li)} and heap_writes(p)[self_loc(li)][0] == 'assoc' and heap_writes(p)[self_loc(li)][2] == 'EQUILIBRIUM')):
        fn = pre + meth
        body = cx.body(fn)
        if body is None:
            run.fail('floor.' + meth, fn, cfg, 'function not found')
            continue
        ps = returning(cx.paths(fn))
        run.check(len(ps) == 1 and chk(ps[0]), 'floor.' + meth, fn, cfg, 'Floor::%s deviates from {interpolate = left; next_source_frame: left <- frame; reset: left <- EQUILIBRIUM}: [%s]' % (
            meth, '; '.join(describe_path(p) for p in ps)), where=where(body))
    # Linear
    K = 'dasp_interpolate::linear::Linear'
    li, ri = cx.field_index(K, 'left'), cx.field_index(K, 'right')
    pre = '<%s<F> as %s>::' % (K, INTERP)
    fn = pre + 'next_source_frame'
    body = cx.body(fn)
    if body is None:
        run.fail('linear.next_source_frame', fn, cfg, 'function not found')
    else:
        ps = returning(cx.paths(fn))
        ok = len(ps) == 1 and heap_writes(ps[0]) == {self_loc(li): self_field(ri), self_loc(ri): ('param', 2)}
        run.check(ok, 'linear.next_source_frame', fn, cfg, 'must shift left <- (old) right, right <- frame: [%s]' % '; '.join(describe_path(p) for p in ps), where=where(body))
    fn = pre + 'reset'
    body = cx.body(fn)
    if body is not None:
        ps = returning(cx.paths(fn))
        w = heap_writes(ps[0]) if len(ps) == 1 else {}
        ok = set(w) == {self_loc(li), self_loc(ri)} and all(v[0] == 'assoc' and v[2] == 'EQUILIBRIUM' for v in w.values())
        run.check(ok, 'linear.reset', fn, cfg, 'reset must set both frames to EQUILIBRIUM', where=where(body))
    fn = pre + 'interpolate'
    body = cx.body(fn)
    if body is None:
        run.fail('linear.interpolate', fn, cfg, 'function not found')
        return
    ps = returning(cx.paths(fn))
    bad = None
    if len(ps) != 1:
        bad = 'expected a single path'
    else:
        p = ps[0]
        r = p['ret']
        if not (r[0] == 'app' and r[1] == 'dasp_frame::Frame::zip_map' and r[2][0] == self_field(li) and r[2][1] == self_field(ri)
                and r[2][2][0] == 'agg' and r[2][2][1][0] == 'closure'):
            bad = 'must be self.left.zip_map(self.right, closure) (is %s)' % short(r)
        else:
            l, rr = ('ch', 'l'), ('ch', 'r')
            cps = returning(cx.closure_paths(r[2][2], p, [l, rr]))
            if len(cps) != 1:
                bad = 'blend closure is not straight-line'
            else:
                cp = cps[0]
                N = P.Normalizer(resolve=lambda t: deref(cp, t) if t[0] == 'ref' else t)
                got = N(cp['ret'])
                L, R, X = P.atom(l), P.atom(rr), P.atom(('param', 2))
                want = L + (R - L) * X
                if not (got == want):
                    bad = 'blend is %r, expected l + (r - l)*x = %r' % (got, want)
                else:
                    # range discipline: the amplitude abstraction treats conversions as the identity on reals, which is only
                    # true inside the format's range.  Every conversion from a float into a sample format that may be an
                    # integer format must therefore receive a value that stays in [-1, 1] for l, r in [-1, 1], x in [0, 1].
                    rbad = conversion_ranges(cp, cp['ret'], N, {l: (-1, 1), rr: (-1, 1), ('param', 2): (0, 1)})
                    run.check(rbad is None, 'linear.blend-range', fn, cfg, rbad or '', where=where(body),
                              sample='every float->sample conversion inside the blend receives a convex combination of l and r')
    run.check(bad is None, 'linear.interpolate', fn, cfg, bad or '', where=where(body), sample='per channel: l + (r - l)*x as a polynomial identity over the reals')


CONV_APPS = ('dasp_sample::Sample::to_sample', 'dasp_sample::conv::ToSample::to_sample_', 'dasp_sample::conv::FromSample::from_sample_', 'dasp_sample::Sample::from_sample')


def conversion_ranges(path, term, N, box):
    """for every float -> (possibly integer) sample conversion inside `term`: the converted value, as a multilinear
    polynomial of the boxed atoms, must stay within [-1, 1] on the box (checked at the vertices, exact for multilinear forms)"""
    import itertools
    from fractions import Fraction
    for s in subterms(term):
        if s[0] != 'app' or s[1] not in CONV_APPS or len(s) < 4:
            continue
        targs = s[3]
        dst = targs[-1] if s[1] != 'dasp_sample::conv::FromSample::from_sample_' else targs[0]
        src = targs[0] if s[1] != 'dasp_sample::conv::FromSample::from_sample_' else targs[-1]
        if dst in ('f32', 'f64'):
            continue                      # conversions into a float format do not saturate on [-1, 1]-scaled data
        arg = s[2][0]
        if arg[0] == 'ref':
            arg = deref(path, arg)
        rf = N(arg)
        atoms = sorted(rf.atoms(), key=repr)
        if not (rf.d == P.Poly.const(1)) or any(a not in box for a in atoms):
            if src in ('f32', 'f64'):
                return 'cannot bound the value %r converted from %s to %s' % (rf, src, dst)
            continue
        if any(e > 1 for mon in rf.n.t for a, e in mon):
            return 'the value %r converted to a sample format is not multilinear; its range is not established' % rf
        lo = hi = None
        for vertex in itertools.product(*[box[a] for a in atoms]):
            env = dict(zip(atoms, vertex))
            v = Fraction(0)
            for mon, c in rf.n.t.items():
                k = c
                for a, e in mon:
                    k *= env[a]
                v += k
            lo = v if lo is None or v < lo else lo
            hi = v if hi is None or v > hi else hi
        if lo is not None and (lo < -1 or hi > 1):
            return ('a float value with range [%s, %s] (%r for l, r in [-1, 1], x in [0, 1]) is converted to the sample format %s: integer formats saturate at +-1, '
                    'so the result is not the straight-line blend' % (lo, hi, rf, dst))
    return None


def run(run, tier, loadcfg):
    run.rule_text = 'one instance per (function x rule x configuration)'
    run.explanation = ('Converter::next is exactly: while v >= 1.0 { interpolator.next_source_frame(source.next()); v -= 1.0 }; out = interpolate(v); v += ratio; out '
                       '(one pull per whole unit, pulled frame handed over unmodified); is_exhausted = source exhausted AND v >= 1.0; constructors assert ratio > 0, start '
                       'at v = 0 and compute the documented ratio; setters write only the ratio; MulHz pulls one control frame, sets the ratio, pulls the converter once; '
                       'Floor/Linear state updates and the blend polynomial l + (r-l)x. Positions floor(P_n)/fractions follow by induction (Appendix C.4); float drift is not decided.')
    run.assumptions = ['amplitude abstraction: sample conversions are the identity on the real amplitude (C01/C02)', 'floating-point rounding ignored in polynomial identities']
    for cfg in ['std-debug', 'std-release'] + (['nostd'] if tier == 'thorough' else []):
        fx_ = loadcfg(cfg, optional=(cfg == 'nostd'))
        if fx_ is None:
            continue
        cx = Ctx(fx_)
        check_converter_next(run, cx, cfg)
        check_ratio_api(run, cx, cfg)
        check_mulhz(run, cx, cfg)
        check_interpolators(run, cx, cfg)
        # precision: the linear blend is computed in f64 ("a ratio of exactly 1 reproduces the source unchanged" also for
        # i32 frames, whose Float companion is f32)
        fnl = '<dasp_interpolate::linear::Linear<F> as dasp_interpolate::Interpolator>::interpolate'
        if cx.body(fnl) is not None:
            res = f64_discipline(cx.facts, fnl, 'dasp_interpolate')
            for b, bad in res:
                run.check(bad is None, 'linear.precision', b['path'], cfg, bad or '', where=where(b))
            run.floor('linear.precision', 'blend bodies of Linear::interpolate (%s)' % cfg, len(res), 1)
