"""C06 — Bounded and Fixed ring buffers behave exactly as FIFO queues / delay lines.

Per operation, for ALL (start, len, cap, index): (1) the representation invariant (Bounded: start < cap, len <= cap;
Fixed: first < cap) is established by every safe constructor and preserved by every method; (2) every element access
(unchecked or checked), split and range is in bounds and every `%` has a non-zero divisor; (3) the physical slot of
every access and the post-state equal the ideal-queue specification as affine-modulo forms.  Entailments are decided
by Fourier-Motzkin over the path conditions + invariant (analysis/absint/linear.py).  The step from this forward
simulation to statements about histories is DESIGN Appendix C.1."""
from absint.linear import Aff, Poly
from rules.common import *

LEVEL = 'proof'
CRATE = 'dasp_ring_buffer'
B = 'dasp_ring_buffer::Bounded'
F = 'dasp_ring_buffer::Fixed'
SL = 'core::slice::<impl [T]>::'


def rp(e):
    return (e.get('rpath') or e['path']) if e['kind'] == 'call' else None


class Unknown(Exception):
    pass


class PA:
    """affine view of one path of a ring-buffer method"""

    def __init__(self, cx, body, p, adt, self_param=1, assume_inv=True, field_terms=None):
        self.cx, self.p, self.adt, self.body = cx, p, adt, body
        self.poly = Poly()
        self.names = cx.field_names(adt)
        self.di = self.names.index('data')
        self.cong = {}           # mod symbol -> (Aff expr, Aff modulus)
        self.nmod = 0
        self.syms = {}
        self.obligations = []    # (what, ok, detail)
        self.C = Aff.sym('C')
        self.poly.ge('C', 0) if False else self.poly.ge0(self.C)
        self.self_param = self_param
        self.field_terms = field_terms    # for constructors: {field index: term}
        for i, n in enumerate(self.names):
            if i != self.di:
                self.poly.ge0(Aff.sym(self.fsym(i)))
        if assume_inv:
            self.assume_invariant(lambda i: Aff.sym(self.fsym(i)))
        self.add_conditions()

    def fsym(self, i):
        return {'start': 'S', 'len': 'L', 'first': 'F'}[self.names[i]]

    def assume_invariant(self, val):
        if self.adt == B:
            self.poly.lt(val(self.names.index('start')), self.C)
            self.poly.le(val(self.names.index('len')), self.C)
        else:
            self.poly.lt(val(self.names.index('first')), self.C)

    def invariant_holds(self, val):
        if self.adt == B:
            return self.poly.entails_lt(val(self.names.index('start')), self.C) and self.poly.entails_le(val(self.names.index('len')), self.C) \
                and self.poly.entails_ge(val(self.names.index('start')), 0) and self.poly.entails_ge(val(self.names.index('len')), 0)
        return self.poly.entails_lt(val(self.names.index('first')), self.C) and self.poly.entails_ge(val(self.names.index('first')), 0)

    # -- terms -> affine ---------------------------------------------------------
    def is_data_ref(self, a):
        """a is a reference to the backing storage (self.data, or a local holding the data argument of a constructor)"""
        if a[0] != 'ref':
            return False
        loc = a[1]
        if loc == self_loc(self.di, ('param', self.self_param)):
            return True
        if loc[0][0] == 'P' and loc[1] == (('f', self.di),):
            return True           # data field of some buffer reached through a pointer (e.g. *self.bounded)
        v = load(self.p, loc)
        return v[0] == 'param' and self.field_terms is not None and v == self.field_terms.get(self.di)

    def event(self, t):
        if t[0] == 'ret':
            return self.p['events'][t[1]]
        return None

    def slice_of(self, t):
        """(offset, length) within the backing slice of the slice a pointer-valued term denotes"""
        if t[0] == 'ref':
            loc = t[1]
            if loc[0][0] == 'P' and not loc[1]:
                return self.slice_of(loc[0][1])
            v = load(self.p, loc)
            if v[0] in ('ref', 'ret', 'field'):
                return self.slice_of(v)
            raise Unknown('slice reference %s' % short(t))
        if t[0] == 'deref':
            return self.slice_of(t[1])
        if t[0] == 'field' and t[1][0] == 'ret':
            e = self.event(t[1])
            if rp(e) in (SL + 'split_at', SL + 'split_at_mut', SL + 'split_at_unchecked', SL + 'split_at_mut_unchecked'):
                off, ln = self.slice_of(e['args'][0])
                mid = self.aff(e['args'][1])
                return (off, mid) if t[2] == 0 else (off + mid, ln - mid)
            raise Unknown('field of %s' % rp(e))
        if t[0] == 'ret':
            e = self.event(t)
            r = rp(e)
            if r in ('dasp_ring_buffer::Slice::slice', 'dasp_ring_buffer::SliceMut::slice_mut') or (e.get('trait') in ('dasp_ring_buffer::Slice', 'dasp_ring_buffer::SliceMut')):
                if self.is_data_ref(e['args'][0]):
                    return (Aff.const(0), self.C)
                raise Unknown('slice() of something that is not the backing storage: %s' % short(e['args'][0]))
            if 'core::ops::index::Index' in r and 'for [T]' in r:
                off, ln = self.slice_of(e['args'][0])
                rg = e['args'][1]
                if rg[0] == 'agg' and rg[1][0] == 'adt':
                    kind = rg[1][1]
                    if kind == 'core::ops::range::RangeTo':
                        return (off, self.aff(rg[2][0]))
                    if kind == 'core::ops::range::RangeFrom':
                        s = self.aff(rg[2][0])
                        return (off + s, ln - s)
                    if kind == 'core::ops::range::Range':
                        s, en = self.aff(rg[2][0]), self.aff(rg[2][1])
                        return (off + s, en - s)
                    if kind == 'core::ops::range::RangeFull':
                        return (off, ln)
                raise Unknown('index with %s' % short(rg))
            raise Unknown('slice-valued call %s' % r)
        if t[0] == 'mut':
            # a &mut slice after being passed to an accessor is still the same slice
            e = self.p['events'][t[1]]
            return self.slice_of(e['args'][t[2]])
        raise Unknown('slice term %s' % short(t))

    def aff(self, t):
        t = strip_epoch(t)
        k = t[0]
        if k == 'int':
            return Aff.const(t[1])
        if k == 'param':
            if self.field_terms is not None:
                for i, ft in self.field_terms.items():
                    if ft == t and i != self.di:
                        return Aff.sym(self.fsym(i))
            s = 'P%d' % t[1]
            if s not in self.syms:
                self.syms[s] = True
                self.poly.ge0(Aff.sym(s))
            return Aff.sym(s)
        if k == 'field' and t[1] == ('deref', ('param', self.self_param)) and t[2] != self.di:
            return Aff.sym(self.fsym(t[2]))
        if k == 'field' and t[1][0] == 'deref' and t[2] != self.di and t[2] < len(self.names) and t[1][1][0] in ('field', 'deref'):
            # fields of the buffer reached through a pointer stored in self (DrainBounded.bounded)
            return Aff.sym(self.fsym(t[2]))
        if k == 'op' and t[1] in ('Add', 'Sub'):
            a, b = self.aff(t[2]), self.aff(t[3])
            return a + b if t[1] == 'Add' else a - b
        if k == 'op' and t[1] == 'Mul':
            a, b = self.aff(t[2]), self.aff(t[3])
            if a.is_const():
                return b.scale(a.k)
            if b.is_const():
                return a.scale(b.k)
            raise Unknown('non-linear product')
        if k == 'op' and t[1] == 'Rem':
            x, m = self.aff(t[2]), self.aff(t[3])
            key = ('rem', x, m)
            if key not in self.syms:
                self.nmod += 1
                s = 'M%d' % self.nmod
                self.syms[key] = s
                sym = Aff.sym(s)
                self.cong[s] = (x, m)
                self.poly.ge0(sym)
                self.poly.lt(sym, m)
                # exact value when the dividend provably lies in one period
                if self.poly.entails_ge(x, 0) and self.poly.entails_lt(x, m):
                    self.poly.eq(sym, x)
                elif self.poly.entails_ge(x, m) and self.poly.entails_lt(x, m + m):
                    self.poly.eq(sym, x - m)
            return Aff.sym(self.syms[key])
        if k == 'ret':
            e = self.event(t)
            r = rp(e)
            if r == SL + 'len':
                return self.slice_of(e['args'][0])[1]
            raise Unknown('value of call %s' % r)
        if k == 'len':
            return self.slice_of(t[1])[1]
        if k == 'app' and t[1].endswith('::len') and 'slice' in t[1]:
            return self.slice_of(t[2][0])[1]
        if k == 'cast' and t[1] == 'IntToInt':
            return self.aff(t[2])
        raise Unknown('term %s' % short(t))

    def add_conditions(self):
        for c, v in cond_facts(self.p):
            self.add_cond(c, v)
        for e in self.p['events']:
            # asserts that passed (other than the ones we must prove) constrain nothing we rely on
            pass

    def add_cond(self, c, v):
        if v[0] != 'bool':
            return
        truth = v[1]
        while c[0] == 'un' and c[1] == 'Not':
            c, truth = c[2], not truth
        if c[0] != 'op' or c[1] not in ('Lt', 'Le', 'Gt', 'Ge', 'Eq', 'Ne'):
            return
        try:
            a, b = self.aff(c[2]), self.aff(c[3])
        except Unknown:
            return
        op = c[1]
        if not truth:
            op = {'Lt': 'Ge', 'Le': 'Gt', 'Gt': 'Le', 'Ge': 'Lt', 'Eq': 'Ne', 'Ne': 'Eq'}[op]
        if op == 'Lt':
            self.poly.lt(a, b)
        elif op == 'Le':
            self.poly.le(a, b)
        elif op == 'Gt':
            self.poly.gt(a, b)
        elif op == 'Ge':
            self.poly.ge(a, b)
        elif op == 'Eq':
            self.poly.eq(a, b)
        elif op == 'Ne':
            if self.poly.entails_le(a, b):
                self.poly.lt(a, b)
            elif self.poly.entails_ge(a, b):
                self.poly.gt(a, b)

    # -- congruence ----------------------------------------------------------------
    def congruent(self, x, y):
        """x ≡ y (mod C): after replacing each modulo symbol by its dividend, x - y is an integer multiple of C"""
        d = x - y
        changed = True
        while changed:
            changed = False
            for s, (e, m) in self.cong.items():
                if s in d.c and m == self.C:
                    d = d.subst(s, e)
                    changed = True
        rest = {s: v for s, v in d.c.items() if s != 'C'}
        if not rest and d.k == 0 and d.c.get('C', 0).denominator == 1:
            return True
        # semantically: the path conditions pin the difference to a small multiple of C
        for k in (0, 1, -1, 2, -2):
            if self.poly.entails_eq(d, self.C.scale(k)):
                return True
        return False

    def in_range(self, x, ln=None):
        ln = self.C if ln is None else ln
        return self.poly.entails_ge(x, 0) and self.poly.entails_lt(x, ln)

    # -- generic obligations ---------------------------------------------------------
    def accesses(self):
        """element accesses on this path: list of (kind, event index or None, (off, len) of the slice, index Aff, absolute slot Aff)"""
        out = []
        for k, e in enumerate(self.p['events']):
            if e['kind'] == 'call' and rp(e) in (SL + 'get_unchecked', SL + 'get_unchecked_mut'):
                off, ln = self.slice_of(e['args'][0])
                idx = self.aff(e['args'][1])
                out.append(('unchecked', k, (off, ln), idx, off + idx))
            elif e['kind'] == 'call' and 'core::ops::index::Index' in rp(e) and 'for [T]' in rp(e):
                a1 = e['args'][1]
                if not (a1[0] == 'agg'):
                    off, ln = self.slice_of(e['args'][0])
                    idx = self.aff(a1)
                    out.append(('index', k, (off, ln), idx, off + idx))
            elif e['kind'] == 'assert' and e['msg'] == 'BoundsCheck':
                ln_t, idx_t = e['ops']
                idx = self.aff(idx_t)
                ln = self.aff(ln_t)
                out.append(('bounds-check', k, (Aff.const(0), ln), idx, idx))
        return out

    def check_memory(self):
        """returns list of failed obligations (strings); counts obligations in self.nobl"""
        fails = []
        self.nobl = 0
        for kind, k, (off, ln), idx, slot in self.accesses():
            self.nobl += 1
            if not (self.poly.entails_ge(idx, 0) and self.poly.entails_lt(idx, ln)):
                fails.append('%s access at index %r of a slice of length %r is not provably in bounds' % (kind, idx, ln))
            if not (self.poly.entails_ge(off, 0) and self.poly.entails_le(off + ln, self.C)):
                fails.append('slice [%r, +%r) is not provably inside the backing storage' % (off, ln))
        for k, e in enumerate(self.p['events']):
            if e['kind'] == 'call' and rp(e) in (SL + 'split_at', SL + 'split_at_mut'):
                self.nobl += 1
                off, ln = self.slice_of(e['args'][0])
                mid = self.aff(e['args'][1])
                if not (self.poly.entails_ge(mid, 0) and self.poly.entails_le(mid, ln)):
                    fails.append('split_at(%r) of a slice of length %r may panic' % (mid, ln))
            elif e['kind'] == 'call' and 'core::ops::index::Index' in rp(e) and 'for [T]' in rp(e) and e['args'][1][0] == 'agg':
                self.nobl += 1
                try:
                    boff, bln = self.slice_of(e['args'][0])
                    off, ln = self.slice_of(('ret', k))
                except Unknown as u:
                    fails.append(str(u))
                    continue
                if not (self.poly.entails_ge(off, boff) and self.poly.entails_ge(ln, 0) and self.poly.entails_le(off + ln, boff + bln)):
                    fails.append('range [%r, +%r) of a slice [%r, +%r) may panic' % (off, ln, boff, bln))
            elif e['kind'] == 'assert' and e['msg'] in ('RemainderByZero', 'DivisionByZero'):
                self.nobl += 1
                c = e['cond']       # Eq(divisor, 0), expected false
                if not (c[0] == 'op' and c[1] == 'Eq' and c[3][0] == 'int' and c[3][1] == 0):
                    fails.append('unrecognised zero-divisor check %s' % short(c))
                    continue
                d = self.aff(c[2])
                if not self.poly.entails_ge(d, 1):
                    fails.append('divisor %r is not provably non-zero' % d)
        return fails

    def post(self, i):
        """final value of field i of *self as Aff"""
        w = heap_writes(self.p).get(self_loc(i, ('param', self.self_param)))
        if w is None:
            return Aff.sym(self.fsym(i))
        return self.aff(w)

    def writes_to_fields(self):
        return {loc[1][0][1] for loc in heap_writes(self.p) if loc[0] == ('P', ('param', self.self_param)) and loc[1] and loc[1][0][0] == 'f'}


# ---------------------------------------------------------------- specs (refinement of the ideal queue)
def unreborrow(t):
    """&*x == x for a reference-valued x"""
    while t[0] == 'ref' and t[1][0][0] == 'P' and not t[1][1] and t[1][0][1][0] in ('ret', 'param', 'field'):
        t = t[1][0][1]
    return t


def slot_of_ref(pa, t):
    """absolute slot index denoted by a reference to an element"""
    if t[0] == 'ref':
        loc = t[1]
        if loc[0][0] == 'P' and not loc[1] and loc[0][1][0] == 'ret':
            e = pa.event(loc[0][1])
            if rp(e) in (SL + 'get_unchecked', SL + 'get_unchecked_mut') or ('core::ops::index::Index' in rp(e)):
                off, ln = pa.slice_of(e['args'][0])
                return off + pa.aff(e['args'][1])
        if loc[1] and loc[1][-1][0] == 'idx':
            base = (loc[0], loc[1][:-1])
            off, ln = pa.slice_of(('ref', base))
            return off + pa.aff(loc[1][-1][1])
    raise Unknown('element reference %s' % short(t))


def is_some(t):
    return t[0] == 'agg' and t[1][0] == 'adt' and t[1][1] == 'core::option::Option' and t[1][2] == 1


def is_none(t):
    return t[0] == 'agg' and t[1][0] == 'adt' and t[1][1] == 'core::option::Option' and t[1][2] == 0


def written_value(pa, slot_event):
    """value stored into the element returned by get_unchecked_mut event `slot_event` (via ptr::write / mem::replace / assignment)"""
    p = pa.p
    ptr = ('ret', slot_event)
    for k, e in enumerate(p['events']):
        if e['kind'] == 'call' and rp(e) == 'core::ptr::write' and e['args'][0] == ('ref', (('P', ptr), ())):
            return e['args'][1]
    w = p['writes'].get((('P', ptr), ()))
    if w is not None and w[0] != 'mut':
        return w
    return None


def old_value(pa, slot_event, t):
    """is t the content of the slot before this operation?"""
    ptr = ('ret', slot_event)
    if t == ('deref', ptr):
        return True
    if t[0] == 'ret':
        e = pa.event(t)
        return rp(e) == 'core::ptr::read' and e['args'][0] == ('ref', (('P', ptr), ()))
    return False


def spec_bounded(name, pa, p):
    n = pa.names
    si, li = n.index('start'), n.index('len')
    S, L, C = Aff.sym('S'), Aff.sym('L'), pa.C
    acc = [a for a in pa.accesses() if a[0] != 'bounds-check']
    r = p['ret']
    wf = pa.writes_to_fields() - {pa.di}
    if name in ('len',):
        return None if (r is not None and pa.aff(r) == L and not wf) else 'must return the len field'
    if name == 'max_len':
        return None if (pa.aff(r) == C and not wf) else 'must return the length of the backing slice'
    if name in ('is_empty', 'is_full'):
        want = Aff.const(0) if name == 'is_empty' else C
        if wf:
            return 'must not modify the buffer'
        if r[0] == 'op' and r[1] == 'Eq':
            a, b = pa.aff(r[2]), pa.aff(r[3])
            return None if {a, b} == {L, want} else 'must be len == %r' % want
        if r[0] == 'bool':
            ok = pa.poly.entails_eq(L, want) if r[1] else (pa.poly.entails_lt(L, want) or pa.poly.entails_gt if False else not pa.poly.copy().eq(L, want).unsat() is False)
            # decided by path conditions: true paths must entail equality, false paths must exclude it
            if r[1]:
                return None if pa.poly.entails_eq(L, want) else 'returns true without len == %r' % want
            q = pa.poly.copy().eq(L, want)
            return None if q.unsat() else 'returns false although len == %r is possible' % want
        return 'unrecognised result %s' % short(r)
    if name == 'push':
        if pa.poly.entails_eq(L, C):
            if len(acc) != 1 or not pa.poly.entails_eq(acc[0][4], S):
                return 'full buffer: must overwrite exactly the slot at `start`'
            if written_value(pa, acc[0][1]) != ('param', 2):
                return 'full buffer: the slot must receive the pushed element'
            if not (is_some(r) and old_value(pa, acc[0][1], r[2][0])):
                return 'full buffer: must return Some(evicted oldest element)'
            s2 = pa.post(si)
            if not (pa.congruent(s2, S + 1) and pa.in_range(s2)):
                return 'full buffer: start must advance to (start + 1) mod cap (is %r)' % s2
            if li in wf and not pa.poly.entails_eq(pa.post(li), L):
                return 'full buffer: len must stay'
            return None
        if pa.poly.entails_lt(L, C):
            if len(acc) != 1 or not (pa.congruent(acc[0][4], S + L) and pa.in_range(acc[0][4])):
                return 'not full: must write the slot (start + len) mod cap (writes %s)' % ([repr(a[4]) for a in acc],)
            if written_value(pa, acc[0][1]) != ('param', 2):
                return 'not full: the slot must receive the pushed element'
            if not is_none(r):
                return 'not full: must return None'
            if not pa.poly.entails_eq(pa.post(li), L + 1) or (si in wf and not pa.poly.entails_eq(pa.post(si), S)):
                return 'not full: len must grow by one and start must stay'
            return None
        return 'path not decided by len == cap'
    if name == 'pop':
        if pa.poly.entails_eq(L, 0):
            return None if (is_none(r) and not wf and not acc) else 'empty buffer: must return None and change nothing'
        if pa.poly.entails_ge(L, 1):
            if len(acc) != 1 or not pa.poly.entails_eq(acc[0][4], S):
                return 'must read exactly the slot at `start`'
            if not (is_some(r) and old_value(pa, acc[0][1], r[2][0])) or written_value(pa, acc[0][1]) is not None:
                return 'must return Some(oldest element) and leave the slot alone'
            s2 = pa.post(si)
            if not (pa.congruent(s2, S + 1) and pa.in_range(s2)):
                return 'start must advance to (start + 1) mod cap (is %r)' % s2
            if not pa.poly.entails_eq(pa.post(li), L - 1):
                return 'len must shrink by one'
            return None
        return 'path not decided by len == 0'
    if name in ('get', 'get_mut'):
        I = pa.aff(('param', 2))
        if wf:
            return 'must not modify start/len'
        if pa.poly.entails_ge(I, L):
            return None if (is_none(r) and not acc) else 'index >= len must yield None without touching the storage'
        if pa.poly.entails_lt(I, L):
            if not is_some(r):
                return 'index < len must yield Some'
            slot = slot_of_ref(pa, r[2][0])
            if not (pa.congruent(slot, S + I) and pa.in_range(slot)):
                return 'element i must be the slot (start + i) mod cap, but the slot is %s' % describe_slot(pa, slot)
            return None
        return 'path not decided by index < len'
    if name in ('slices', 'slices_mut', 'iter', 'iter_mut'):
        if wf:
            return 'must not modify start/len'
        if name in ('iter', 'iter_mut'):
            if r[0] != 'ret' or not is_call(pa.event(r), ITER, 'chain'):
                return 'must be first.iter().chain(second.iter())'
            ch = pa.event(r)
            parts = []
            for a in ch['args']:
                e = pa.event(a) if a[0] == 'ret' else None
                if e is None or rp(e) not in (SL + 'iter', SL + 'iter_mut'):
                    return 'chain arguments must be slice iterators'
                parts.append(e['args'][0])
        else:
            if not (r[0] == 'agg' and r[1][0] == 'tuple' and len(r[2]) == 2):
                return 'must return a pair of slices'
            parts = list(r[2])
        (o1, l1), (o2, l2) = pa.slice_of(parts[0]), pa.slice_of(parts[1])
        ok = (pa.poly.entails_eq(o1, S) and pa.poly.entails_eq(o2, 0) and pa.poly.entails_eq(l1 + l2, L) and pa.poly.entails_le(l1, C - S)
              and pa.poly.entails_ge(l1, 0) and pa.poly.entails_ge(l2, 0) and (pa.poly.entails_eq(l2, 0) or pa.poly.entails_eq(l1, C - S)))
        return None if ok else 'slices must be data[start .. start+min(len, cap-start)] then data[0 .. rest]; got [%r,+%r) and [%r,+%r)' % (o1, l1, o2, l2)
    return 'no-spec'


def describe_slot(pa, slot):
    d = slot
    for s, (e, m) in pa.cong.items():
        if s in d.c:
            return '%r with %s = (%r) mod %r' % (slot, s, e, m)
    return repr(slot)


def spec_fixed(name, pa, p):
    n = pa.names
    fi = n.index('first')
    Fs, C = Aff.sym('F'), pa.C
    acc = [a for a in pa.accesses()]
    r = p['ret']
    wf = pa.writes_to_fields() - {pa.di}
    if name == 'len':
        return None if (pa.aff(r) == C and not wf) else 'must return the length of the backing slice'
    if name == 'push':
        a = [x for x in acc if x[0] != 'bounds-check']
        if len(a) != 1 or not pa.poly.entails_eq(a[0][4], Fs):
            return 'must replace exactly the slot at `first`'
        if written_value(pa, a[0][1]) != ('param', 2):
            return 'the slot must receive the pushed element'
        if not old_value(pa, a[0][1], r):
            return 'must return the element that was at index 0'
        f2 = pa.post(fi)
        if not (pa.congruent(f2, Fs + 1) and pa.in_range(f2)):
            return 'first must advance to (first + 1) mod len (is %r)' % f2
        return None
    if name in ('get', 'get_mut'):
        I = pa.aff(('param', 2))
        if wf:
            return 'must not modify first'
        slot = slot_of_ref(pa, r)
        if not (pa.congruent(slot, Fs + I) and pa.in_range(slot)):
            return 'element i must be the slot (first + i) mod len, but the slot is %s' % describe_slot(pa, slot)
        return None
    if name == 'set_first':
        I = pa.aff(('param', 2))
        f2 = pa.post(fi)
        return None if (pa.congruent(f2, I) and pa.in_range(f2)) else 'first must become index mod len (is %r)' % f2
    if name in ('slices', 'slices_mut'):
        if wf:
            return 'must not modify first'
        if not (r[0] == 'agg' and r[1][0] == 'tuple' and len(r[2]) == 2):
            return 'must return a pair of slices'
        (o1, l1), (o2, l2) = pa.slice_of(r[2][0]), pa.slice_of(r[2][1])
        ok = pa.poly.entails_eq(o1, Fs) and pa.poly.entails_eq(l1, C - Fs) and pa.poly.entails_eq(o2, 0) and pa.poly.entails_eq(l2, Fs)
        return None if ok else 'slices must be (data[first..], data[..first]); got [%r,+%r) and [%r,+%r)' % (o1, l1, o2, l2)
    if name in ('iter_loop', 'iter'):
        if wf:
            return 'must not modify first'
        t = r
        if name == 'iter':
            e = pa.event(t) if t[0] == 'ret' else None
            if e is None or not is_call(e, ITER, 'take') or not (pa.aff(e['args'][1]) == C):
                return 'iter must be iter_loop().take(len)'
            t = e['args'][0]
        e = pa.event(t) if t[0] == 'ret' else None
        if e is None or not is_call(e, ITER, 'skip') or not (pa.aff(e['args'][1]) == Fs):
            return 'must skip exactly `first` elements of the cycled slice'
        e2 = pa.event(e['args'][0]) if e['args'][0][0] == 'ret' else None
        if e2 is None or not is_call(e2, ITER, 'cycle'):
            return 'must cycle the slice iterator'
        e3 = pa.event(e2['args'][0]) if e2['args'][0][0] == 'ret' else None
        if e3 is None or rp(e3) != SL + 'iter':
            return 'must iterate the backing slice'
        o, l = pa.slice_of(e3['args'][0])
        return None if (o == Aff.const(0) and l == C) else 'must iterate the whole backing slice'
    if name == 'iter_mut':
        if wf:
            return 'must not modify first'
        e = pa.event(r) if r[0] == 'ret' else None
        if e is None or not is_call(e, ITER, 'chain'):
            return 'must be tail.iter_mut().chain(head.iter_mut())'
        parts = []
        for a in e['args']:
            x = pa.event(a) if a[0] == 'ret' else None
            if x is None or rp(x) != SL + 'iter_mut':
                return 'chain arguments must be slice iterators'
            parts.append(x['args'][0])
        (o1, l1), (o2, l2) = pa.slice_of(parts[0]), pa.slice_of(parts[1])
        ok = pa.poly.entails_eq(o1, Fs) and pa.poly.entails_eq(l1, C - Fs) and pa.poly.entails_eq(o2, 0) and pa.poly.entails_eq(l2, Fs)
        return None if ok else 'iter_mut must chain data[first..] then data[..first]'
    return 'no-spec'


DERIVED_OK = ('core::clone::Clone', 'core::fmt::Debug', 'core::cmp::PartialEq', 'core::cmp::Eq', 'core::hash::Hash', 'core::marker::Copy',
              'core::marker::StructuralPartialEq')


def method_bodies(cx, adt):
    out = []
    for b in cx.facts.bodies_in(CRATE):
        imp = b.get('impl')
        if not imp or b['kind'] != 'AssocFn':
            continue
        t = cx.facts.ty(imp['self_ty'])
        if t.get('k') == 'adt' and t['path'] == adt:
            out.append(b)
    return out


MINMAX = ('core::cmp::min', 'core::cmp::max', 'core::cmp::Ord::min', 'core::cmp::Ord::max', 'core::cmp::impls::', 'core::cmp::PartialOrd::')


def check_type(run, cx, cfg, adt, only=None):
    short_adt = adt.rsplit('::', 1)[-1]
    specf = spec_bounded if adt == B else spec_fixed
    n_spec = n_generic = 0
    want_fields = {'start', 'len', 'data'} if adt == B else {'first', 'data'}
    have = set(cx.field_names(adt))
    if have != want_fields:
        # the abstraction function of the refinement is defined on (start, len, data) / (first, data): a representation with
        # further state (a cached index, a flag) needs its own invariant and a restated refinement
        run.unproven('rb.state', adt, cfg, 'the representation of %s has the fields %s; the refinement proof models %s -- the extra / missing state is not covered by the invariant, '
                     'so no method of the type is established' % (short_adt, sorted(have), sorted(want_fields)))
        return 0, 0
    for b in sorted(method_bodies(cx, adt), key=lambda b: b['path']):
        fn = b['path']
        imp = b['impl']
        name = b['name']
        tr = imp.get('trait')
        if only is not None and fn not in only:
            continue
        if tr in DERIVED_OK:
            run.ok('rb.derived', fn, cfg, nontrivial=False)
            continue
        self_ty = cx.facts.ty(b['locals'][1]) if b['argc'] >= 1 else {}
        takes_self_ref = self_ty.get('k') == 'ref' and cx.facts.ty(self_ty['inner']).get('path') == adt
        if not takes_self_ref:
            continue      # constructors / consumers are handled separately
        if tr is None and cx.facts.fns.get(fn, {}).get('pub') is False and fn not in known_fns(cx.facts):
            # a private helper the reference tree does not have (an operation split into steps): it has no contract of its own
            # -- its precondition is whatever its callers establish -- and is interpreted as part of each of them
            direct, offenders = callers_confined(cx.facts, fn, {m['path'] for m in method_bodies(cx, adt)} - {fn})
            if direct and not offenders:
                run.note('%s is a new private helper reached only from the methods of %s: examined as part of its callers' % (fn, short_adt))
                continue
        try:
            # min / max are piecewise linear: seen through, each piece is a path of its own
            paths = cx.paths(fn, transparent=MINMAX)
        except T.TooComplex as e:
            run.unproven('rb.method', fn, cfg, str(e), where=where(b))
            continue
        rets = normal_paths(paths)
        has_spec = tr is None and name in ('len', 'max_len', 'is_empty', 'is_full', 'push', 'pop', 'get', 'get_mut', 'slices', 'slices_mut', 'iter', 'iter_mut',
                                           'set_first', 'iter_loop')
        for ip, p in enumerate(rets):
            inst = '%s:path%d' % (cfg, ip)
            # the floors count the paths that were examined, whatever the outcome
            n_generic += 1
            if has_spec and p['end'] == 'return':
                n_spec += 1
            try:
                pa = PA(cx, b, p, adt)
                fails = pa.check_memory()
                if fails:
                    run.fail('rb.memory-safety', fn, inst, fails[0] + ' [%s]' % describe_path(p)[:300], where=where(b))
                else:
                    run.ok('rb.memory-safety', fn, inst, sample={'obligations': pa.nobl, 'path': describe_path(p)[:200]} if name == 'push' and ip == 0 else None)
                # invariant preserved (only for paths that write start/len/first or return normally)
                if self_ty.get('mut'):
                    okinv = pa.invariant_holds(lambda i: pa.post(i))
                    run.check(okinv, 'rb.invariant-preserved', fn, inst, 'the representation invariant is not re-established: post-state %s [%s]' % (
                        {pa.names[i]: repr(pa.post(i)) for i in range(len(pa.names)) if i != pa.di}, describe_path(p)[:300]), where=where(b))
                if has_spec and p['end'] == 'return':
                    why = specf(name, pa, p)
                    if why == 'no-spec':
                        pass
                    else:
                        run.check(why is None, 'rb.refinement', fn, inst, '%s::%s: %s [%s]' % (short_adt, name, why, describe_path(p)[:300]), where=where(b),
                                  sample={'op': name, 'path': describe_path(p)[:160]} if name in ('pop', 'set_first') and ip == 0 else None)
            except Unknown as u:
                run.unproven('rb.method', fn, inst, 'outside the polyhedra domain: %s [%s]' % (u, describe_path(p)[:200]), where=where(b))
        if has_spec and not [p for p in rets if p['end'] == 'return']:
            run.fail('rb.refinement', fn, cfg, 'no returning path')
    return n_spec, n_generic


def check_forwarders(run, cx, cfg, only=None):
    """Index / IndexMut / Extend / Drain / From / FromIterator are thin wrappers over the operations above"""
    rows = [
        ('<dasp_ring_buffer::Fixed<S> as core::ops::index::Index<usize>>::index', 'dasp_ring_buffer::Fixed::<S>::get', None),
        ('<dasp_ring_buffer::Fixed<S> as core::ops::index::IndexMut<usize>>::index_mut', 'dasp_ring_buffer::Fixed::<S>::get_mut', None),
        ('<dasp_ring_buffer::Bounded<S> as core::ops::index::Index<usize>>::index', 'dasp_ring_buffer::Bounded::<S>::get', 'expect'),
        ('<dasp_ring_buffer::Bounded<S> as core::ops::index::IndexMut<usize>>::index_mut', 'dasp_ring_buffer::Bounded::<S>::get_mut', 'expect'),
        ("<dasp_ring_buffer::DrainBounded<'a, S> as core::iter::traits::iterator::Iterator>::next", 'dasp_ring_buffer::Bounded::<S>::pop', None),
    ]
    for fn, target, then in rows:
        if only is not None and fn not in only:
            continue
        body = cx.body(fn)
        if body is None:
            run.fail('rb.forwarder', fn, cfg, 'function not found')
            continue
        ps = returning(cx.paths(fn, stop=[target]))
        ok = False
        if len(ps) == 1:
            evs = [e for k, e in call_events(ps[0])]
            if evs and rp(evs[0]) == target:
                a0 = evs[0]['args'][0]
                recv_ok = a0 == ('ref', (('P', ('param', 1)), ())) or a0 == ('param', 1) or (a0[0] == 'ref' and a0[1] == (('P', self_field(0)), ()))
                rest_ok = evs[0]['args'][1:] == ([('param', 2)] if 'index' in fn else [])
                if then is None:
                    ok = recv_ok and rest_ok and len(evs) == 1 and unreborrow(ps[0]['ret']) == evs[0]['result']
                else:
                    ok = recv_ok and rest_ok and len(evs) == 2 and rp(evs[1]).endswith('Option::<T>::' + then) and evs[1]['args'][0] == evs[0]['result'] and unreborrow(ps[0]['ret']) == evs[1]['result']
                    if not ok and recv_ok and rest_ok and len(evs) == 1:
                        # the same spelled as a match: Some(x) => x, None => panic
                        res = evs[0]['result']
                        ok = dict(cond_facts(ps[0])).get(('discr', res)) == ('int', 1, 'isize') and unreborrow(ps[0]['ret']) == ('field', ('variant', res, 1), 0) \
                            and not [1 for q in cx.paths(fn, stop=[target]) if q['end'] == 'return' and q is not ps[0]]
        run.check(ok, 'rb.forwarder', fn, cfg, 'must forward to %s(self%s)%s: [%s]' % (target, ', index' if 'index' in fn else '', '.expect(..)' if then else '',
                                                                                     '; '.join(describe_path(p) for p in ps)), where=where(body))
    if only is not None:
        return
    # drain() hands out the buffer itself; size_hint / len of the drain report len()
    fn = 'dasp_ring_buffer::Bounded::<S>::drain'
    body = cx.body(fn)
    if body is not None:
        ps = returning(cx.paths(fn))
        r = ps[0]['ret'] if len(ps) == 1 else ('x',)
        ok = len(ps) == 1 and r[0] == 'agg' and r[1][1] == 'dasp_ring_buffer::DrainBounded' and unreborrow(r[2][0]) == ('param', 1) and not call_events(ps[0])
        run.check(ok, 'rb.forwarder', fn, cfg, 'drain must wrap the buffer itself', where=where(body))
    for fn, want in (("<dasp_ring_buffer::DrainBounded<'a, S> as core::iter::traits::iterator::Iterator>::size_hint", 'pair'),
                     ("<dasp_ring_buffer::DrainBounded<'a, S> as core::iter::traits::exact_size::ExactSizeIterator>::len", 'len')):
        body = cx.body(fn)
        if body is None:
            run.fail('rb.drain-len', fn, cfg, 'function not found')
            continue
        ps = returning(cx.paths(fn, stop=[B + '::<S>::len']))
        ok = False
        if len(ps) == 1:
            evs = call_events(ps[0], effectful_only=False)
            lens = [('ret', k) for k, e in evs if rp(e) == B + '::<S>::len' and e['args'][0] == ('ref', (('P', ('field', ('deref', ('param', 1)), 0)), ()))]
            r = ps[0]['ret']
            if want == 'len':
                ok = len(evs) == 1 and len(lens) == 1 and r == lens[0]
            else:
                ok = len(evs) == len(lens) and len(lens) >= 1 and r[0] == 'agg' and r[1][0] == 'tuple' and r[2][0] in lens and r[2][1][0] == 'agg' \
                    and r[2][1][1][3] == 'Some' and r[2][1][2][0] in lens
        run.check(ok, 'rb.drain-len', fn, cfg, 'the drain must report exactly bounded.len() remaining items: [%s]' % '; '.join(describe_path(p) for p in ps), where=where(body))
    check_overrides(run, cx, cfg, 'rb.iter-inventory', lambda p: p.startswith('dasp_ring_buffer::'), evaluated={fn for _, fn, _, _ in run.instances}, minimum=3)
    # Extend: one push per item
    for adt in (B, F):
        fn = '<%s<S> as core::iter::traits::collect::Extend<<S as dasp_ring_buffer::Slice>::Element>>::extend' % adt
        body = cx.body(fn)
        if body is None:
            run.fail('rb.extend', fn, cfg, 'function not found')
            continue
        push = adt + '::<S>::push'
        ps = normal_paths(cx.paths(fn, stop=[push]))
        bad = None
        kinds = set()
        for p in ps:
            loops = iterator_loops(p)
            pushes = [(k, e) for k, e in call_events(p) if rp(e) == push]
            if len(loops) != 1:
                bad = 'expected one loop over the given iterator'
                break
            nk = loops[0]['next']
            # the loop must run over the given iterator itself, untouched: nothing but `into_iter` between the argument
            # and the loop, and no other call that could consume items (`nth`, `skip`, `next` outside the loop ...)
            it = loops[0]['iter']
            conv = []
            while it[0] == 'ret' and p['events'][it[1]]['kind'] == 'call' and p['events'][it[1]]['name'] == 'into_iter' and len(p['events'][it[1]]['args']) == 1:
                conv.append(it[1])
                it = p['events'][it[1]]['args'][0]
            if it != ('param', 2):
                bad = 'the loop must iterate the given iterator itself (iterates %s): [%s]' % (short(it), describe_path(p))
                break
            pure = ('core::iter::traits::iterator::Iterator::size_hint', adt + '::<S>::max_len', adt + '::<S>::len', 'core::iter::traits::exact_size::ExactSizeIterator::len')
            other = [rp(e) for k, e in call_events(p) if k not in conv and k != nk and rp(e) != push and rp(e) not in pure]
            if other:
                bad = 'besides one next() per pass and the push nothing may touch the iterator or the buffer (calls %s): [%s]' % (', '.join(sorted(set(other))), describe_path(p))
                break
            d = dict(cond_facts(p)).get(('discr', ('ret', nk)))
            if d == ('int', 1, 'isize'):
                if len(pushes) != 1 or pushes[0][1]['args'] != [('ref', (('P', ('param', 1)), ())), ('field', ('variant', ('ret', nk), 1), 0)]:
                    bad = 'each item must be pushed exactly once: [%s]' % describe_path(p)
                kinds.add('item')
            elif d == ('int', 0, 'isize'):
                if pushes:
                    bad = 'pushes after the iterator ended'
                kinds.add('end')
        if not bad and kinds != {'item', 'end'}:
            bad = 'missing case'
        run.check(bad is None, 'rb.extend', fn, cfg, bad or '', where=where(body))


def check_constructors(run, cx, cfg, only_adts=None):
    """every place that builds a Bounded / Fixed value: inventory + invariant established on every returning path
    (`only_adts`: for another property, the constructors of the buffer type its code is handed)"""
    sites = {}
    for b in cx.facts.bodies_in(CRATE):
        for blk in b['blocks']:
            for st in blk['s']:
                if st[0] == '=' and st[2][0] == 'agg' and st[2][1][0] == 'adt' and st[2][1][1] in (B, F):
                    sites.setdefault(b['path'], set()).add(st[2][1][1])
    n = 0
    for fn, adts in sorted(sites.items()):
        b = cx.body(fn)
        adt = sorted(adts)[0]
        if only_adts is not None and adt not in only_adts:
            continue
        imp = b.get('impl') or {}
        if imp.get('trait') in DERIVED_OK:
            run.ok('rb.constructor', fn, cfg + ':derived-copy', nontrivial=False)
            continue
        fninfo = cx.facts.fns.get(fn, {})
        if fninfo.get('unsafe'):
            run.ok('rb.constructor', fn, cfg + ':unsafe-fn(caller-obligation)', nontrivial=False)
            continue
        n += 1
        try:
            ps = cx.paths(fn)
            rets = returning(ps)
            bad = None
            for p in rets:
                r = p['ret']
                vals = [v for v in subterms(r) if v[0] == 'agg' and v[1][0] == 'adt' and v[1][1] == adt]
                if not vals:
                    bad = 'constructed value does not reach the return'
                    break
                fields = dict(enumerate(vals[0][2]))
                pa = PA(cx, b, p, adt, self_param=0, assume_inv=False, field_terms=fields)
                ok = pa.invariant_holds(lambda i: pa.aff(fields[i]))
                if not ok:
                    bad = 'returns a %s whose fields (%s) are not shown to satisfy the invariant on the path [%s]' % (
                        adt.rsplit('::', 1)[-1], ', '.join(short(v) for i, v in fields.items() if i != pa.di), describe_path(p)[:300])
                    break
            if not rets:
                bad = 'no returning path'
            if not bad and fn.endswith('::from_raw_parts'):
                # the checked constructor accepts *exactly* the valid states: a path that panics must be one on which the
                # arguments violate the invariant (a stricter assertion would refuse, say, a full buffer)
                r0 = [v for v in subterms(rets[0]['ret']) if v[0] == 'agg' and v[1][0] == 'adt' and v[1][1] == adt][0]
                fields0 = dict(enumerate(r0[2]))
                for p in ps:
                    if not (isinstance(p['end'], tuple) and p['end'][0] == 'panic'):
                        continue
                    pa = PA(cx, b, p, adt, self_param=0, assume_inv=False, field_terms=fields0)
                    pa.assume_invariant(lambda i: pa.aff(fields0[i]))
                    if not pa.poly.unsat():
                        bad = 'panics for arguments that satisfy the invariant (the checked constructor must accept every valid state) on the path [%s]' % describe_path(p)[:300]
                        break
            run.check(bad is None, 'rb.constructor', fn, cfg, bad or '', where=where(b), sample={'paths': len(rets)})
        except (Unknown, T.TooComplex) as u:
            run.unproven('rb.constructor', fn, cfg, 'outside the polyhedra domain: %s' % u, where=where(b))
    run.floor('rb.constructor', 'safe construction sites (%s)' % cfg, n, 2 if only_adts is None else 1)
    # wrappers that only call a checked constructor
    for fn, target, want in (('<dasp_ring_buffer::Bounded<S> as core::convert::From<S>>::from', B + '::<S>::from_raw_parts', [('int', 0, 'usize'), ('int', 0, 'usize'), ('param', 1)]),
                             ('<dasp_ring_buffer::Fixed<S> as core::convert::From<S>>::from', F + '::<S>::from_raw_parts', [('int', 0, 'usize'), ('param', 1)])):
        if only_adts is not None and not any(target.startswith(a + '::') for a in only_adts):
            continue
        body = cx.body(fn)
        if body is None:
            run.fail('rb.ctor-wrapper', fn, cfg, 'function not found')
            continue
        ps = returning(cx.paths(fn, stop=[target]))
        ok = len(ps) == 1 and len(call_events(ps[0])) == 1 and rp(call_events(ps[0])[0][1]) == target and call_events(ps[0])[0][1]['args'] == want \
            and ps[0]['ret'] == call_events(ps[0])[0][1]['result']
        run.check(ok, 'rb.ctor-wrapper', fn, cfg, 'From must build the empty / zero-offset buffer through the checked constructor', where=where(body))
    fn = B + '::<S>::from_full'
    body = cx.body(fn)
    if body is not None and (only_adts is None or B in only_adts):
        ps = returning(cx.paths(fn, stop=[B + '::<S>::from_raw_parts']))
        ok = False
        if len(ps) == 1:
            evs = [e for k, e in call_events(ps[0]) if rp(e) == B + '::<S>::from_raw_parts']
            if len(evs) == 1:
                a = evs[0]['args']
                lens = [e for k, e in call_events(ps[0]) if rp(e) == SL + 'len']
                ok = a[0] == ('int', 0, 'usize') and a[2] == ('param', 1) and len(lens) == 1 and a[1] == lens[0]['result'] and ps[0]['ret'] == evs[0]['result']
        run.check(ok, 'rb.ctor-wrapper', fn, cfg, 'from_full must be from_raw_parts(0, data.len(), data)', where=where(body))


def check_inventory(run, cx, cfg):
    """every unchecked / raw element access in the crate lies in a function covered above"""
    n = 0
    covered_prefix = (B + '::<S>::', F + '::<S>::')
    for b in cx.facts.bodies_in(CRATE):
        import mirutil
        for i, t in mirutil.calls(b):
            r = mirutil.resolved_path(t)
            if r in (SL + 'get_unchecked', SL + 'get_unchecked_mut', 'core::ptr::read', 'core::ptr::write', 'core::slice::from_raw_parts', 'core::slice::from_raw_parts_mut'):
                n += 1
                run.check(b['path'].startswith(covered_prefix), 'rb.unchecked-inventory', b['path'], '%s:%s' % (cfg, r.rsplit('::', 1)[-1]),
                          'raw element access %s in a function that the ring-buffer rules do not cover' % r, where=mirutil.where(b, t))
    run.floor('rb.unchecked-inventory', 'unchecked element accesses (%s)' % cfg, n, 6)


def check_used(run, cx, cfg, roots, minimum, handed=None):
    """Re-establish, for another property, the ring-buffer obligations of exactly the ring-buffer functions that the
    bodies in `roots` reach through the resolved call graph (filed under dep.rb.*).  `handed`: the buffer type the
    property's code is given ready-made by its caller (`signal.buffered(ring)`, `signal.fork(ring)`, `Rms::new(window)`):
    what it delivers from pre-filled content rests on that type's constructors building exactly the state they are
    asked for, so their obligations are imported too."""
    from report import Prefixed
    used = callee_closure(cx.facts, roots, CRATE)
    pr = Prefixed(run, 'dep.')
    if handed:
        check_constructors(pr, cx, cfg, only_adts=(handed,))
    ns = 0
    for adt in (B, F):
        a, b = check_type(pr, cx, cfg, adt, only=used)
        ns += a
    check_forwarders(pr, cx, cfg, only=used)
    run.floor('dep.rb.refinement', 'specified ring-buffer method paths reached from this property\'s functions (%s)' % cfg, ns, minimum)
    return sorted(used)


def run(run, tier, loadcfg):
    if tier == 'thorough':
        import witness
        witness.check(run, 'c06', 3)
    run.rule_text = ('one obligation per (method x path x rule): memory safety of every access on the path, invariant preservation, refinement of the ideal-queue '
                     'specification; plus constructor, forwarder and inventory obligations. Each is an entailment over all (start, len, cap, index).')
    run.explanation = 'See module docstring; per-operation forward simulation of the ideal bounded queue / delay line.'
    run.trusted = ['rustc MIR', 'path summaries (analysis/terms.py)', 'Fourier-Motzkin entailment (analysis/absint/linear.py)',
                   'core slice primitives (split_at, range indexing, get_unchecked, iter/chain/cycle/skip/take) behave as documented',
                   'the user\'s Slice impl returns the same slice on every call']
    run.assumptions = ['usize arithmetic on indices does not overflow (first + index < 2^64)']
    cfgs = ['std-debug', 'std-release'] + (['nostd'] if tier == 'thorough' else [])
    for cfg in cfgs:
        fx_ = loadcfg(cfg, optional=(cfg == 'nostd'))
        if fx_ is None:
            continue
        cx = Ctx(fx_)
        ns = ng = 0
        for adt in (B, F):
            a, b = check_type(run, cx, cfg, adt)
            ns += a
            ng += b
        run.floor('rb.refinement', 'specified method paths (%s)' % cfg, ns, 30)
        run.floor('rb.memory-safety', 'method paths (%s)' % cfg, ng, 40)
        check_forwarders(run, cx, cfg)
        check_constructors(run, cx, cfg)
        check_inventory(run, cx, cfg)
