"""C04 — signal adaptors are pointwise, lock-step, one source frame per output frame.

Generic rule (R2, all `impl Signal`): on every non-panicking path of `next`, `Signal::next` is called exactly once on each
field that is a Signal-bounded source and on nothing else.  Per-adaptor rule: the returned term is the documented frame
operation applied to the pulled frame(s) and the stored parameter.  Adaptors whose pull discipline is the subject of
another property (Converter C08, Buffered C14, Fork branches C12, bus Output C13) are only counted here."""
from rules.common import *

LEVEL = 'other'

STOP = [(SIGNAL, 'next'), (SIGNAL, 'is_exhausted')]

# impls whose pull protocol is owned by another property (named reason each)
OWNED_ELSEWHERE = {
    'dasp_signal::interpolate::Converter': 'C08 (pulls floor(position) frames per output)',
    'dasp_signal::Buffered': 'C14 (pulls one buffer at a time)',
    'dasp_signal::BranchRcA': 'C12', 'dasp_signal::BranchRcB': 'C12', 'dasp_signal::BranchRefA': 'C12', 'dasp_signal::BranchRefB': 'C12',
    'dasp_signal::bus::Output': 'C13',
}


def signal_params(imp):
    """type parameters bounded by Signal in the impl's where-clauses"""
    out = set()
    for p in imp['preds']:
        if p.endswith(': ' + SIGNAL):
            out.add(p.split(':')[0].strip())
    return out


def impl_key(cx, imp):
    t = cx.facts.ty(imp['self_ty'])
    if t.get('k') == 'adt':
        return t['path']
    return imp['self_ty']


def source_fields(cx, imp):
    """indices of fields of Self that hold a Signal source: a Signal-bounded type parameter, or a workspace
    struct that itself implements Signal (e.g. MulHz.signal: Converter<S, I>)"""
    t = cx.facts.ty(imp['self_ty'])
    if t.get('k') != 'adt':
        return None
    params = signal_params(imp)
    sig_adts = {impl_key(cx, i) for i in cx.facts.impls_of(SIGNAL)}
    out = []
    for i, fty in enumerate(cx.field_types(t['path'])):
        ft = cx.facts.ty(fty)
        if fty in params:
            out.append(i)
        elif ft.get('k') == 'adt' and ft['path'] in sig_adts and any(a in params for a in ft['args']):
            out.append(i)
    return out


def next_calls(path):
    return [(k, e) for k, e in call_events(path) if is_call(e, SIGNAL, 'next')]


def check_generic(run, cx, cfg, imp, fn, body):
    key = impl_key(cx, imp)
    paths = cx.paths(fn, stop_trait_methods=STOP)
    rets = returning(paths)
    if key in OWNED_ELSEWHERE:
        run.ok('pull.once-per-source', fn, cfg + ':owned-by-' + OWNED_ELSEWHERE[key].split()[0], nontrivial=False)
        return paths
    if key == "&'a mut S":
        ok = all(len(next_calls(p)) == 1 and next_calls(p)[0][1]['args'][0] == ('ref', (('P', ('deref', SELF)), ())) for p in rets) and rets
        run.check(ok, 'pull.once-per-source', fn, cfg, '&mut S must forward next() exactly once to the borrowed signal: ' + '; '.join(describe_path(p) for p in rets),
                  where=where(body), sample=describe_path(rets[0]) if rets else None)
        return paths
    srcs = source_fields(cx, imp)
    if srcs is None:
        run.unproven('pull.once-per-source', fn, cfg, 'Self type is not a struct', where=where(body))
        return paths
    bad = None
    for p in rets:
        calls = next_calls(p)
        seen = {}
        for k, e in calls:
            a = e['args'][0]
            fld = None
            for i in srcs:
                if a == ('ref', self_loc(i)):
                    fld = i
            if fld is None:
                bad = 'pulls from %s, which is not one of its source fields' % short(a)
                break
            seen[fld] = seen.get(fld, 0) + 1
        if bad:
            break
        if key == 'dasp_signal::Delay':
            continue   # counted per path below
        for i in srcs:
            if seen.get(i, 0) != 1:
                bad = 'pulls %d frames from source field #%d (%s) on the path [%s]' % (seen.get(i, 0), i, cx.field_names(key)[i], describe_path(p))
                break
        if bad:
            break
    if not rets:
        bad = 'no returning path'
    run.check(bad is None, 'pull.once-per-source', fn, cfg, bad or '', where=where(body),
              sample={'sources': [cx.field_names(key)[i] for i in srcs], 'paths': [describe_path(p) for p in rets][:3]} if key.endswith(('ZipMap', 'Inspect', 'MulHz')) else None)
    return paths


EQ = lambda t: t[0] == 'assoc' and t[1] == 'dasp_frame::Frame::EQUILIBRIUM'


def frame_app(name):
    return lambda t: t[0] == 'app' and t[1] == 'dasp_frame::Frame::' + name


def check_ret(run, cx, cfg, key, fn, body, paths):
    F = lambda n: cx.field_index(key, n)
    rets = returning(paths)
    name = key.rsplit('::', 1)[-1]

    def single():
        return rets[0] if len(rets) == 1 else None

    def pulled(p, field):
        for k, e in next_calls(p):
            if e['args'][0] == ('ref', self_loc(F(field))):
                return ('ret', k)
        return None

    bad = None
    sample = None
    if name in ('AddAmp', 'MulAmp'):
        p = single()
        op = 'add_amp' if name == 'AddAmp' else 'mul_amp'
        if not p or not frame_app(op)(p['ret']) or list(p['ret'][2]) != [pulled(p, 'a'), pulled(p, 'b')]:
            bad = 'must return Frame::%s(a.next(), b.next())' % op
        elif not pulled(p, 'a')[1] < pulled(p, 'b')[1]:
            bad = 'must pull `a` before `b` (the order of the two next() calls is observable when the sources share state)'
    elif name in ('ScaleAmp', 'ScaleAmpPerChannel', 'OffsetAmp', 'OffsetAmpPerChannel'):
        op, param = {'ScaleAmp': ('scale_amp', 'amp'), 'ScaleAmpPerChannel': ('mul_amp', 'amp_frame'),
                     'OffsetAmp': ('offset_amp', 'offset'), 'OffsetAmpPerChannel': ('add_amp', 'amp_frame')}[name]
        p = single()
        if not p or not frame_app(op)(p['ret']) or list(p['ret'][2]) != [pulled(p, 'signal'), self_field(F(param))]:
            bad = 'must return Frame::%s(signal.next(), self.%s)' % (op, param)
    elif name == 'Map':
        p = single()
        ok = False
        if p and p['ret'][0] == 'ret':
            e = p['events'][p['ret'][1]]
            # (`call_once` on the REFERENCE `&mut self.map` -- the closure handed to a helper as `impl FnOnce` -- is `call_mut` on the closure)
            ok = (is_call(e, 'core::ops::function::FnMut', 'call_mut') or is_call(e, 'core::ops::function::FnOnce', 'call_once')) \
                and e['args'] == [('ref', self_loc(F('map'))), ('agg', ('tuple',), (pulled(p, 'signal'),))]
        if not ok:
            bad = 'must return map(signal.next())'
    elif name == 'ZipMap':
        p = single()
        ok = False
        if p and p['ret'][0] == 'ret':
            e = p['events'][p['ret'][1]]
            ok = is_call(e, 'core::ops::function::FnMut', 'call_mut') and e['args'] == [('ref', self_loc(F('map'))), ('agg', ('tuple',), (pulled(p, 'this'), pulled(p, 'other')))]
        if not ok:
            bad = 'must return map(this.next(), other.next())'
        elif not pulled(p, 'this')[1] < pulled(p, 'other')[1]:
            # both sources are user code: which one runs first is observable when they share state (two ends of one stream)
            bad = 'must pull `this` before `other` (the order of the two next() calls is observable when the sources share state)'
    elif name == 'Inspect':
        p = single()
        ok = False
        if p and p['ret'] == pulled(p, 'signal'):
            cm = [e for k, e in call_events(p) if is_call(e, 'core::ops::function::FnMut', 'call_mut')]
            if len(cm) == 1 and cm[0]['args'][0] == ('ref', self_loc(F('inspect'))):
                a = cm[0]['args'][1]
                # the closure gets a reference to the local that holds the pulled frame
                if a[0] == 'agg' and len(a[2]) == 1 and a[2][0][0] == 'ref' and load(p, a[2][0][1]) == p['ret']:
                    ok = True
        if not ok:
            bad = 'must call inspect(&frame) once on the pulled frame and return that frame unchanged'
    elif name == 'Delay':
        n = self_field(F('n_frames'))
        for p in rets:
            lo, hi = int_constraint(p, n)
            calls = next_calls(p)
            w = heap_writes(p)
            if lo >= 1:
                # still silent: no pull, n-1, equilibrium
                if calls or not EQ(p['ret']) or w.get(self_loc(F('n_frames'))) != ('op', 'Sub', n, ('int', 1, 'usize')):
                    bad = 'while n_frames > 0 it must not pull, must decrement n_frames by one and yield EQUILIBRIUM: [%s]' % describe_path(p)
            elif hi == 0:
                if len(calls) != 1 or p['ret'] != ('ret', calls[0][0]) or self_loc(F('n_frames')) in w:
                    bad = 'once n_frames == 0 it must yield signal.next() unchanged and leave the counter alone: [%s]' % describe_path(p)
            else:
                bad = 'a path is not decided by n_frames == 0 / > 0: [%s]' % describe_path(p)
            if bad:
                break
        if len(rets) != 2:
            bad = bad or 'expected exactly the two paths n_frames > 0 / == 0'
        sample = [describe_path(p) for p in rets]
    elif name == 'ClipAmp':
        p = single()
        ok = False
        if p and frame_app('map')(p['ret']) and p['ret'][2][0] == pulled(p, 'signal'):
            clo = p['ret'][2][1]
            if clo[0] == 'agg' and clo[1][0] == 'closure':
                why = check_clip_closure(cx, clo, F('thresh'), p)
                if why is None:
                    ok = True
                else:
                    bad = why
        if not ok and not bad:
            bad = 'must return signal.next().map(clamp closure)'
    elif name == "&'a mut S" or key == "&'a mut S":
        return
    else:
        return
    run.check(bad is None, 'adaptor.return-term', fn, cfg, bad or '', where=where(body), sample=sample or (describe_path(rets[0]) if rets else None))


def check_clip_closure(cx, clo, thresh_idx, outer):
    """the scalarised ClipAmp closure equals to_sample(clamp(to_sample(x), -t, t)) on the three cells"""
    body = cx.facts.by_hash.get(clo[1][2])
    if body is None:
        return 'closure body not found'
    x = ('ch',)
    paths = returning(cx.paths(body, args=[('param', 1), x]))
    # thresh as seen from inside the closure: capture 0 is a reference to self
    s = ('app', 'dasp_sample::Sample::to_sample', (x,))

    def is_thresh(t):
        # *(*env.0).thresh through any number of derefs
        return t[0] == 'field' and t[2] == thresh_idx

    def strip_ts(t):
        return t[2][0] if t[0] == 'app' and t[1] == 'dasp_sample::Sample::to_sample' else None

    cells = {}
    for p in paths:
        inner = strip_ts(p['ret'])
        if inner is None:
            return 'closure result is not converted back with to_sample: %s' % short(p['ret'])
        conds = []
        for c, v in cond_facts(p):
            if c[0] == 'app' and c[1].startswith('core::cmp::PartialOrd::'):
                a, b = c[2]
                a, b = deref(p, a), deref(p, b)
                conds.append((c[1].rsplit('::', 1)[-1], a, b, v[1]))
        cells[tuple(conds)] = inner
    # normalise: s>t true -> 'hi'; s>t false & s<-t true -> 'lo'; both false -> 'mid'
    got = {}
    for conds, inner in cells.items():
        cls = None
        okc = True
        for (op, a, b, truth) in conds:
            sa = strip_ts(a) == x if a[0] == 'app' else False
            if not sa:
                okc = False
                break
            negt = b[0] == 'app' and b[1].endswith('Neg::neg') and is_thresh(b[2][0])
            post = is_thresh(b)
            if op == 'gt' and post and truth:
                cls = 'hi'
            elif op == 'lt' and negt and truth:
                cls = 'lo'
            elif (op == 'gt' and post and not truth) or (op == 'lt' and negt and not truth):
                cls = cls or 'mid'
            else:
                okc = False
        if not okc or cls is None:
            return 'clamp closure compares something other than s > thresh / s < -thresh: %s' % (conds,)
        got[cls] = inner
    if set(got) != {'hi', 'lo', 'mid'}:
        return 'clamp closure does not have the three cells s > t, s < -t, otherwise (has %s)' % sorted(got)
    if not is_thresh(got['hi']):
        return 'for s > thresh the closure yields %s, expected thresh' % short(got['hi'])
    lo = got['lo']
    if not (lo[0] == 'app' and lo[1].endswith('Neg::neg') and is_thresh(lo[2][0])):
        return 'for s < -thresh the closure yields %s, expected -thresh' % short(lo)
    if strip_ts(got['mid']) != x:
        return 'inside [-thresh, thresh] the closure yields %s, expected the sample itself' % short(got['mid'])
    return None


def check_constructors(run, cx, cfg):
    """adaptor constructors store their arguments unmodified: every single-path function of dasp_signal that returns a
    dasp_signal struct literal must fill each field with a parameter as given (or a constant / marker / the result of a
    nested constructor call on parameters), use every parameter, and put a parameter into the field of the same name
    when such a field exists (delay(k) must store k, not k + 1; windower(bin, hop) must not swap them)"""
    n = 0
    for b in sorted(cx.facts.bodies_in('dasp_signal'), key=lambda b: b['path']):
        if b['kind'] == 'Closure' or not b.get('pub'):
            continue
        imp = b.get('impl') or {}
        if imp.get('trait') in ('core::clone::Clone', 'core::fmt::Debug', 'core::default::Default'):
            continue
        if b['path'].startswith('dasp_signal::bus::'):
            continue           # send() is checked by C13
        try:
            ps = returning(cx.paths(b['path'], inline=False))
        except T.TooComplex:
            continue
        if len(ps) != 1 or ps[0]['ret'] is None:
            continue
        r = ps[0]['ret']
        if not (r[0] == 'agg' and r[1][0] == 'adt' and r[1][1].startswith('dasp_signal::')):
            continue
        adt = r[1][1]
        fnames = cx.field_names(adt)
        pnames = {i: b['names'].get(str(i)) for i in range(1, b['argc'] + 1)}
        n += 1
        bad = None
        used = set()

        def value_ok(v, depth=0):
            v0 = strip_epoch(v)
            if v0[0] == 'param':
                used.add(v0[1])
                return True
            if v0[0] == 'ref' and v0[1][0][0] == 'P' and not v0[1][1] and v0[1][0][1][0] == 'param':
                used.add(v0[1][0][1][1])
                return True
            if v0[0] in ('float', 'int', 'bool', 'unit'):
                return True
            if v0[0] == 'agg' and not v0[2]:
                return True                      # PhantomData, None
            if v0[0] == 'agg' and depth < 2:
                return all(value_ok(x, depth + 1) for x in v0[2])
            if v0[0] in ('ret', 'mut'):
                e = ps[0]['events'][v0[1]]
                return all(value_ok(a, depth + 1) or a[0] == 'ref' for a in e['args'])
            if v0[0] == 'app':
                return False
            return False
        for i, v in enumerate(r[2]):
            if not value_ok(v):
                bad = 'field `%s` is filled with %s instead of an argument as given' % (fnames[i] if i < len(fnames) else i, short(v))
                break
            v0 = strip_epoch(v)
            if v0[0] == 'param' and i < len(fnames):
                pn = pnames.get(v0[1])
                # a field whose name equals some parameter's name must receive that parameter
                same = [j for j, nm in pnames.items() if nm == fnames[i]]
                if same and v0[1] not in same:
                    bad = 'field `%s` receives parameter `%s`, not the parameter of the same name' % (fnames[i], pn)
                    break
        if not bad:
            unused = [pnames.get(i) or i for i in range(1, b['argc'] + 1) if i not in used]
            if unused:
                bad = 'parameter(s) %s are dropped by the constructor' % unused
        # the few constructors that compute a field are owned by other properties (Rate::const_hz, C17; Window::new, C20)
        OWNED = {'dasp_signal::Rate::const_hz': 'C17 (step = hz / rate)', 'dasp_signal::from_iter': 'C05 (look-ahead priming)',
                 'dasp_signal::from_interleaved_samples_iter': 'C05 (look-ahead priming)', 'dasp_signal::window::Window::<F, W>::new': 'C20 (phase step 1/(n-1))',
                 'dasp_signal::Signal::fork': 'C12 (shared state)'}
        if b['path'] in OWNED:
            run.ok('ctor.passthrough', b['path'], cfg + ':computed-fields-owned-by-' + OWNED[b['path']].split()[0], nontrivial=False)
            continue
        run.check(bad is None, 'ctor.passthrough', b['path'], cfg, bad or '', where=where(b),
                  sample=short(r)[:120] if b['path'].endswith(('::delay', '::zip_map', 'Windower::<\'a, F, W>::new')) else None)
    run.floor('ctor.passthrough', 'constructor-like functions (%s)' % cfg, n, 30 if cfg != 'nostd' else 25)


def run(run, tier, load):
    run.rule_text = ('one instance per (impl Signal x rule x configuration); non-trivial = the impl has at least one Signal source or a '
                     'specified return term')
    run.explanation = ('All impl Signal are enumerated from the type-checked program; for each, every acyclic path of next() is summarised '
                       '(calls, writes, return term). Decided: exactly one Signal::next per source field per output on every path (Delay: none while silent), '
                       'no pull from anything else, and the return term of map/zip_map/add/mul/scale/offset(+per-channel)/inspect/clip/delay is the documented '
                       'frame operation. Composition of pointwise one-pull adaptors is pointwise (paper step, induction on the adaptor tree).')
    run.assumptions = ['user closures and user Signal impls behave as functions of their arguments', 'Frame operations are as decided by C03']
    cfgs = ['std-debug'] + (['nostd', 'std-release'] if tier == 'thorough' else [])
    for cfg in cfgs:
        fx_ = load(cfg, optional=(cfg == 'nostd'))
        if fx_ is None:
            continue
        cx = Ctx(fx_)
        n = 0
        nret = 0
        for imp in cx.facts.impls_of(SIGNAL):
            it = next((i for i in imp['items'] if i['name'] == 'next'), None)
            if it is None:
                run.fail('impl.has-next', imp['path'], cfg, 'impl Signal without next')
                continue
            body = cx.body(it['path'])
            if body is None:
                continue
            if new_type(cx.facts, impl_key(cx, imp)):
                run.note('impl Signal for %s is new (no such type on the reference tree): not one of the adaptors this property names, not examined' % impl_key(cx, imp))
                continue
            n += 1
            try:
                paths = check_generic(run, cx, cfg, imp, it['path'], body)
                key = impl_key(cx, imp)
                if key.startswith('dasp_signal::') and key not in OWNED_ELSEWHERE:
                    check_ret(run, cx, cfg, key, it['path'], body, paths)
                    nret += 1
            except T.TooComplex as e:
                run.unproven('pull.once-per-source', it['path'], cfg, 'path enumeration gave up: %s' % e, where=where(body))
        run.floor('pull.once-per-source', 'impl Signal (%s)' % cfg, n, 35 if cfg != 'nostd' else 30)
        check_constructors(run, cx, cfg)
