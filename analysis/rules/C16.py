"""C16 — built-in graph nodes compute their documented mixing, routing and delay functions.

Path summaries with the element-of abstraction (rules/elemof.py): each stock node's loop structure, which buffer of which
input is combined with which output, orientation (dst/src) and indices; wrappers forward exactly once with both arguments
unchanged.  dasp_graph links the *registry* copies of dasp_slice / dasp_ring_buffer / dasp_signal 0.11.0; calls into them
are external API identified by def path (add_in_place = element-wise add, Fixed::push = delay line; cf. C10 / C06 for the
workspace versions)."""
from rules.common import *
from rules.elemof import Den, rp

LEVEL = 'other'
NODE = 'dasp_graph::node::Node'
OUT = ('slice', ('param', 3))
INS = ('slice', ('param', 2))
CFS = 'core::slice::<impl [T]>::copy_from_slice'
ADD = 'dasp_slice::add_in_place'
RB = ('dasp_ring_buffer::',)


FILL = 'core::slice::<impl [T]>::fill'


def key_calls(p, d, names):
    """the copy / add calls of a path, with denoted arguments.  `slice.fill(0.0)` on a buffer's samples is the other
    spelling of `copy_from_slice(&SILENT)` and is reported as that copy from the silent buffer"""
    out = []
    for k, e in call_events(p):
        if rp(e) in names:
            out.append((k, rp(e), [d.slice_of(a) if a[0] == 'ref' else d.of(a) for a in e['args']]))
        elif rp(e) == FILL and CFS in names and e['args'][1][0] == 'float' and fval(e['args'][1]) == 0.0:
            out.append((k, CFS, [d.slice_of(e['args'][0]), ('silent',)]))
    return out


def fills_all_silent(p, d, sl):
    """event indices of `sl.fill(Buffer::SILENT)`: every buffer of the slice silenced in one call"""
    return [k for k, e in call_events(p) if rp(e) == FILL and d.slice_of(e['args'][0]) == sl
            and e['args'][1][0] == 'assoc' and e['args'][1][1] == 'dasp_graph::buffer::Buffer::SILENT']


def is_silent(x):
    return x == ('silent',) or (x[0] == 'samples' and x[1][0] == 'promoted' and 'Buffer::silence' in x[1][1])


def is_elem(x, of):
    return x[0] == 'elem' and x[1] == of


def check_buffer_silence(run, cx, cfg):
    """Buffer::silence writes 0.0 to every sample of the buffer: copy_from_slice(&SILENT) or fill(0.0) over the whole array"""
    fn = 'dasp_graph::buffer::Buffer::silence'
    body = cx.body(fn)
    if body is None:
        run.fail('buffer.silence', fn, cfg, 'function not found')
        return
    ps = normal_paths(cx.paths(fn))
    ok = False
    if len(ps) == 1 and ps[0]['end'] == 'return':
        d = Den(ps[0])
        calls = key_calls(ps[0], d, (CFS,))
        eff = [e for k, e in call_events(ps[0]) if rp(e) in (CFS, FILL)]
        ok = len(calls) == 1 and len(eff) == 1 and calls[0][2][0] == ('samples', ('param', 1)) and is_silent(calls[0][2][1])
    # ... and the constant every silencing refers to is 64 zeros
    cb = cx.facts.const_bodies.get('dasp_graph::buffer::Buffer::SILENT')
    okc = False
    if cb is not None and len(cb['blocks']) == 1 and cb['blocks'][0]['t']['k'] == 'return':
        reps = [st for st in cb['blocks'][0]['s'] if st[0] == '=' and st[2][0] == 'repeat']
        aggs = [st for st in cb['blocks'][0]['s'] if st[0] == '=' and st[2][0] == 'agg' and st[2][1][0] == 'adt' and st[2][1][1] == 'dasp_graph::buffer::Buffer']
        if len(reps) == 1 and len(aggs) == 1 and len(cb['blocks'][0]['s']) == 2:
            c = reps[0][2][1]
            okc = c[0] == 'c' and c[1].get('ty') == 'f32' and str(c[1].get('bits')) == '0' and str(reps[0][2][2]) == '64' \
                and aggs[0][1] == [0, []] and aggs[0][2][2] == [['mv', reps[0][1]]]
    run.check(okc, 'buffer.silent-const', 'dasp_graph::buffer::Buffer::SILENT', cfg, 'Buffer::SILENT must be Buffer { data: [0.0; 64] }',
              where=where(cb) if cb else None)
    run.check(ok, 'buffer.silence', fn, cfg, 'must set every sample of the buffer to 0.0 (copy_from_slice(&SILENT) or fill(0.0) over the whole sample array): [%s]' % '; '.join(describe_path(p)[:200] for p in ps),
              where=where(body))


def check_sum(run, cx, cfg):
    fn = '<dasp_graph::node::sum::Sum as %s>::process' % NODE
    body = cx.body(fn)
    if body is None:
        run.fail('node.sum', fn, cfg, 'impl not found')
        return
    ps = normal_paths(cx.paths(fn))
    bad = None
    kinds = set()
    silence_hdr = None
    for p in ps:
        d = Den(p)
        calls = key_calls(p, d, (CFS, ADD))
        for k, name, args in calls:
            if name == CFS:
                if not (args[0][0] == 'samples' and is_elem(args[0][1], OUT) and is_silent(args[1])):
                    bad = 'unexpected copy %s <- %s' % (args[0], args[1])
                    break
                silence_hdr = args[0][1][2]
                # silencing happens in the first loop only: no add before it on this path
                if any(n == ADD and kk < k for kk, n, _ in calls):
                    bad = 'an output is silenced after inputs were already added to it'
                kinds.add('silence')
            else:
                dst, src = args
                # dst = samples(elem(out, h2)), src = samples(get(buffers(elem(inputs, h3)), index(elem(out, h2))))
                ok = (dst[0] == 'samples' and is_elem(dst[1], OUT) and src[0] == 'samples' and src[1][0] == 'get' and src[1][1][0] == 'buffers'
                      and is_elem(src[1][1][1], INS) and src[1][2] == ('index', dst[1]))
                if not ok:
                    bad = 'must add, for every input, that input\'s buffer of the SAME channel index as the output buffer: adds %s into %s' % (src, dst)
                    break
                if silence_hdr is not None and dst[1][2] == silence_hdr:
                    bad = 'adds inside the silencing loop'
                # the add loop over outputs is only entered after the silencing loop finished
                enters = [e['header'] for e in p['events'] if e['kind'] == 'loop-enter']
                fa = fills_all_silent(p, d, OUT)
                if len(enters) < 3 and not (len(enters) == 2 and fa and fa[0] < k):
                    bad = 'expected silence loop, output loop, input loop'
                if fa:
                    kinds.add('silence')
                kinds.add('add')
        if not bad and p['end'] == 'return':
            # must pass through: whatever the inputs, a call returns only after the silencing loop and the channel loop over
            # the outputs have both run to their end (with no input the sum is silence, not the previous block)
            dens = [d.iter_of(l['iter']) for l in iterator_loops(p)]      # (whichever frame: the loops may live in private helpers)
            fa = fills_all_silent(p, d, OUT)
            chan = [l['enter'] for l in iterator_loops(p) if d.iter_of(l['iter']) == ('enumerate', ('seq', OUT))]
            if fa and chan and fa[0] < chan[0]:
                pass        # output.fill(Buffer::SILENT) before the channel loop
            elif ('seq', OUT) not in dens or ('enumerate', ('seq', OUT)) not in dens or dens.index(('seq', OUT)) > dens.index(('enumerate', ('seq', OUT))):
                bad = 'returns without having run the silencing loop and then the channel loop over all outputs: [%s]' % describe_path(p)[:300]
        if bad:
            break
        # a missing channel in an input is skipped (no add on the None branch)
        for k, e in call_events(p):
            if rp(e) == 'core::slice::<impl [T]>::get' and dict(cond_facts(p)).get(('discr', ('ret', k))) == ('int', 0, 'isize'):
                if any(n == ADD and kk > k for kk, n, _ in calls):
                    bad = 'adds although the input lacks that channel'
                kinds.add('skip')
    if not bad and kinds != {'silence', 'add', 'skip'}:
        bad = 'lacks a case (has %s)' % sorted(kinds)
    run.check(bad is None, 'node.sum', fn, cfg, bad or '', where=where(body), sample='out[ch] = sum over inputs having channel ch of input.buffers()[ch], after silencing every out buffer')


def check_sum_buffers(run, cx, cfg):
    fn = '<dasp_graph::node::sum::SumBuffers as %s>::process' % NODE
    body = cx.body(fn)
    if body is None:
        run.fail('node.sum_buffers', fn, cfg, 'impl not found')
        return
    ps = normal_paths(cx.paths(fn))
    bad = None
    kinds = set()
    first = ('samples', ('nth', OUT, 0))
    for p in ps:
        d = Den(p)
        calls = key_calls(p, d, (CFS, ADD))
        if not calls:
            # no output buffers: return untouched -- the only reason not to silence the first output buffer is that
            # there is none (the first pull from the output iterator gave None)
            if p['end'] == 'return':
                cf = dict(cond_facts(p))
                none_first = [k for k, e in call_events(p) if e['name'] == 'next' and e.get('trait') == ITER
                              and option_variant(cf, ('ret', k)) == 0 and d.next_elem(k) == ('nth', OUT, 0)]
                if not none_first:
                    bad = 'returns without silencing the first output buffer although there may be one (with no input the sum is silence, not the previous block): [%s]' % describe_path(p)[:300]
                    break
                kinds.add('empty')
            continue
        k0, n0, a0 = calls[0]
        if not (n0 == CFS and a0[0] == first and is_silent(a0[1])):
            bad = 'the first output buffer must be silenced before anything else'
            break
        for k, name, args in calls[1:]:
            if name == ADD:
                ok = args[0] == first and args[1][0] == 'samples' and args[1][1][0] == 'elem' and args[1][1][1][0] == 'buffers' and is_elem(args[1][1][1][1], INS)
                if not ok:
                    bad = 'every buffer of every input must be added into the first output buffer: adds %s into %s' % (args[1], args[0])
                kinds.add('add')
            else:
                ok = args[1] == first and args[0][0] == 'samples' and args[0][1][0] == 'rest' and args[0][1][1] == OUT and args[0][1][2] == 1
                if not ok:
                    bad = 'the accumulated first buffer must be copied to every remaining output buffer: copies %s into %s' % (args[1], args[0])
                if any(n == ADD and kk > k for kk, n, _ in calls):
                    bad = 'copies to the remaining outputs before all inputs were added'
                kinds.add('copy')
        if bad:
            break
    if not bad and not {'empty', 'add', 'copy'} <= kinds:
        bad = 'lacks a case (has %s)' % sorted(kinds)
    run.check(bad is None, 'node.sum_buffers', fn, cfg, bad or '', where=where(body))


def first_input_absent(p, d):
    """how the path decided whether there is a first input: inputs.get(0) / inputs.first() matched on, or the slice pattern
    `let [input, ..] = inputs else { .. }` (a test `inputs.len() >= 1`); True = absent, False = present, None = not looked at"""
    gets = [(k, e) for k, e in call_events(p) if rp(e) in ('core::slice::<impl [T]>::get', 'core::slice::<impl [T]>::first')]
    if gets and d.slice_of(gets[0][1]['args'][0]) == INS and not (rp(gets[0][1]).endswith('::get') and gets[0][1]['args'][1] != ('int', 0, 'usize')):
        v = dict(cond_facts(p)).get(('discr', ('ret', gets[0][0])))
        return True if v == ('int', 0, 'isize') else (False if v == ('int', 1, 'isize') else None)
    for c, val in cond_facts(p):
        if c[0] == 'op' and c[1] in ('Ge', 'Lt', 'Eq', 'Ne', 'Gt') and c[2][0] == 'len' and d.slice_of(c[2][1]) == INS and val[0] == 'bool':
            k = c[3]
            if c[1] in ('Ge', 'Lt') and k == ('int', 1, 'usize'):
                return (not val[1]) if c[1] == 'Ge' else val[1]
            if c[1] in ('Eq', 'Ne', 'Gt') and k == ('int', 0, 'usize'):
                return val[1] if c[1] == 'Eq' else (not val[1])
    return None


def check_pass(run, cx, cfg):
    fn = '<dasp_graph::node::pass::Pass as %s>::process' % NODE
    body = cx.body(fn)
    if body is None:
        run.fail('node.pass', fn, cfg, 'impl not found')
        return
    ps = normal_paths(cx.paths(fn))
    bad = None
    kinds = set()
    in0 = ('buffers', ('get', INS, ('int', 0, 'usize')))
    for p in ps:
        d = Den(p)
        calls = key_calls(p, d, (CFS, ADD))
        # inputs.get(0), or its other spelling inputs.first()
        none = first_input_absent(p, d)
        if none is None:
            bad = 'must look at inputs.get(0)'
            break
        if none:
            if calls or heap_writes(p):
                bad = 'without an input the outputs must be left untouched'
            kinds.add('absent')
            continue
        for k, name, args in calls:
            hdr = args[0][1][2] if args[0][0] == 'samples' and args[0][1][0] == 'elem' else None
            ok = name == CFS and args[0] == ('samples', ('elem', OUT, hdr)) and args[1] == ('samples', ('elem', in0, hdr))
            if not ok:
                bad = 'must copy buffer i of the first input onto output i: copies %s into %s' % (args[1], args[0])
            kinds.add('copy')
    if not bad and kinds != {'absent', 'copy'}:
        bad = 'lacks a case (has %s)' % sorted(kinds)
    run.check(bad is None, 'node.pass', fn, cfg, bad or '', where=where(body))


def check_delay(run, cx, cfg):
    fn = '<dasp_graph::node::delay::Delay<S> as %s>::process' % NODE
    body = cx.body(fn)
    if body is None:
        run.fail('node.delay', fn, cfg, 'impl not found')
        return
    PUSH = 'dasp_ring_buffer::Fixed::<S>::push'
    ps = normal_paths(cx.paths(fn, opaque_prefixes=RB))
    bad = None
    kinds = set()
    in0 = ('buffers', ('get', INS, ('int', 0, 'usize')))
    for p in ps:
        d = Den(p)
        # inputs.get(0), or its other spelling inputs.first()
        none = first_input_absent(p, d)
        if none is None:
            bad = 'must look at inputs.get(0)'
            break
        pushes = [(k, e) for k, e in call_events(p) if rp(e) == PUSH]
        if none:
            if pushes or heap_writes(p):
                bad = 'without an input nothing may be pushed or written'
            kinds.add('absent')
            continue
        for k, e in pushes:
            ring = d.of(e['args'][0])
            val = d.of(e['args'][1])
            # ring = elem(vec(self.0), h1); val = in_buf[i] with in_buf = elem(in0, h1), i = index(elem(samples(elem(out, h1)), h2))
            ok = ring[0] == 'elem' and ring[1][0] == 'vec'
            h1 = ring[2] if ok else None
            outb = ('samples', ('elem', OUT, h1))
            if ok:
                ok = (val[0] == 'get' and val[1] == ('samples', ('elem', in0, h1)) and val[2][0] == 'index' and val[2][1][0] == 'elem' and val[2][1][1] == outb)
            if not ok:
                bad = 'each channel must push in_buf[i] through that channel\'s ring buffer: pushes %s into %s' % (val, ring)
                break
            dst = ('elem', outb, val[2][1][2])
            w = [(d.of(('ref', loc)), v) for loc, v in p['writes'].items() if v == ('ret', k)]
            if len(w) != 1 or w[0][0] != dst:
                bad = 'the value falling out of the ring buffer must be written to out_buf[i] (written to %s)' % ([x[0] for x in w],)
            kinds.add('push')
        if bad:
            break
    if not bad and not {'absent', 'push'} <= kinds:
        bad = 'lacks a case (has %s)' % sorted(kinds)
    run.check(bad is None, 'node.delay', fn, cfg, bad or '', where=where(body), sample='out[c][i] = ring[c].push(in[c][i]) for zipped (ring, in, out) channels')


def check_signal_node(run, cx, cfg):
    fn = "dasp_graph::node::signal::<impl dasp_graph::node::Node for (dyn dasp_signal::Signal<Frame = F> + 'static)>::process"
    body = cx.body(fn)
    if body is None:
        run.fail('node.signal', fn, cfg, 'impl not found')
        return
    ps = normal_paths(cx.paths(fn))
    bad = None
    kinds = set()
    for p in ps:
        d = Den(p)
        loops = range_loops(p)
        nexts = [(k, e) for k, e in call_events(p) if e['name'] == 'next' and e.get('trait') == 'dasp_signal::Signal']
        if not loops:
            if p['end'] == 'return':
                bad = 'returns without rendering the block (the frame loop over 0..Buffer::LEN was never entered): [%s]' % describe_path(p)[:300]
                break
            continue
        outer = loops[0]
        if outer['lo'] != ('int', 0, 'usize') or not (outer['hi'][0] in ('int', 'assoc', 'constval') ):
            bad = 'the frame loop must run over 0..Buffer::LEN (runs to %s)' % short(outer['hi'])
            break
        if outer['hi'][0] == 'int' and outer['hi'][1] != 64:
            bad = 'the frame loop must run over Buffer::LEN = 64 frames'
            break
        if len(loops) >= 2:
            inner = loops[1]
            hi = inner['hi']
            # channels = min(F::CHANNELS, output.len())
            ok = hi[0] == 'ret' and (rp(p['events'][hi[1]]) == 'core::cmp::min' or (p['events'][hi[1]]['name'] == 'min' and p['events'][hi[1]].get('trait') == 'core::cmp::Ord'))
            if ok:
                a = p['events'][hi[1]]['args']
                ok = any(x[0] == 'assoc' and x[2] == 'CHANNELS' for x in a) and any(x[0] == 'ret' and rp(p['events'][x[1]]) == 'core::slice::<impl [T]>::len' and d.slice_of(p['events'][x[1]]['args'][0]) == OUT for x in a)
            if not ok or inner['lo'] != ('int', 0, 'usize'):
                bad = 'the channel loop must run over 0..min(F::CHANNELS, output.len()) so that channel_unchecked(ch) is in range'
                break
            # body of the channel loop
            ch_next = inner['nexts'][0]
            if dict(cond_facts(p)).get(('discr', ('ret', ch_next))) == ('int', 1, 'isize'):
                ch = ('field', ('variant', ('ret', ch_next), 1), 0)
                ix = ('field', ('variant', ('ret', outer['nexts'][0]), 1), 0)
                w = [(loc, v) for loc, v in heap_writes(p).items() if v[0] != 'phiheap']
                cu = [(k, e) for k, e in call_events(p, effectful_only=False) if e['name'] == 'channel_unchecked' and k > ch_next]
                ok = len(cu) == 1 and cu[0][1]['args'][1] == ch and len(nexts) == 1 and nexts[0][0] < ch_next and nexts[0][0] > outer['nexts'][0]
                if ok:
                    frame = load(p, cu[0][1]['args'][0][1]) if cu[0][1]['args'][0][0] == 'ref' else None
                    ok = frame == ('ret', nexts[0][0])
                if ok:
                    okw = False
                    for loc, v in w:
                        idxs = [e for e in loc[1] if e[0] == 'idx']
                        if strip_epoch(v)[0] == 'deref' and [strip_epoch(e[1]) for e in idxs][-1:] == [ix]:
                            okw = True
                    ok = okw
                if not ok:
                    bad = 'per frame ix: one signal.next(), then output[ch][ix] = frame.channel(ch) for every ch: [%s]' % describe_path(p)[:300]
                kinds.add('scatter')
            else:
                kinds.add('frame-done')
        if len(nexts) > 1:
            bad = 'pulls more than one frame per buffer position'
        if bad:
            break
    if not bad and not {'scatter', 'frame-done'} <= kinds:
        bad = 'lacks a case (has %s)' % sorted(kinds)
    run.check(bad is None, 'node.signal', fn, cfg, bad or '', where=where(body))


def check_graph_node(run, cx, cfg):
    fn = '<dasp_graph::node::graph::GraphNode<G, T> as %s>::process' % NODE
    body = cx.body(fn)
    if body is None:
        run.fail('node.graph', fn, cfg, 'impl not found')
        return
    K = 'dasp_graph::node::graph::GraphNode'
    pi, gi, ii, oi = (cx.field_index(K, n) for n in ('processor', 'graph', 'input_nodes', 'output_node'))
    PROC = 'dasp_graph::Processor::<G>::process'
    NWM = 'petgraph::data::DataMapMut::node_weight_mut'
    ps = normal_paths(cx.paths(fn, stop=[PROC]))
    bad = None
    kinds = set()
    for p in ps:
        d = Den(p)
        procs = [(k, e) for k, e in call_events(p) if rp(e) == PROC]
        copies = key_calls(p, d, (CFS,))
        if len(procs) > 1:
            bad = 'processes the inner graph more than once'
            break
        for k, e in procs:
            a = e['args']
            if not (a[0] == ('ref', self_loc(pi)) and a[1] == ('ref', self_loc(gi)) and strip_epoch(a[2]) == self_field(oi)):
                bad = 'must call processor.process(graph, output_node)'
        for k, name, args in copies:
            dst, src = args
            before = not [1 for kk, _ in procs if kk < k]
            if before:
                # copy each input's buffers into the designated inner input node
                ok = (src[0] == 'samples' and src[1][0] == 'elem' and src[1][1][0] == 'buffers' and is_elem(src[1][1][1], INS)
                      and dst[0] == 'samples' and dst[1][0] == 'elem' and dst[1][1][0] == 'vec')
                if ok:
                    # the destination node is node_weight_mut(graph, elem(input_nodes)) zipped with the same position as the input
                    nw = [(kk, e2) for kk, e2 in call_events(p) if rp(e2) == NWM and kk < k]
                    ok = bool(nw) and nw[-1][1]['args'][0] == ('ref', self_loc(gi))
                    if ok:
                        idn = d.of(nw[-1][1]['args'][1])
                        ok = idn[0] == 'elem' and idn[1] == ('slice', ('field', ('param', 1), ii)) or (idn[0] == 'elem' and idn[1][0] in ('vec', 'slice') and idn[2] == src[1][1][1][2])
                        ok = ok and idn[2] == src[1][1][1][2]
                if not ok:
                    bad = 'before processing, input k\'s buffers must be copied INTO the buffers of inner node input_nodes[k]: copies %s into %s' % (src, dst)
                kinds.add('copy-in')
            else:
                ok = dst[0] == 'samples' and is_elem(dst[1], OUT) and src[0] == 'samples' and src[1][0] == 'elem'
                if ok:
                    nw = [(kk, e2) for kk, e2 in call_events(p) if rp(e2) == NWM and kk > procs[0][0] and kk < k]
                    ok = bool(nw) and strip_epoch(nw[-1][1]['args'][1]) == self_field(oi)
                if not ok:
                    bad = 'after processing, the output node\'s buffers must be copied OUT to the node\'s outputs: copies %s into %s' % (src, dst)
                kinds.add('copy-out')
        if procs:
            kinds.add('process')
        if not bad and p['end'] == 'return':
            # must pass through: the input loop, the inner processor, the output loop -- in this order, on every return
            loops = [(l['enter'], d.iter_of(l['iter'])) for l in iterator_loops(p)]
            ins_loops = [k for k, den in loops if den[0] == 'zip' and den[1] == ('seq', INS)]
            out_loops = [k for k, den in loops if den[0] == 'zip' and den[1] == ('seq', OUT)]
            if not procs or not ins_loops or not out_loops or not (ins_loops[0] < [k for k, e in enumerate(p['events']) if e is procs[0][1]][0] < out_loops[0]):
                bad = 'returns without having copied the inputs in, processed the inner graph and copied the outputs out, in this order: [%s]' % describe_path(p)[:300]
        if bad:
            break
    if not bad and not {'copy-in', 'process', 'copy-out'} <= kinds:
        bad = 'lacks a case (has %s)' % sorted(kinds)
    run.check(bad is None, 'node.graph', fn, cfg, bad or '', where=where(body))


def check_wrappers(run, cx, cfg):
    rows = [
        ("<&'a mut T as %s>::process" % NODE, 'trait', ('ref', (('P', ('deref', SELF)), ()))),
        ('<alloc::boxed::Box<T> as %s>::process' % NODE, 'trait', None),
        ('<dasp_graph::node::boxed::BoxedNode as %s>::process' % NODE, 'trait', None),
        ('<dasp_graph::node::boxed::BoxedNodeSend as %s>::process' % NODE, 'trait', None),
        ("<(dyn for<'a, 'b> core::ops::function::Fn(&'a [dasp_graph::node::Input], &'b mut [dasp_graph::buffer::Buffer]) + 'static) as %s>::process" % NODE, 'fn', None),
        ("<(dyn for<'a, 'b> core::ops::function::FnMut(&'a [dasp_graph::node::Input], &'b mut [dasp_graph::buffer::Buffer]) + 'static) as %s>::process" % NODE, 'fn', None),
        ("<for<'a, 'b> fn(&'a [dasp_graph::node::Input], &'b mut [dasp_graph::buffer::Buffer]) as %s>::process" % NODE, 'fn', None),
    ]
    n = 0
    for fn, kind, recv in rows:
        body = cx.body(fn)
        if body is None:
            run.fail('node.wrapper', fn, cfg, 'impl not found')
            continue
        n += 1
        ps = returning(cx.paths(fn, stop_trait_methods=[(NODE, 'process')]))
        ok = False
        if len(ps) == 1:
            evs = [e for k, e in call_events(ps[0]) if e['kind'] == 'call' and not rp(e).endswith(('::deref', '::deref_mut', '::as_mut', '::as_ref', '::borrow_mut', '::borrow'))]
            if len(evs) == 1:
                e = evs[0]
                if kind == 'trait':
                    ok = is_call(e, NODE, 'process') and [unre(a) for a in e['args'][1:]] == [('param', 2), ('param', 3)]
                    if recv is not None:
                        ok = ok and e['args'][0] == recv
                else:
                    a = e['args']
                    if e.get('callee') is None:
                        ok = [unre(x) for x in a] == [('param', 2), ('param', 3)]
                    else:
                        ok = e['name'] in ('call', 'call_mut', 'call_once') and a[1][0] == 'agg' and [unre(x) for x in a[1][2]] == [('param', 2), ('param', 3)]
        run.check(ok, 'node.wrapper', fn, cfg, 'must forward exactly once with (inputs, output) unchanged: [%s]' % '; '.join(describe_path(p) for p in ps)[:300], where=where(body))
    run.floor('node.wrapper', 'forwarding impls (%s)' % cfg, n, 7)


def unre(t):
    while t[0] == 'ref' and t[1][0][0] == 'P' and not t[1][1]:
        t = t[1][0][1]
    return t


def run(run, tier, loadcfg):
    run.rule_text = 'one instance per stock node / wrapper impl; each over all acyclic paths incl. generic loop iterations'
    run.explanation = __doc__
    run.assumptions = ['core iterator adaptors (iter, iter_mut, zip, enumerate) visit slices position-wise in order', 'registry dasp_slice::add_in_place / dasp_ring_buffer::Fixed::push as documented',
                       'with C06 the delay is the ring length; with C09 a nested graph behaves like the graph (paper)']
    cfg = 'std-debug'
    cx = Ctx(loadcfg(cfg))
    check_buffer_silence(run, cx, cfg)
    check_sum(run, cx, cfg)
    check_sum_buffers(run, cx, cfg)
    check_pass(run, cx, cfg)
    check_delay(run, cx, cfg)
    check_signal_node(run, cx, cfg)
    check_graph_node(run, cx, cfg)
    check_wrappers(run, cx, cfg)
