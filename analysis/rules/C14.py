"""C14 — buffered signals are a transparent prefetch of the source.

Step-function conformance of Buffered::next / next_frames / is_exhausted and BufferedFrames::next with the ring
buffer as an opaque FIFO (C06): pop first; only when empty refill with exactly max_len() pulls, each pushed; batches
are handed out over the same ring buffer; exhausted iff empty and source exhausted."""
from rules.common import *
from rules.C04 import STOP

LEVEL = 'other'
RB = ('dasp_ring_buffer::',)
KEY = 'dasp_signal::Buffered'


def rb(e, name):
    return e['kind'] == 'call' and (e.get('rpath') or e['path']) == 'dasp_ring_buffer::Bounded::<S>::' + name


def rb_path(e):
    return (e.get('rpath') or e['path']) if e['kind'] == 'call' else ''


CX = None
INV = {}


def unre_ref(t):
    """&*r for a reference value r is r"""
    while t is not None and t[0] == 'ref' and t[1][0][0] == 'P' and not t[1][1] and t[1][0][1][0] == 'ref':
        t = t[1][0][1]
    return t


def refill_ok(p, si, ri, after):
    """the path contains, after event index `after`, one pass through a `for _ in 0..ring_buffer.max_len()` loop whose body is
    push(signal.next()); returns (kind, why): kind in {'iteration', 'exit'}"""
    # the refill spelled `ring_buffer.extend((0..max_len).map(|_| signal.next()))`: the Extend impl (one push per item, C06
    # rb.extend) is inlined, the loop is driven by the mapped range: max_len items, each one pull of this signal
    for l in [l for l in iterator_loops(p) if l['enter'] > after]:
        it = l['iter']
        refill_ok.enter = l['enter']
        src = p['events'][it[1]] if it[0] == 'ret' else None
        if src is not None and rb_path(src).endswith('IntoIterator>::into_iter') or (src is not None and src['name'] == 'into_iter'):
            it = src['args'][0]
            src = p['events'][it[1]] if it[0] == 'ret' else None
        if src is None or not is_call(src, ITER, 'map'):
            continue
        rng, clo = src['args']
        hi = rng[2][1] if rng[0] == 'agg' and rng[1][1] == 'core::ops::range::Range' and rng[2][0] == ('int', 0, 'usize') else None
        if hi is None or hi[0] != 'ret' or not rb(p['events'][hi[1]], 'max_len') or p['events'][hi[1]]['args'][0] != ('ref', self_loc(ri)):
            return None, 'refill must produce exactly ring_buffer.max_len() items'
        cps = returning(CX.closure_paths(clo, p, [('i',)], stop_trait_methods=STOP, opaque_prefixes=RB)) if clo[0] == 'agg' else []
        okc = False
        if len(cps) == 1:
            ce = call_events(cps[0])
            a0 = subst_invariants(ce[0][1]['args'][0], INV) if ce else None
            okc = len(ce) == 1 and is_call(ce[0][1], SIGNAL, 'next') and cps[0]['ret'] == ('ret', ce[0][0]) and unre_ref(a0) == ('ref', self_loc(si))
        if not okc:
            return None, 'each refilled item must be one signal.next()'
        d = dict(cond_facts(p)).get(('discr', ('ret', l['next'])))
        body_evs = [(k, e) for k, e in call_events(p) if k > l['next']]
        pulls_outside = [(k, e) for k, e in call_events(p) if is_call(e, SIGNAL, 'next')]
        if pulls_outside:
            return None, 'pulls outside the mapped refill iterator'
        if d == ('int', 1, 'isize'):
            ok = len(body_evs) == 1 and rb(body_evs[0][1], 'push') and body_evs[0][1]['args'] == [('ref', self_loc(ri)), ('field', ('variant', ('ret', l['next']), 1), 0)]
            return ('iteration', None) if ok else (None, 'one refill iteration must be exactly ring_buffer.push(item)')
        if d == ('int', 0, 'isize'):
            return ('exit', None) if not body_evs else (None, 'effects after the refill has finished')
        return None, 'refill loop not driven by its iterator'
    loops = [l for l in range_loops(p) if l['enter'] > after]
    counters = [l for l in counter_loops(p) if l['enter'] > after] if not loops else []
    downs = [l for l in countdown_loops(p) if l['enter'] > after] if not (loops or counters) else []
    if len(loops) + len(counters) + len(downs) != 1:
        return None, 'expected one refill loop over a range'
    l = (loops or counters or downs)[0]
    refill_ok.enter = l['enter']
    if downs:
        # `for frame in (&mut signal).take(max_len)`: dasp's own Take counts max_len down to zero
        l = dict(l, lo=('int', 0, 'usize'), hi=l['count'])
        take = p['events'][l['enter']]['before'][l['local']]
        if take[1][1] != 'dasp_signal::Take' or ('ref', self_loc(si)) not in take[2]:
            return None, 'refill loop must take from this signal'
    hi = l['hi']
    ok_bound = l['lo'] == ('int', 0, 'usize') and hi[0] == 'ret' and rb(p['events'][hi[1]], 'max_len') and p['events'][hi[1]]['args'][0] == ('ref', self_loc(ri))
    if not ok_bound:
        return None, 'refill loop must run over 0..ring_buffer.max_len() (is %s..%s)' % (short(l['lo']), short(hi))
    if counters or downs:
        # `while pushed < max_len { ..; pushed += 1 }` / a count-down: same trip count as the range loop
        start = l['enter']
        d = ('int', 1, 'isize') if l['kind'] == 'iteration' else ('int', 0, 'isize')
    else:
        if len(l['nexts']) != 1:
            return None, 'refill loop advances its range %d times per iteration' % len(l['nexts'])
        start = l['nexts'][0]
        d = dict(cond_facts(p)).get(('discr', ('ret', start)))
    body_evs = [(k, e) for k, e in call_events(p) if k > start]
    nx = [(k, e) for k, e in body_evs if is_call(e, SIGNAL, 'next')]
    pu = [(k, e) for k, e in body_evs if rb(e, 'push')]
    outside = [(k, e) for k, e in call_events(p) if k < start and (is_call(e, SIGNAL, 'next') or rb(e, 'push'))]
    if outside:
        return None, 'pulls or pushes outside the refill loop'
    if d == ('int', 1, 'isize'):
        # (a pull through `&mut take.signal` where take.signal is the loop-invariant `&mut self.signal` is a pull of this signal:
        #  `impl Signal for &mut S` forwards, C04)
        src_ok = len(nx) == 1 and (nx[0][1]['args'][0] == ('ref', self_loc(si)) or (
            nx[0][1]['args'][0][0] == 'ref' and nx[0][1]['args'][0][1][0][0] == 'L'
            and subst_invariants((nx[0][1].get('pre') or {}).get(0), INV) == ('ref', self_loc(si))))
        ok = (len(nx) == 1 and len(pu) == 1 and nx[0][0] < pu[0][0] and src_ok
              and pu[0][1]['args'] == [('ref', self_loc(ri)), ('ret', nx[0][0])] and len(body_evs) == 2)
        return ('iteration', None) if ok else (None, 'one refill iteration must be exactly ring_buffer.push(signal.next())')
    if d == ('int', 0, 'isize'):
        if nx or pu:
            return None, 'pulls after the refill loop has finished'
        return 'exit', None
    return None, 'refill loop not driven by its range'


def next_trace(p, si, ri):
    """Buffered::next as a trace language, for bodies that are not literally `loop { match pop { .. } }`:  along the path the
    ring-buffer / source events must spell  (pop = None ; refill)* pop = Some(frame) ; return frame.  Two states: A = the
    next relevant event must be a pop, B = the buffer was just found empty and must be refilled.  A loop header is
    entered in one state and every back edge to it must arrive in that same state (every path starts at the function
    entry, so a path that ends at a back edge has crossed that header before).  Returns (kinds, why)."""
    facts = dict(cond_facts(p))
    evs = call_events(p)
    state, hstate, kinds = 'A', {}, set()
    covered_from = None         # index of the None-pop whose refill `refill_ok` has validated (it vets every later pull / push)
    refilled_at = None          # index of the loop-enter event of a refill loop that this path leaves at once ('exit')
    for k, e in enumerate(p['events']):
        if e['kind'] == 'loop-enter':
            hstate.setdefault(e['header'], state)
            if k == refilled_at:
                state = 'A'
            continue
        if e['kind'] != 'call':
            continue
        if rb_path(e).startswith(RB) and not (rb(e, 'pop') or rb(e, 'push') or rb(e, 'max_len')):
            return None, 'touches the ring buffer other than by pop / push / max_len (%s)' % rb_path(e)
        if (rb(e, 'push') or is_call(e, SIGNAL, 'next')) and covered_from is None:
            return None, 'pulls or pushes before the ring buffer was found empty'
        if not rb(e, 'pop'):
            continue
        if e['args'][0] != ('ref', self_loc(ri)):
            return None, 'pops another ring buffer'
        if state != 'A':
            return None, 'pops again without refilling'
        d = facts.get(('discr', ('ret', k)))
        if d == ('int', 1, 'isize'):
            if [x for x in evs if x[0] > k] or p['end'] != 'return' or p['ret'] != ('field', ('variant', ('ret', k), 1), 0):
                return None, 'a popped frame must be returned at once, without pulling'
            kinds.add('hit')
            return kinds, None
        if d != ('int', 0, 'isize'):
            return None, 'pop() result not examined'
        state = 'B'
        if not any(f['kind'] == 'loop-enter' for f in p['events'][k + 1:]):
            if [x for x in evs if x[0] > k and (rb_path(x[1]).startswith(RB) or is_call(x[1], SIGNAL, 'next'))]:
                return None, 'pulls or pushes outside the refill loop'
            break               # the refill lies behind a back edge: decided by the header states below
        kind, why = refill_ok(p, si, ri, k)
        if why:
            return None, why
        covered_from = k
        kinds.add(kind)
        if kind == 'iteration':
            return kinds, None          # refill_ok: nothing but push(signal.next()) until the refill loop's own back edge
        refilled_at = refill_ok.enter
    if p['end'] == 'return':
        return None, 'returns something other than a frame just popped'
    if not (isinstance(p['end'], tuple) and p['end'][0] == 'back') or hstate.get(p['end'][1]) != state:
        return None, 'a loop is re-entered in another state (%s) than it was first entered in (%s)' % (state, hstate.get(p['end'][1]) if isinstance(p['end'], tuple) else p['end'])
    return kinds, None


def run(run, tier, loadcfg):
    run.rule_text = 'one instance per (function x configuration); each is a step-function conformance check over all acyclic paths'
    run.explanation = ('Buffered::next = loop { pop -> Some(f): return f | None: for _ in 0..max_len() { push(signal.next()) } }; next_frames refills (same loop) iff '
                       'len() == 0 and returns BufferedFrames over the same ring buffer, whose next() is pop(); is_exhausted = len() == 0 AND signal.is_exhausted(). '
                       'With the ring buffer a FIFO (C06) the stream is prefill ++ source (paper step).')
    run.assumptions = ['dasp_ring_buffer::Bounded is an opaque FIFO here (decided by C06)']
    for cfg in ['std-debug'] + (['nostd', 'std-release'] if tier == 'thorough' else []):
        fx_ = loadcfg(cfg, optional=(cfg == 'nostd'))
        if fx_ is None:
            continue
        cx = Ctx(fx_)
        global CX
        CX = cx
        from rules import C06
        C06.check_used(run, cx, cfg, [b for b in fx_.bodies.values() if b['crate'] == 'dasp_signal' and 'Buffered' in b['path']], 4, handed=C06.B)
        si, ri = cx.field_index(KEY, 'signal'), cx.field_index(KEY, 'ring_buffer')
        if si is None or ri is None:
            run.fail('buffered.fields', KEY, cfg, 'Buffered { signal, ring_buffer } not found')
            continue
        # ---- constructor / destructor: "pulls exactly one buffer's worth when empty and none otherwise" starts at construction:
        # buffered() must store the source and the ring buffer untouched (no pull, no push), into_parts must hand them back
        fn = 'dasp_signal::Signal::buffered'
        body = cx.body(fn)
        if body is None:
            run.fail('buffered.ctor', fn, cfg, 'function not found')
        else:
            ps = normal_paths(cx.paths(fn, stop_trait_methods=STOP, opaque_prefixes=RB))
            bad = None
            if len(ps) != 1 or ps[0]['end'] != 'return':
                bad = 'expected a single returning path'
            else:
                p = ps[0]
                evs = [ev_key(e) for k, e in call_events(p)]
                r = p['ret']
                if evs or heap_writes(p):
                    bad = 'touches the source or the ring buffer at construction (%s): no frame may be pulled before one is requested' % ', '.join(evs or ['writes'])
                elif not (r[0] == 'agg' and r[1][1] == KEY and r[2][si] == ('param', 1) and r[2][ri] == ('param', 2)):
                    bad = 'must be Buffered { signal: self, ring_buffer }: %s' % short(r)
            run.check(bad is None, 'buffered.ctor', fn, cfg, bad or '', where=where(body))
        fn = 'dasp_signal::Buffered::<S, D>::into_parts'
        body = cx.body(fn)
        if body is not None:
            ps = normal_paths(cx.paths(fn, stop_trait_methods=STOP, opaque_prefixes=RB))
            ok = len(ps) == 1 and not call_events(ps[0]) and ps[0]['ret'] == ('agg', ('tuple',), (('field', ('param', 1), si), ('field', ('param', 1), ri)))
            run.check(ok, 'buffered.ctor', fn, cfg, 'into_parts must return (signal, ring_buffer) untouched', where=where(body))
        # ---- next
        fn = '<dasp_signal::Buffered<S, D> as dasp_signal::Signal>::next'
        body = cx.body(fn)
        if body is None:
            run.fail('buffered.next', fn, cfg, 'function not found')
        else:
            ps = normal_paths(cx.paths(fn, stop_trait_methods=STOP, opaque_prefixes=RB))
            global INV
            INV = loop_invariants(ps)
            bad = None
            kinds = set()
            for p in ps:
                evs = call_events(p)
                pops = [(k, e) for k, e in evs if rb(e, 'pop')]
                if len(pops) != 1 or pops[0][1]['args'][0] != ('ref', self_loc(ri)) or evs[0][0] != pops[0][0]:
                    bad = 'every pass must start with exactly one ring_buffer.pop(): [%s]' % describe_path(p)
                    break
                k = pops[0][0]
                d = dict(cond_facts(p)).get(('discr', ('ret', k)))
                if d == ('int', 1, 'isize'):
                    if p['end'] != 'return' or len(evs) != 1 or p['ret'] != ('field', ('variant', ('ret', k), 1), 0):
                        bad = 'a popped frame must be returned at once, without pulling: [%s]' % describe_path(p)
                    kinds.add('hit')
                elif d == ('int', 0, 'isize'):
                    if p['end'] == 'return':
                        bad = 'returns although the ring buffer was empty: [%s]' % describe_path(p)
                        break
                    kind, why = refill_ok(p, si, ri, k)
                    if why:
                        bad = why + ': [%s]' % describe_path(p)
                    else:
                        kinds.add(kind)
                else:
                    bad = 'pop() result not examined'
                if bad:
                    break
            if not bad and kinds != {'hit', 'iteration', 'exit'}:
                bad = 'step function lacks a case (has %s)' % sorted(kinds)
            if bad:
                # not the literal loop-around-a-match: the same protocol as a language of traces
                kinds, bad2 = set(), None
                for p in ps:
                    ks, why = next_trace(p, si, ri)
                    if why:
                        bad2 = why + ': [%s]' % describe_path(p)
                        break
                    kinds |= ks
                if not bad2 and kinds != {'hit', 'iteration', 'exit'}:
                    bad2 = 'step function lacks a case (has %s)' % sorted(kinds)
                bad = ('%s; as a trace: %s' % (bad, bad2)) if bad2 else None
            run.check(bad is None, 'buffered.next', fn, cfg, bad or '', where=where(body), sample=[describe_path(p) for p in ps])
        # ---- next_frames
        fn = 'dasp_signal::Buffered::<S, D>::next_frames'
        body = cx.body(fn)
        if body is None:
            run.fail('buffered.next_frames', fn, cfg, 'function not found')
        else:
            ps = normal_paths(cx.paths(fn, stop_trait_methods=STOP, opaque_prefixes=RB))
            INV = loop_invariants(ps)
            bad = None
            kinds = set()
            for p in ps:
                evs = call_events(p)
                lens = [(k, e) for k, e in evs if rb(e, 'len') or rb(e, 'is_empty')]
                if not lens or evs[0][0] != lens[0][0] or lens[0][1]['args'][0] != ('ref', self_loc(ri)):
                    bad = 'must first test whether the ring buffer is empty: [%s]' % describe_path(p)
                    break
                k, e = lens[0]
                if rb(e, 'len'):
                    lo, hi = int_constraint(p, ('ret', k))
                    empty = True if hi == 0 else (False if lo >= 1 else None)
                else:
                    v = dict(cond_facts(p)).get(('ret', k))
                    empty = v[1] if v else None
                if empty is None:
                    bad = 'path not decided by emptiness of the ring buffer'
                    break
                want_ret = ('agg', ('adt', 'dasp_signal::BufferedFrames', 0, 'BufferedFrames'), (('ref', self_loc(ri)),))
                if not empty:
                    if len(evs) != 1 or p['end'] != 'return' or p['ret'] != want_ret:
                        bad = 'with frames still buffered it must hand out the buffer without pulling: [%s]' % describe_path(p)
                    kinds.add('nonempty')
                else:
                    kind, why = refill_ok(p, si, ri, k)
                    if why:
                        bad = why + ': [%s]' % describe_path(p)
                    elif kind == 'exit' and (p['end'] != 'return' or p['ret'] != want_ret):
                        bad = 'after refilling it must return BufferedFrames over its own ring buffer'
                    kinds.add(kind)
                if bad:
                    break
            if not bad and kinds != {'nonempty', 'iteration', 'exit'}:
                bad = 'step function lacks a case (has %s)' % sorted(kinds)
            run.check(bad is None, 'buffered.next_frames', fn, cfg, bad or '', where=where(body))
        # ---- BufferedFrames::next = pop
        fn = "<dasp_signal::BufferedFrames<'a, D> as core::iter::traits::iterator::Iterator>::next"
        body = cx.body(fn)
        if body is None:
            run.fail('buffered.frames-next', fn, cfg, 'function not found')
        else:
            ps = returning(cx.paths(fn, opaque_prefixes=RB))
            fi = cx.field_index('dasp_signal::BufferedFrames', 'ring_buffer')
            ok = len(ps) == 1 and len(call_events(ps[0])) == 1 and rb(call_events(ps[0])[0][1], 'pop') and ps[0]['ret'] == ('ret', call_events(ps[0])[0][0]) \
                and call_events(ps[0])[0][1]['args'][0] == ('ref', (('P', self_field(fi)), ()))
            run.check(ok, 'buffered.frames-next', fn, cfg, 'BufferedFrames::next must be ring_buffer.pop(): [%s]' % '; '.join(describe_path(p) for p in ps), where=where(body))
        # ---- is_exhausted
        fn = '<dasp_signal::Buffered<S, D> as dasp_signal::Signal>::is_exhausted'
        body = cx.body(fn)
        if body is None:
            run.fail('buffered.is_exhausted', fn, cfg, 'function not found')
        else:
            ps = returning(cx.paths(fn, stop_trait_methods=STOP, opaque_prefixes=RB))
            bad = None
            seen = set()
            for p in ps:
                evs = call_events(p)
                lens = [(k, e) for k, e in evs if (rb(e, 'len') or rb(e, 'is_empty')) and e['args'][0] == ('ref', self_loc(ri))]
                srcq = [(k, e) for k, e in evs if is_call(e, SIGNAL, 'is_exhausted') and e['args'][0] == ('ref', self_loc(si))]
                if len(lens) != 1:
                    bad = 'must consult the ring buffer length: [%s]' % describe_path(p)
                    break
                k, e = lens[0]
                if rb(e, 'len'):
                    lo, hi = int_constraint(p, ('ret', k))
                    empty = True if hi == 0 else (False if lo >= 1 else None)
                else:
                    v = dict(cond_facts(p)).get(('ret', k))
                    empty = v[1] if v else None
                if empty is None and len(srcq) == 1:
                    # non-short-circuit form: result must be (len == 0) & src
                    bad = 'unrecognised combination'
                    break
                seen.add(empty)
                if empty is False and p['ret'] != ('bool', False):
                    bad = 'must not be exhausted while frames are buffered: [%s]' % describe_path(p)
                if empty is True and (len(srcq) != 1 or p['ret'] != ('ret', srcq[0][0])):
                    bad = 'when empty it must forward signal.is_exhausted(): [%s]' % describe_path(p)
            if seen != {True, False}:
                bad = bad or 'missing case'
            run.check(bad is None, 'buffered.is_exhausted', fn, cfg, bad or '', where=where(body))
        check_overrides(run, cx, cfg, 'buffered.inventory', lambda p: p in ('dasp_signal::Buffered', 'dasp_signal::BufferedFrames'),
                        evaluated={fn for _, fn, _, _ in run.instances}, minimum=3)
