"""C02 — float <-> integer conversion is exact power-of-two scaling, truncating, within [-1, 1].

int->float:  result = RN_F(s - off_src) * 2^-(b-1)   (the cast is the language's correctly rounded int->float
             conversion; scaling by a power of two is exact)
float->int:  for s in [-1, 1): trunc(s * 2^(b-1)) + off_dst, with the cast target wide enough that no saturation
             occurs and every wrapper value in range
f32->f64 exact widening, f64->f32 the correctly rounded narrowing cast."""
from absint.scaled import Form, Top, summarize, forms_equal_on
from rules import formats as F
from rules.C01 import result_form, describe
import mirutil

LEVEL = 'proof'
VERDICT = {}


def report_failures(run, rule):
    for (fn, cfg), (kind, msg, body) in sorted(VERDICT.items(), key=lambda kv: kv[0]):
        callees = [mirutil.resolved_path(t) for _, t in mirutil.calls(body)]
        inherited = [c for c in callees if (c, cfg) in VERDICT and c != fn]
        if inherited:
            run.note('%s (%s) inherits the failure of %s: %s' % (fn, cfg, inherited[0], msg))
            run.ok(rule, fn, cfg + ':inherits-failure', nontrivial=False)
        elif kind == 'unproven':
            run.unproven(rule, fn, cfg, msg, where=mirutil.first_line(body))
        else:
            run.fail(rule, fn, cfg, msg, where=mirutil.first_line(body))
    VERDICT.clear()


def int_to_float(run, facts, cfg, src, flt):
    fn = 'dasp_sample::conv::%s::to_%s' % (src, flt)
    body = facts.body(fn)
    if body is None:
        run.fail('conv.int-to-float', fn, cfg, 'conversion function not found')
        return
    lo, hi = F.frange(src)
    stats = {'obligations': 0, 'cells': 0, 'inlined': 0}
    pw = (F.WRAP_PATH[src], F.REP[src]) if src in F.WRAP_PATH else None
    try:
        cells = summarize(facts, body, lo, hi, 'int', F.adt_ranges(), stats, param_wrap=pw)
    except Top as e:
        VERDICT[(fn, cfg)] = ('unproven', 'abstract evaluation left the FloatExact domain: %s' % e, body)
        return
    b = F.bits(src)
    want = Form(0, 0, 0, -F.offset(src))
    bad = None
    for clo, chi, v in cells:
        if v[0] == 'panic':
            bad = 'panics (%s) for s in [%d, %d]' % (v[1], clo, chi)
        elif v[0] == 'badwrap':
            bad = 'builds %s outside its range for s in [%d, %d]' % (v[1], clo, chi)
        elif v[0] != 'ffrom':
            bad = 'result is %s, not a rounded integer scaled by a power of two' % (v,)
        elif v[2] != flt:
            bad = 'rounded to %s instead of %s (double rounding)' % (v[2], flt)
        elif v[3] != -(b - 1):
            bad = 'scaled by 2^%d, the spec is 2^%d' % (v[3], -(b - 1))
        else:
            eq, wit = forms_equal_on(v[1], want, clo, chi)
            if not eq:
                w = wit if wit is not None else clo
                bad = 'converts the integer %s instead of the signed amplitude %s (s=%d: %d vs %d)' % (v[1], want, w, v[1].ev(w), want.ev(w))
        if bad:
            break
    run.analysed['cells'] = run.analysed.get('cells', 0) + stats['cells']
    if bad:
        VERDICT[(fn, cfg)] = ('violation', bad, body)
        return
    mant = 24 if flt == 'f32' else 53
    run.ok('conv.int-to-float', fn, cfg, sample={'value': 'RN_%s(s%+d) * 2^%d' % (flt, -F.offset(src), -(b - 1)),
                                                 'range': '[-1, %s]' % ('1 - 2^-%d' % (b - 1) if b <= mant else '1'),
                                                 'exact': b <= mant + 1} if cfg == 'std-debug' and src in ('i8', 'u16', 'i64') else None)


def float_to_int(run, facts, cfg, flt, dst):
    fn = 'dasp_sample::conv::%s::to_%s' % (flt, dst)
    body = facts.body(fn)
    if body is None:
        run.fail('conv.float-to-int', fn, cfg, 'conversion function not found')
        return
    stats = {'obligations': 0, 'cells': 0, 'inlined': 0}
    try:
        cells = summarize(facts, body, 0, 0, 'float', F.adt_ranges(), stats)
    except Top as e:
        VERDICT[(fn, cfg)] = ('unproven', 'abstract evaluation left the FloatExact domain: %s' % e, body)
        return
    b = F.bits(dst)
    bad = None
    root = stats.get('float_root')
    for clo, chi, v in cells:
        if v[0] == 'saturates':
            bad = 'casts s*2^%d to %s, which saturates inside the documented domain [-1, 1)' % (v[1], v[2])
            break
        if v[0] == 'panic':
            bad = 'panics (%s) for trunc(s*2^j) in [%d, %d]' % (v[1], clo, chi)
            break
        if v[0] == 'badwrap':
            bad = 'builds %s from a value in %s, outside its range' % (v[1].rsplit('::', 1)[-1], v[2])
            break
        if root is None:
            bad = 'no float->int truncation found (result %s)' % (describe(v),)
            break
        j, fty = root
        if j != b - 1:
            bad = 'scales by 2^%d before truncating, the spec is 2^%d' % (j, b - 1)
            break
        if fty != flt:
            bad = 'scaling performed in %s instead of %s' % (fty, flt)
            break
        f = result_form(v, dst)
        if f is None:
            bad = 'result %s is not an integer of format %s' % (describe(v), dst)
            break
        want = Form(0, 0, 0, F.offset(dst))
        eq, wit = forms_equal_on(f, want, clo, chi)
        if not eq:
            w = wit if wit is not None else clo
            bad = 'for t = trunc(s*2^%d) in [%d, %d] returns %s, spec t%+d (t=%d: %d vs %d)' % (j, clo, chi, f, F.offset(dst), w, f.ev(w), want.ev(w))
            break
    run.analysed['cells'] = run.analysed.get('cells', 0) + stats['cells']
    if bad:
        VERDICT[(fn, cfg)] = ('violation', bad, body)
        return
    run.ok('conv.float-to-int', fn, cfg, sample={'value': 'trunc(s * 2^%d)%+d' % (b - 1, F.offset(dst)), 'cells over t': [[c[0], c[1]] for c in cells]}
           if cfg == 'std-debug' and dst in ('u8', 'i24') else None)


def float_to_float(run, facts, cfg, a, b):
    fn = 'dasp_sample::conv::%s::to_%s' % (a, b)
    body = facts.body(fn)
    if body is None:
        run.fail('conv.float-to-float', fn, cfg, 'conversion function not found')
        return
    try:
        cells = summarize(facts, body, 0, 0, 'float', F.adt_ranges())
    except Top as e:
        run.unproven('conv.float-to-float', fn, cfg, 'abstract evaluation left the FloatExact domain: %s' % e, where=mirutil.first_line(body))
        return
    v = cells[0][2]
    run.check(v == ('fcast', a, b, 0), 'conv.float-to-float', fn, cfg, 'result is %s, expected the plain %s->%s cast' % (v, a, b),
              where=mirutil.first_line(body))


def run(run, tier, load):
    run.rule_text = ('one instance per (conversion function x build profile): exact FloatExact/ScaledInt evaluation for all inputs of the '
                     'documented domain, compared with the closed-form spec; non-trivial = function found and evaluated')
    run.explanation = ('24 int->float functions: value is RN_F(s-off)*2^-(b-1) with the scale constant bit-exactly a power of two; '
                       '24 float->int: trunc(s*2^(b-1))+off for s in [-1,1) with no saturation and wrappers in range; 2 float<->float casts. '
                       'Range [-1,1], monotonicity, exactness when b <= mantissa+1 and exact inversion follow from RN/trunc monotonicity '
                       'and exact power-of-two scaling (paper step).')
    run.trusted = ['rustc MIR / const evaluation', 'IEEE-754: int->float casts round to nearest, float->int casts truncate, '
                   'scaling by 2^j is exact absent over/underflow', 'transfer functions in analysis/absint/scaled.py']
    run.assumptions = ['float inputs lie in the documented domain -1.0 <= s < 1.0 (finite)']
    cfgs = ['std-debug', 'std-release'] + (['nostd'] if tier == 'thorough' else [])
    for cfg in cfgs:
        facts = load(cfg, optional=(cfg == 'nostd'))
        if facts is None:
            continue
        n = 0
        for src in F.INT_FORMATS:
            for flt in F.FLOAT_FORMATS:
                int_to_float(run, facts, cfg, src, flt)
                n += 1
        report_failures(run, 'conv.int-to-float')
        run.floor('conv.int-to-float', 'int->float functions (%s)' % cfg, n, 24)
        n = 0
        for flt in F.FLOAT_FORMATS:
            for dst in F.INT_FORMATS:
                float_to_int(run, facts, cfg, flt, dst)
                n += 1
        report_failures(run, 'conv.float-to-int')
        run.floor('conv.float-to-int', 'float->int functions (%s)' % cfg, n, 24)
        float_to_float(run, facts, cfg, 'f32', 'f64')
        float_to_float(run, facts, cfg, 'f64', 'f32')
