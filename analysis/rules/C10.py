"""C10 — sample<->frame slice views are lossless, in place and total; in-place slice ops are safe.

(E1) every conversion trait is implemented for exactly N = 1..=32; (E3/E5) per impl: the `N` of the type is the constant of
the divisibility test and of the length computation (len / N, len * N), the pointer handed to from_raw_parts is the
argument's own pointer through casts only; the boxed variants pair mem::forget with Box::from_raw on every returning
path (R8); in-place ops: the length assertion dominates the unchecked loop, which has no other caller and is private,
the loop runs over 0..a.len(), reads a[i], b[i] and writes the closure result back to a[i]; write / add / add-with-gain /
equilibrium / map are the documented element-wise frame operations."""
import re

from rules.common import *
import mirutil

LEVEL = 'proof'
CRATE = 'dasp_slice'
SL = 'core::slice::<impl [T]>::'
FRP = ('core::slice::raw::from_raw_parts', 'core::slice::raw::from_raw_parts_mut', 'core::ptr::slice_from_raw_parts', 'core::ptr::slice_from_raw_parts_mut')
MD = 'core::mem::manually_drop::ManuallyDrop::<T>::'
MD_NEW = MD + 'new'      # moving the box into a ManuallyDrop that is never unwrapped again forgets it, like mem::forget


def rp(e):
    return (e.get('rpath') or e['path']) if e['kind'] == 'call' else None


def array_n(facts, ty):
    """N of the first [S; N] found inside type `ty`"""
    t = facts.ty(ty)
    k = t.get('k')
    if k == 'array':
        try:
            return int(t['len'])
        except ValueError:
            return None
    if k in ('ref', 'ptr', 'slice'):
        return array_n(facts, t['inner'])
    if k == 'adt':
        for a in t['args']:
            n = array_n(facts, a)
            if n:
                return n
    return None


TRAITS = {
    'dasp_slice::FromSampleSlice': 'from_sample_slice', 'dasp_slice::FromSampleSliceMut': 'from_sample_slice_mut',
    'dasp_slice::frame::FromFrameSlice': 'from_frame_slice', 'dasp_slice::frame::FromFrameSliceMut': 'from_frame_slice_mut',
    'dasp_slice::ToSampleSlice': 'to_sample_slice', 'dasp_slice::ToSampleSliceMut': 'to_sample_slice_mut',
    'dasp_slice::frame::ToFrameSlice': 'to_frame_slice', 'dasp_slice::frame::ToFrameSliceMut': 'to_frame_slice_mut',
    'dasp_slice::boxed::FromBoxedSampleSlice': 'from_boxed_sample_slice', 'dasp_slice::boxed::FromBoxedFrameSlice': 'from_boxed_frame_slice',
    'dasp_slice::boxed::ToBoxedSampleSlice': 'to_boxed_sample_slice', 'dasp_slice::boxed::ToBoxedFrameSlice': 'to_boxed_frame_slice',
}
FORWARD = {'to_sample_slice': ('dasp_slice::frame::FromFrameSlice', 'from_frame_slice'), 'to_sample_slice_mut': ('dasp_slice::frame::FromFrameSliceMut', 'from_frame_slice_mut'),
           'to_frame_slice': ('dasp_slice::FromSampleSlice', 'from_sample_slice'), 'to_frame_slice_mut': ('dasp_slice::FromSampleSliceMut', 'from_sample_slice_mut'),
           'to_boxed_sample_slice': ('dasp_slice::boxed::FromBoxedFrameSlice', 'from_boxed_frame_slice'), 'to_boxed_frame_slice': ('dasp_slice::boxed::FromBoxedSampleSlice', 'from_boxed_sample_slice')}


def base_pointer(p, t, depth=0):
    """follow a pointer-valued term back through casts, reborrows, as_ptr / as_mut_ptr, from_raw_parts to its origin"""
    if depth > 20:
        return t
    if t[0] == 'cast':
        return base_pointer(p, t[2], depth + 1)
    if t[0] == 'ref':
        loc = t[1]
        if loc[0][0] == 'P' and not loc[1]:
            return base_pointer(p, loc[0][1], depth + 1)
        if loc[0][0] == 'L':
            v = load(p, loc)
            if v[0] != 'uninit':
                return ('local', loc, base_pointer(p, v, depth + 1)) if v[0] in ('agg',) else base_pointer(p, v, depth + 1)
        return t
    if t[0] == 'ret':
        e = p['events'][t[1]]
        r = rp(e)
        if r in (SL + 'as_ptr', SL + 'as_mut_ptr') or r in FRP or r in ('alloc::boxed::Box::<T>::into_raw', MD_NEW):
            return base_pointer(p, e['args'][0], depth + 1)
        if e.get('name') in ('deref', 'deref_mut') and e.get('trait') in ('core::ops::deref::Deref', 'core::ops::deref::DerefMut') \
                and str((e.get('callee') or {}).get('self_ty', '')).startswith(('core::mem::manually_drop::ManuallyDrop<', 'alloc::boxed::Box<')):
            return base_pointer(p, e['args'][0], depth + 1)      # a view into what the wrapper owns
        return t
    if t[0] == 'field':
        return base_pointer(p, t[1], depth + 1)
    if t[0] == 'deref':
        return base_pointer(p, t[1], depth + 1)
    if t[0] == 'mut':
        return base_pointer(p, p['events'][t[1]]['args'][t[2]], depth + 1)
    return t


def len_of_arg(p):
    """events computing the length of the argument slice (arg 1, possibly a Box)"""
    out = []
    for k, e in enumerate(p['events']):
        if e['kind'] == 'call' and rp(e) == SL + 'len' and base_pointer(p, e['args'][0]) == ('param', 1):
            out.append(('ret', k))
    return out


def divisibility(p, lens, N):
    """truth of `len % N == 0` established by the path's comparisons of the remainder with constants, or None"""
    rems = set()
    for c, v in cond_facts(p):
        for s in subterms(c):
            if s[0] == 'op' and s[1] == 'Rem' and s[2] in lens:
                rems.add(s)
    for r in rems:
        if r[3] != ('int', N, 'usize'):
            return ('wrongN', r[3])
        lo, hi = int_constraint(p, r)
        if hi == 0:
            return True
        if lo >= 1:
            return False
    return None


def check_conversion(run, cx, cfg, trait, meth, N, fn, body):
    inst = '%s:N=%d' % (cfg, N)
    rule = 'view.' + meth
    if meth in FORWARD:
        fw = mirutil.forwarder(body)
        ok = False
        if fw:
            term, args = fw
            c = term['callee']
            ok = (c.get('trait'), c['name']) == FORWARD[meth] and args == [('param', 1, ())] and array_n(cx.facts, ' '.join(c['args'])) in (N, None) \
                and any(array_n(cx.facts, a) == N for a in c['args'])
        run.check(ok, rule, fn, inst, 'must forward its argument unchanged to %s::%s for the same N' % FORWARD[meth], where=where(body))
        return
    ps = [p for p in returning(cx.paths(fn)) if feasible(p)]
    bad = None
    if meth in ('from_sample_slice', 'from_sample_slice_mut'):
        seen = set()
        for p in ps:
            lens = len_of_arg(p)
            d = divisibility(p, lens, N)
            frp = [(k, e) for k, e in call_events(p) if rp(e) in FRP]
            if isinstance(d, tuple):
                bad = 'tests divisibility by %s but the frame type has %d channels' % (short(d[1]), N)
            elif d is None:
                bad = 'path not decided by `len %% %d == 0`: [%s]' % (N, describe_path(p))
            elif d:
                seen.add(True)
                r = p['ret']
                ok = (len(frp) == 1 and is_opt(r, 1) and base_pointer(p, r[2][0]) == ('param', 1) and base_pointer(p, frp[0][1]['args'][0]) == ('param', 1)
                      and frp[0][1]['args'][1][0] == 'op' and frp[0][1]['args'][1][1] == 'Div' and frp[0][1]['args'][1][2] in lens
                      and frp[0][1]['args'][1][3] == ('int', N, 'usize') and unre(r[2][0]) == ('ret', frp[0][0]))
                if not ok:
                    bad = 'when N divides len it must return Some(from_raw_parts(slice.as_ptr() as _, len / %d)) over the same memory: [%s]' % (N, describe_path(p))
            else:
                seen.add(False)
                if frp or not is_opt(p['ret'], 0):
                    bad = 'when N does not divide len it must return None: [%s]' % describe_path(p)
            if bad:
                break
        if not bad and seen != {True, False}:
            bad = 'missing case (Some iff N | len)'
    elif meth in ('from_frame_slice', 'from_frame_slice_mut'):
        if len(ps) != 1:
            bad = 'expected a single path'
        else:
            p = ps[0]
            lens = len_of_arg(p)
            frp = [(k, e) for k, e in call_events(p) if rp(e) in FRP]
            ok = (len(frp) == 1 and base_pointer(p, frp[0][1]['args'][0]) == ('param', 1) and unre(p['ret']) == ('ret', frp[0][0])
                  and frp[0][1]['args'][1][0] == 'op' and frp[0][1]['args'][1][1] == 'Mul'
                  and {frp[0][1]['args'][1][2], frp[0][1]['args'][1][3]} & set(lens) and ('int', N, 'usize') in (frp[0][1]['args'][1][2], frp[0][1]['args'][1][3]))
            if not ok:
                bad = 'must be from_raw_parts(slice.as_ptr() as _, len * %d) over the same memory: [%s]' % (N, describe_path(p))
    elif meth == 'from_boxed_sample_slice':
        seen = set()
        for p in ps:
            lens = len_of_arg(p)
            d = divisibility(p, lens, N)
            forgets = [(k, e) for k, e in call_events(p) if rp(e) in ('core::mem::forget', 'alloc::boxed::Box::<T>::into_raw', MD_NEW) and e['args'][0] == ('param', 1)]
            fromraw = [(k, e) for k, e in call_events(p) if rp(e) == 'alloc::boxed::Box::<T>::from_raw' and base_pointer(p, e['args'][0]) == ('param', 1)]
            if [1 for k, e in call_events(p) if rp(e).startswith(MD) and rp(e) != MD_NEW]:
                bad = 'unwraps / drops a ManuallyDrop again: ownership of the allocation is not tracked by this rule'
                break
            # R8: forget(box) must be followed by Box::from_raw on a pointer derived from that box, on every returning path
            if forgets and not [1 for k, e in fromraw if k > forgets[0][0]]:
                bad = 'forgets the box and returns without re-owning it (the allocation leaks) on the path [%s]' % describe_path(p)
                break
            if len(fromraw) > 1:
                bad = 're-owns the allocation twice'
                break
            # ... and the converse: Box::from_raw on memory the original box still owns frees it twice
            if fromraw and not [1 for k, e in forgets if k < fromraw[0][0]]:
                bad = 're-owns the allocation with Box::from_raw while the original box is still owned (it is dropped as well: double free) on the path [%s]' % describe_path(p)
                break
            if isinstance(d, tuple) or d is None:
                bad = 'path not decided by `len %% %d == 0`' % N
                break
            seen.add(d)
            if d:
                frp = [(k, e) for k, e in call_events(p) if rp(e) in FRP]
                lastlen = frp[-1][1]['args'][1] if frp else ('x',)
                ok = (is_opt(p['ret'], 1) and len(fromraw) == 1 and p['ret'][2][0] == ('ret', fromraw[0][0]) and lastlen[0] == 'op' and lastlen[1] == 'Div'
                      and lastlen[2] in lens and lastlen[3] == ('int', N, 'usize') and unre(fromraw[0][1]['args'][0]) == ('ret', frp[-1][0]))
                if not ok:
                    bad = 'when N divides len it must return Some(Box::from_raw(frames over the same allocation, len / %d)): [%s]' % (N, describe_path(p))
            else:
                if not is_opt(p['ret'], 0):
                    bad = 'when N does not divide len it must return None'
                # released: either never forgotten (dropped normally) or re-owned (checked above)
            if bad:
                break
        if not bad and seen != {True, False}:
            bad = 'missing case'
    elif meth == 'from_boxed_frame_slice':
        if len(ps) != 1:
            bad = 'expected a single path'
        else:
            p = ps[0]
            lens = len_of_arg(p)
            forgets = [(k, e) for k, e in call_events(p) if rp(e) in ('core::mem::forget', 'alloc::boxed::Box::<T>::into_raw', MD_NEW) and e['args'][0] == ('param', 1)]
            fromraw = [(k, e) for k, e in call_events(p) if rp(e) == 'alloc::boxed::Box::<T>::from_raw' and base_pointer(p, e['args'][0]) == ('param', 1)]
            frp = [(k, e) for k, e in call_events(p) if rp(e) in FRP]
            ok = len(forgets) == 1 and len(fromraw) == 1 and fromraw[0][0] > forgets[0][0] and p['ret'] == ('ret', fromraw[0][0]) and frp \
                and not [1 for k, e in call_events(p) if rp(e).startswith(MD) and rp(e) != MD_NEW]
            if ok:
                ln = frp[-1][1]['args'][1]
                ok = ln[0] == 'op' and ln[1] == 'Mul' and {ln[2], ln[3]} & set(lens) and ('int', N, 'usize') in (ln[2], ln[3]) and unre(fromraw[0][1]['args'][0]) == ('ret', frp[-1][0])
            if not ok:
                bad = 'must forget the box and re-own the same allocation as len * %d samples: [%s]' % (N, describe_path(p))
    run.check(bad is None, rule, fn, inst, bad or '', where=where(body),
              sample=[describe_path(p)[:220] for p in ps] if N == 3 and cfg == 'std-debug' else None)


def is_opt(t, variant):
    return t[0] == 'agg' and t[1][0] == 'adt' and t[1][1] == 'core::option::Option' and t[1][2] == variant


def unre(t):
    while t[0] == 'ref' and t[1][0][0] == 'P' and not t[1][1]:
        t = t[1][0][1]
    return t


def check_table(run, cx, cfg):
    by_trait = {}
    for imp in cx.facts.impls:
        if imp['crate'] != CRATE or imp.get('trait') not in TRAITS:
            continue
        n = array_n(cx.facts, imp['self_ty']) or next((array_n(cx.facts, a) for a in imp['trait_args'] if array_n(cx.facts, a)), None)
        if n is None:
            continue     # the blanket impls for plain frame slices
        by_trait.setdefault(imp['trait'], {})[n] = imp
    for trait, meth in TRAITS.items():
        if cfg == 'nostd' and 'boxed' in trait:
            continue
        got = by_trait.get(trait, {})
        missing = [n for n in range(1, 33) if n not in got]
        run.check(not missing and set(got) == set(range(1, 33)), 'table.N-1..32', trait, cfg,
                  '%s must be implemented for exactly N = 1..=32 (missing %s, extra %s)' % (trait, missing, sorted(set(got) - set(range(1, 33)))))
        for n, imp in sorted(got.items()):
            it = next((i for i in imp['items'] if i['name'] == meth), None)
            body = cx.body(it['path']) if it else None
            if body is None:
                run.fail('view.' + meth, imp['path'], '%s:N=%d' % (cfg, n), 'method body not found')
                continue
            try:
                check_conversion(run, cx, cfg, trait, meth, n, it['path'], body)
            except T.TooComplex as e:
                run.unproven('view.' + meth, it['path'], '%s:N=%d' % (cfg, n), str(e))


def check_inplace(run, cx, cfg):
    UNCH = 'dasp_slice::zip_map_in_place_unchecked'
    ZIP = 'dasp_slice::zip_map_in_place'
    MAP = 'dasp_slice::map_in_place'
    # who may call the unchecked loop: zip_map_in_place (which establishes equal lengths), possibly through private helpers
    callers, offenders = callers_confined(cx.facts, UNCH, {ZIP})
    info = cx.facts.fns.get(UNCH, {})
    run.check(not offenders and info.get('pub') is False and info.get('unsafe') is True, 'inplace.who-may-call', UNCH, cfg,
              'the unchecked loop must be private, unsafe and reachable only from zip_map_in_place (also reachable from: %s, pub=%s)' % (sorted(offenders), info.get('pub')))
    # positive control: the matcher sees calls at all
    run.check(len(callers) >= 1, 'inplace.who-may-call', UNCH, cfg + ':positive-control', 'no caller of the unchecked loop found (matcher blind)')
    body = cx.body(ZIP)
    if body is None:
        run.fail('inplace.zip_map', ZIP, cfg, 'function not found')
        return
    ps = cx.paths(ZIP)
    norm = normal_paths(ps)
    bad = None
    kinds = set()
    for p in norm:
        la = [('ret', k) for k, e in enumerate(p['events']) if e['kind'] == 'call' and rp(e) == SL + 'len' and unre(e['args'][0]) == ('param', 1)]
        lb = [('ret', k) for k, e in enumerate(p['events']) if e['kind'] == 'call' and rp(e) == SL + 'len' and unre(e['args'][0]) == ('param', 2)]
        eq = False
        for c, v in cond_facts(p):
            if c[0] == 'op' and c[1] == 'Eq' and ((c[2] in la and c[3] in lb) or (c[2] in lb and c[3] in la)) and v == ('bool', True):
                eq = True
            if c[0] == 'op' and c[1] == 'Ne' and ((c[2] in la and c[3] in lb) or (c[2] in lb and c[3] in la)) and v == ('bool', False):
                eq = True
        if not eq:
            bad = 'a path reaches the unchecked loop without having established a.len() == b.len(): [%s]' % describe_path(p)[:300]
            break
        loops = range_loops(p)
        if not loops:
            # `for (fa, fb) in a.iter_mut().zip(b.iter()) { *fa = f(*fa, *fb) }`: with equal lengths (established above) the zip
            # visits exactly the positions 0..a.len(); decided with the element-of abstraction
            from rules.elemof import Den
            its = iterator_loops(p)
            den = Den(p)
            if len(its) == 1 and den.iter_of(its[0]['iter']) == ('zip', ('seq', ('slice', ('param', 1))), ('seq', ('slice', ('param', 2)))):
                hdr = (its[0]['header'], its[0]['frame'])
                d = dict(cond_facts(p)).get(('discr', ('ret', its[0]['next'])))
                if d == ('int', 1, 'isize'):
                    cm = [(k, e) for k, e in call_events(p) if is_call(e, 'core::ops::function::FnMut', 'call_mut')]
                    ea, eb = ('elem', ('slice', ('param', 1)), hdr), ('elem', ('slice', ('param', 2)), hdr)
                    ok = len(cm) == 1 and cm[0][1]['args'][1][0] == 'agg' and [den.of(x) for x in cm[0][1]['args'][1][2]] == [ea, eb]
                    if ok:
                        ws = [(loc, v) for loc, v in p['writes'].items() if loc[0][0] == 'P' and not loc[1] and den.of(loc[0][1]) == ea]
                        ok = len(ws) == 1 and ws[0][1] == ('ret', cm[0][0]) and not [1 for k, e in call_events(p) if rp(e) and 'get_unchecked' in rp(e)]
                    if not ok:
                        bad = 'one iteration must be *fa = f(*fa, *fb) for the zipped elements: [%s]' % describe_path(p)[:400]
                    kinds.add('iter')
                elif d == ('int', 0, 'isize'):
                    kinds.add('exit')
                if bad:
                    break
                continue
        if len(loops) != 1 or loops[0]['lo'] != ('int', 0, 'usize') or loops[0]['hi'] not in la:
            bad = 'the loop must run over 0..a.len()'
            break
        first_access = min([k for k, e in call_events(p) if rp(e) and 'get_unchecked' in rp(e)] or [10 ** 9])
        nk = loops[0]['nexts'][0]
        d = dict(cond_facts(p)).get(('discr', ('ret', nk)))
        if d == ('int', 1, 'isize'):
            i = ('field', ('variant', ('ret', nk), 1), 0)
            ga = [(k, e) for k, e in call_events(p) if rp(e) == SL + 'get_unchecked' and unre(e['args'][0]) == ('param', 1) and e['args'][1] == i]
            gb = [(k, e) for k, e in call_events(p) if rp(e) == SL + 'get_unchecked' and unre(e['args'][0]) == ('param', 2) and e['args'][1] == i]
            gm = [(k, e) for k, e in call_events(p) if rp(e) == SL + 'get_unchecked_mut' and unre(e['args'][0]) == ('param', 1) and e['args'][1] == i]
            allacc = [(k, e) for k, e in call_events(p) if rp(e) and 'get_unchecked' in rp(e)]
            cm = [(k, e) for k, e in call_events(p) if is_call(e, 'core::ops::function::FnMut', 'call_mut')]
            ok = len(ga) == 1 and len(gb) == 1 and len(gm) == 1 and len(allacc) == 3 and len(cm) == 1
            if ok:
                args = cm[0][1]['args'][1]
                ok = (args[0] == 'agg' and [strip_epoch(x) for x in args[2]] == [('deref', ('ret', ga[0][0])), ('deref', ('ret', gb[0][0]))]
                      and p['writes'].get((('P', ('ret', gm[0][0])), ())) == ('ret', cm[0][0]))
            if not ok:
                bad = 'one iteration must be a[i] = f(a[i], b[i]) for the loop index i: [%s]' % describe_path(p)[:400]
            kinds.add('iter')
        elif d == ('int', 0, 'isize'):
            kinds.add('exit')
        if bad:
            break
    if not bad and kinds != {'iter', 'exit'}:
        bad = 'missing loop case'
    if not bad and not [p for p in ps if p['end'] != 'return' and not isinstance(p['end'], tuple) or (isinstance(p['end'], tuple) and p['end'][0] == 'panic')]:
        bad = 'no rejecting (panicking) path for a length mismatch'
    # refuses a mismatch *before modifying anything*: the panicking path has no write
    for p in ps:
        if isinstance(p['end'], tuple) and p['end'][0] == 'panic':
            if [1 for k, e in call_events(p) if rp(e) and 'get_unchecked' in rp(e)] or heap_writes(p):
                bad = bad or 'the length-mismatch path modifies a slice before panicking'
    run.check(bad is None, 'inplace.zip_map', ZIP, cfg, bad or '', where=where(body), sample=[describe_path(p)[:200] for p in norm][:2])
    # map_in_place
    body = cx.body(MAP)
    if body is not None:
        norm = normal_paths(cx.paths(MAP))
        bad = None
        kinds = set()
        for p in norm:
            loops = iterator_loops(p)
            fes = [(k, e) for k, e in call_events(p) if is_call(e, ITER, 'for_each')] if not loops else []
            if len(fes) == 1 and p['end'] == 'return':
                # a.iter_mut().for_each(|f| *f = map(*f))
                e = fes[0][1]
                src = p['events'][e['args'][0][1]] if e['args'][0][0] == 'ret' else None
                okf = src is not None and rp(src) == SL + 'iter_mut' and unre(src['args'][0]) == ('param', 1) and len(call_events(p)) == 2
                cps = returning(cx.closure_paths(e['args'][1], p, [('elem',)])) if okf and e['args'][1][0] == 'agg' else []
                if okf and len(cps) == 1:
                    cm = [(k2, e2) for k2, e2 in call_events(cps[0]) if is_call(e2, 'core::ops::function::FnMut', 'call_mut')]
                    okf = (len(cm) == 1 and len(call_events(cps[0])) == 1 and strip_epoch(cm[0][1]['args'][1]) == ('agg', ('tuple',), (('deref', ('elem',)),))
                           and cps[0]['writes'].get((('P', ('elem',)), ())) == ('ret', cm[0][0]))
                else:
                    okf = False
                if not okf:
                    bad = 'must be a.iter_mut().for_each(|f| *f = map(*f)): [%s]' % describe_path(p)[:300]
                    break
                kinds.update(('iter', 'exit'))
                continue
            if len(loops) != 1:
                bad = 'expected one loop over the slice'
                break
            it = loops[0]['iter']
            src = p['events'][it[1]] if it[0] == 'ret' else None
            if not src or 'IntoIterator for &' not in (rp(src) or '') or src['args'][0] != ('param', 1):
                bad = 'must iterate the given slice mutably (iterates %s)' % short(it)
                break
            nk = loops[0]['next']
            d = dict(cond_facts(p)).get(('discr', ('ret', nk)))
            if d == ('int', 1, 'isize'):
                el = ('field', ('variant', ('ret', nk), 1), 0)
                cm = [(k, e) for k, e in call_events(p) if is_call(e, 'core::ops::function::FnMut', 'call_mut')]
                ok = len(cm) == 1 and strip_epoch(cm[0][1]['args'][1]) == ('agg', ('tuple',), (('deref', el),)) and p['writes'].get((('P', el), ())) == ('ret', cm[0][0])
                if not ok:
                    bad = 'one iteration must be *f = map(*f): [%s]' % describe_path(p)[:300]
                kinds.add('iter')
            else:
                kinds.add('exit')
        if not bad and kinds != {'iter', 'exit'}:
            bad = 'missing loop case'
        run.check(bad is None, 'inplace.map', MAP, cfg, bad or '', where=where(body))
    else:
        run.fail('inplace.map', MAP, cfg, 'function not found')
    # the named element-wise operations
    specs = {
        'dasp_slice::write': (ZIP, lambda a, b, extra: b),
        'dasp_slice::add_in_place': (ZIP, lambda a, b, extra: ('app', 'dasp_frame::Frame::add_amp', (a, b))),
        'dasp_slice::add_in_place_with_amp_per_channel': (ZIP, lambda a, b, extra: ('app', 'dasp_frame::Frame::add_amp', (a, ('app', 'dasp_frame::Frame::mul_amp', (b, ('param', 3)))))),
        'dasp_slice::equilibrium': (MAP, None),
    }
    for fn, (target, want) in specs.items():
        body = cx.body(fn)
        if body is None:
            run.fail('inplace.op', fn, cfg, 'function not found')
            continue
        ps = returning(cx.paths(fn, stop=[target]))
        bad = None
        if want is None and not any(rp(e) == target for p0 in ps for _, e in call_events(p0)):
            # equilibrium() with its own loop: every element of the given slice, in place, := EQUILIBRIUM
            nps = normal_paths(cx.paths(fn))
            kinds = set()
            for p0 in nps:
                loops = iterator_loops(p0)
                if len(loops) != 1:
                    bad = 'must be a single call to %s (or one loop over the slice)' % target
                    break
                it = loops[0]['iter']
                src = p0['events'][it[1]] if it[0] == 'ret' else None
                if not src or not ('IntoIterator for &' in (rp(src) or '') or rp(src) == SL + 'iter_mut') or unre(src['args'][0]) != ('param', 1):
                    bad = 'must iterate the given slice mutably'
                    break
                nk = loops[0]['next']
                d = dict(cond_facts(p0)).get(('discr', ('ret', nk)))
                if d == ('int', 1, 'isize'):
                    el = ('field', ('variant', ('ret', nk), 1), 0)
                    w = p0['writes'].get((('P', el), ()))
                    if w is None or not (w[0] == 'assoc' and w[2] == 'EQUILIBRIUM') or [1 for k, e in call_events(p0) if k > nk]:
                        bad = 'each frame must be set to F::EQUILIBRIUM'
                    kinds.add('iter')
                else:
                    kinds.add('exit')
            if not bad and kinds != {'iter', 'exit'}:
                bad = 'missing loop case'
            run.check(bad is None, 'inplace.op', fn, cfg, bad or '', where=where(body))
            continue
        if len(ps) != 1 or len(call_events(ps[0])) != 1 or rp(call_events(ps[0])[0][1]) != target:
            bad = 'must be a single call to %s' % target
        else:
            p = ps[0]
            e = call_events(p)[0][1]
            nargs = 2 if target == ZIP else 1
            if [unre(x) if x[0] == 'ref' else x for x in e['args'][:nargs]] != [('param', i + 1) for i in range(nargs)]:
                bad = 'must pass its slices through unchanged'
            else:
                clo = e['args'][nargs]
                if not (clo[0] == 'agg' and clo[1][0] == 'closure'):
                    bad = 'operation is not a closure'
                else:
                    a, b = ('elem', 'a'), ('elem', 'b')
                    cps = returning(cx.closure_paths(clo, p, [a, b][:nargs]))
                    if len(cps) != 1:
                        bad = 'closure is not straight-line'
                    else:
                        got = strip_apps(cps[0], cps[0]['ret'])
                        if want is None:
                            if not (got[0] == 'assoc' and got[2] == 'EQUILIBRIUM'):
                                bad = 'equilibrium must write F::EQUILIBRIUM (writes %s)' % short(got)
                        else:
                            w = want(a, b, None)
                            if drop_targs(got) != w:
                                bad = 'element operation is %s, expected %s' % (short(got), short(w))
        run.check(bad is None, 'inplace.op', fn, cfg, bad or '', where=where(body))


def check_free_fns(run, cx, cfg):
    """the free functions and the identity impls for plain slices are thin wrappers"""
    rows = [('dasp_slice::to_sample_slice', 'dasp_slice::ToSampleSlice', 'to_sample_slice'), ('dasp_slice::to_sample_slice_mut', 'dasp_slice::ToSampleSliceMut', 'to_sample_slice_mut'),
            ('dasp_slice::from_sample_slice', 'dasp_slice::FromSampleSlice', 'from_sample_slice'), ('dasp_slice::from_sample_slice_mut', 'dasp_slice::FromSampleSliceMut', 'from_sample_slice_mut'),
            ('dasp_slice::frame::to_frame_slice', 'dasp_slice::frame::ToFrameSlice', 'to_frame_slice'), ('dasp_slice::frame::to_frame_slice_mut', 'dasp_slice::frame::ToFrameSliceMut', 'to_frame_slice_mut'),
            ('dasp_slice::frame::from_frame_slice', 'dasp_slice::frame::FromFrameSlice', 'from_frame_slice'), ('dasp_slice::frame::from_frame_slice_mut', 'dasp_slice::frame::FromFrameSliceMut', 'from_frame_slice_mut')]
    if cfg != 'nostd':
        rows += [('dasp_slice::boxed::to_boxed_sample_slice', 'dasp_slice::boxed::ToBoxedSampleSlice', 'to_boxed_sample_slice'), ('dasp_slice::boxed::to_boxed_frame_slice', 'dasp_slice::boxed::ToBoxedFrameSlice', 'to_boxed_frame_slice'),
                 ('dasp_slice::boxed::from_boxed_sample_slice', 'dasp_slice::boxed::FromBoxedSampleSlice', 'from_boxed_sample_slice'), ('dasp_slice::boxed::from_boxed_frame_slice', 'dasp_slice::boxed::FromBoxedFrameSlice', 'from_boxed_frame_slice')]
    for fn, trait, meth in rows:
        body = cx.body(fn)
        if body is None:
            run.fail('view.free-fn', fn, cfg, 'function not found')
            continue
        fw = mirutil.forwarder(body)
        ok = False
        if fw:
            term, args = fw
            c = term['callee']
            ok = (c.get('trait'), c['name']) == (trait, meth) and args == [('param', 1, ())]
        run.check(ok, 'view.free-fn', fn, cfg, 'must forward its argument unchanged to %s::%s' % (trait, meth), where=where(body))
    # identity impls: a slice of samples is a slice of samples / a slice of frames is a slice of frames
    n = 0
    for imp in cx.facts.impls:
        if imp['crate'] != CRATE or imp.get('trait') not in TRAITS or array_n(cx.facts, imp['self_ty']) or any(array_n(cx.facts, a) for a in imp['trait_args']):
            continue
        it = next((i for i in imp['items'] if i['name'] == TRAITS[imp['trait']]), None)
        body = cx.body(it['path']) if it else None
        if body is None:
            continue
        n += 1
        ps = returning(cx.paths(it['path']))
        r = unre(ps[0]['ret']) if len(ps) == 1 else ('x',)
        if r[0] == 'agg' and r[1][0] == 'adt' and r[1][1] == 'core::option::Option':
            r = unre(r[2][0]) if r[1][2] == 1 else ('none',)
        run.check(len(ps) == 1 and r == ('param', 1) and not call_events(ps[0]), 'view.identity-impl', it['path'], cfg,
                  'the conversion between a plain slice and itself must be the identity (total)', where=where(body))
    run.floor('view.identity-impl', 'identity conversion impls (%s)' % cfg, n, 8)


def strip_apps(p, t):
    """dereference captured variables inside a closure result"""
    if t[0] == 'app':
        return ('app', t[1], tuple(strip_apps(p, x) for x in t[2]), t[3]) if len(t) > 3 else t
    if t[0] == 'deref' or t[0] == 'field':
        return t
    if t[0] == 'ref':
        return deref(p, t)
    return t


def drop_targs(t):
    if t[0] == 'app':
        return ('app', t[1], tuple(drop_targs(resolve_capture(x)) for x in t[2]))
    return resolve_capture(t)


def resolve_capture(t):
    return t


def run(run, tier, loadcfg):
    if tier == 'thorough':
        import witness
        witness.check(run, 'c10', 1)
    run.rule_text = ('one obligation per (conversion impl x N) and per in-place rule; each decided for all slice lengths on all paths')
    run.explanation = 'See module docstring.'
    run.trusted = ['rustc MIR / type table', 'core::slice::from_raw_parts(ptr, n) yields a slice of n elements at ptr', 'Box::from_raw re-owns the allocation its pointer came from',
                   'layout: [[S; N]] of length m and [S] of length m*N occupy the same bytes (array layout guarantee)']
    run.assumptions = ['len * N does not overflow usize for slices that exist in memory']
    cfgs = ['std-debug', 'std-release'] + (['nostd'] if tier == 'thorough' else [])
    for cfg in cfgs:
        fx_ = loadcfg(cfg, optional=(cfg == 'nostd'))
        if fx_ is None:
            continue
        cx = Ctx(fx_)
        check_table(run, cx, cfg)
        check_inplace(run, cx, cfg)
        check_free_fns(run, cx, cfg)
