"""C15 — custom-width integer sample types never silently leave their range.

Interval x congruence abstract interpretation (analysis/absint/interval.py) of
new / From<Rep> / widening From<U> / Add / Sub / Mul / Neg for the eight types,
over *all* operand values, in debug (debug-assertions + overflow checks) and
release (both off) MIR, plus item-table checks of the constants and derives."""
from absint.interval import Interp, State, AV, Top
import mirutil

LEVEL = 'proof'

TYPES = [('i11', 'I11', 11, True), ('i20', 'I20', 20, True), ('i24', 'I24', 24, True), ('i48', 'I48', 48, True),
         ('u11', 'U11', 11, False), ('u20', 'U20', 20, False), ('u24', 'U24', 24, False), ('u48', 'U48', 48, False)]


def spec_range(bits, signed):
    return (-(1 << (bits - 1)), (1 << (bits - 1)) - 1) if signed else (0, (1 << bits) - 1)


def tpath(mod, name):
    return 'dasp_sample::types::%s::%s' % (mod, name)


def payload(tree, tp):
    """scalar vid inside a T(..) aggregate"""
    if tree[0] == 'agg' and tree[1][0] == 'adt' and tree[1][2] == tp and tree[2][0][0] == 's':
        return tree[2][0][1]
    return None


def run_fn(facts, body, inputs, modulus, expect_op, identity=False):
    """inputs: list of (wrapper path | None, rep type, lo, hi). returns Interp after exploration"""
    it = Interp(facts, modulus, expect_op)
    st = State()
    args = []
    for wp, rep, lo, hi in inputs:
        av = AV(lo, hi, rep, ('E', True) if identity else None)
        vid = st.new(av)
        it.inputs.append(vid)
        args.append(('agg', ('adt', 0, wp), [('s', vid)]) if wp else ('s', vid))
    if identity:
        st.erange = (inputs[0][2], inputs[0][3])
        it.e_defined = True
    it.run(body, args, st)
    return it


def check_consts(run, facts, cfg, mod, name, bits, signed):
    lo, hi = spec_range(bits, signed)
    tp = tpath(mod, name)
    base = 'dasp_sample::types::%s::' % mod
    vals = {k: facts.const_int(base + k) for k in ('MIN', 'MAX', 'TOTAL', 'MIN_REP', 'MAX_REP', 'EQUILIBRIUM')}
    ok = (vals['MIN'] == lo and vals['MAX'] == hi and vals['TOTAL'] == (1 << bits) and vals['MIN_REP'] == lo and vals['MAX_REP'] == hi
          and vals['TOTAL'] == vals['MAX'] - vals['MIN'] + 1)
    run.check(ok, 'consts', tp, cfg, 'MIN/MAX/TOTAL constants %s do not describe a %d-bit %s range [%d, %d]' % (
        vals, bits, 'signed' if signed else 'unsigned', lo, hi), sample=vals if cfg == 'std-debug' and mod in ('i24', 'u11') else None)
    adt = facts.adts.get(tp)
    rep = None
    if adt and len(adt['variants']) == 1 and len(adt['variants'][0]['fields']) == 1:
        f = adt['variants'][0]['fields'][0]
        rep = f['ty']
        t = facts.ty(rep)
        run.check(t.get('k') == 'int' and t['signed'] and not f['pub'] and (1 << t['bits']) % (1 << bits) == 0 and t['bits'] > bits,
                  'repr', tp, cfg, 'backing field must be a private signed integer wider than %d bits whose modulus is a multiple of 2^%d (is %s, pub=%s)' % (bits, bits, rep, f['pub']))
    else:
        run.fail('repr', tp, cfg, 'type is not a one-field struct')
    # ordering / equality are the derived (field-wise) ones on a one-field struct = numeric order
    for tr in ('core::cmp::PartialEq', 'core::cmp::Eq', 'core::cmp::PartialOrd', 'core::cmp::Ord'):
        impls = [i for i in facts.impls if i.get('trait') == tr and i['self_ty'] == tp]
        run.check(len(impls) == 1 and impls[0]['derived'], 'derive', tp, '%s:%s' % (cfg, tr.rsplit('::', 1)[-1]),
                  '%s for %s is not the derived impl (order/equality must coincide with the numeric order of the single field)' % (tr, name))
    return rep


def in_range(av, lo, hi):
    return lo <= av.lo and av.hi <= hi


def check_new(run, facts, cfg, mod, name, bits, signed, rep):
    tp = tpath(mod, name)
    fn = '%s::new' % tp
    body = facts.body(fn)
    if body is None:
        run.fail('new', fn, cfg, 'function not found')
        return
    lo, hi = spec_range(bits, signed)
    rlo, rhi = Interp(facts, 1 << bits).trange(rep)
    try:
        it = run_fn(facts, body, [(None, rep, rlo, rhi)], 1 << bits, None, identity=True)
    except Top as e:
        run.unproven('new', fn, cfg, 'outside the interval domain: %s' % e, where=body['span'])
        return
    bad = None
    cover = []
    for kind, tree, st in it.results:
        if kind == 'panic':
            bad = 'can panic (%s)' % tree
            break
        if tree[0] != 'agg' or tree[1][0] != 'adt':
            bad = 'result is not an Option value'
            break
        er = st.erange
        cover.append((er, tree[1][1]))
        if tree[1][1] == 1:
            vid = payload(tree[2][0], tp)
            av = st.vals.get(vid)
            if av is None or av.rel != ('E', True):
                bad = 'Some(..) payload is not the argument itself'
            elif not (lo <= er[0] and er[1] <= hi):
                bad = 'returns Some for arguments in [%d, %d], which is not inside [%d, %d]' % (er[0], er[1], lo, hi)
        else:
            if not (er[1] < lo or er[0] > hi):
                bad = 'returns None for arguments in [%d, %d], which intersects the valid range [%d, %d]' % (er[0], er[1], lo, hi)
        if bad:
            break
    run.check(bad is None, 'new', fn, cfg, bad or '', where=body['span'],
              sample={'paths': [[list(c[0]), 'Some' if c[1] == 1 else 'None'] for c in cover]} if mod == 'i24' and cfg == 'std-debug' else None)


def check_from_rep(run, facts, cfg, mod, name, bits, signed, rep):
    tp = tpath(mod, name)
    fn = '<%s as core::convert::From<%s>>::from' % (tp, rep)
    body = facts.body(fn)
    if body is None:
        run.fail('from-rep', fn, cfg, 'impl From<%s> for %s not found' % (rep, name))
        return
    lo, hi = spec_range(bits, signed)
    it0 = Interp(facts, 1 << bits)
    rlo, rhi = it0.trange(rep)
    try:
        it = run_fn(facts, body, [(None, rep, rlo, rhi)], 1 << bits, None, identity=True)
    except Top as e:
        run.unproven('from-rep', fn, cfg, 'outside the interval domain: %s' % e, where=body['span'])
        return
    bad = None
    for kind, tree, st in it.results:
        if kind == 'panic':
            bad = 'can panic (%s) for arguments in %s' % (tree, st.erange)
            break
        vid = payload(tree, tp)
        av = st.vals.get(vid)
        if av is None:
            bad = 'result is not a %s' % name
        elif not in_range(av, lo, hi):
            bad = 'can return a value in [%d, %d], outside [%d, %d]' % (av.lo, av.hi, lo, hi)
        elif av.rel is None:
            bad = 'result is not congruent to the argument modulo 2^%d' % bits
        if bad:
            break
    if not bad and not it.results:
        bad = 'no returning path'
    if not bad:
        bad = termination(it, rlo, rhi)
    run.check(bad is None, 'from-rep', fn, cfg, bad or '', where=body['span'],
              sample={'returns': sorted({(st.vals[payload(t, tp)].lo, st.vals[payload(t, tp)].hi) for k, t, st in it.results if k == 'ret'}),
                      'loops': [(h, m) for _, h, m, _ in getattr(it, 'loop_iterations', [])][:4]} if mod in ('i11', 'u48') and cfg == 'std-release' else None)


def termination(it, rlo, rhi):
    """every explored loop iteration moves some place by a constant step d against a guard that bounds the
    header value on that side (d < 0 needs a lower bound above the type minimum, d > 0 an upper bound)."""
    for path, hdr, moved, ivs in getattr(it, 'loop_iterations', []):
        ok = False
        for (key, d), (_k, (lo, hi)) in zip(moved, ivs):
            if d < 0 and lo > rlo:
                ok = True
            if d > 0 and hi < rhi:
                ok = True
        if not ok:
            return 'loop at bb%d of %s: an iteration makes no progress against its guard (steps %s), so termination is not established' % (hdr, path, [d for _, d in moved])
    return None


def check_widening(run, facts, cfg, mod, name, bits, signed, rep):
    tp = tpath(mod, name)
    lo, hi = spec_range(bits, signed)
    n = 0
    for imp in facts.impls:
        if imp.get('trait') != 'core::convert::From' or imp['self_ty'] != tp:
            continue
        src = imp['trait_args'][1]
        if src == rep:
            continue
        fn = '<%s as core::convert::From<%s>>::from' % (tp, src)
        body = facts.body(fn)
        if body is None:
            run.fail('from-widening', fn, cfg, 'body not found')
            continue
        n += 1
        st_ty = facts.ty(src)
        it0 = Interp(facts, 1 << bits)
        if st_ty.get('k') == 'int':
            slo, shi = it0.trange(src)
            inp = (None, src, slo, shi)
        else:
            # another custom sample type: its valid range (established by its own C15 instance)
            smod = src.split('::')[-2]
            sbits, ssigned = next((b, s) for m, _n, b, s in TYPES if m == smod)
            slo, shi = spec_range(sbits, ssigned)
            sadt = facts.adts[src]
            inp = (src, sadt['variants'][0]['fields'][0]['ty'], slo, shi)
        try:
            it = run_fn(facts, body, [inp], 1 << bits, None, identity=True)
        except Top as e:
            run.unproven('from-widening', fn, cfg, 'outside the interval domain: %s' % e, where=body['span'])
            continue
        bad = None
        for kind, tree, st in it.results:
            if kind == 'panic':
                bad = 'can panic (%s)' % tree
                break
            av = st.vals.get(payload(tree, tp))
            if av is None:
                bad = 'result is not a %s' % name
            elif av.rel != ('E', True):
                bad = 'does not preserve the numeric value of its argument (%s)' % '; '.join(it.notes[:2])
            elif not in_range(av, lo, hi):
                bad = 'source range [%d, %d] is not inside [%d, %d]' % (slo, shi, lo, hi)
            if bad:
                break
        run.check(bad is None, 'from-widening', fn, cfg, bad or '', where=body['span'])
    return n


OPS = [('Add', 'core::ops::arith::Add', 'add', ('bin', 'Add'), 2),
       ('Sub', 'core::ops::arith::Sub', 'sub', ('bin', 'Sub'), 2),
       ('Mul', 'core::ops::arith::Mul', 'mul', ('bin', 'Mul'), 2),
       ('Neg', 'core::ops::arith::Neg', 'neg', ('un', 'Neg'), 1)]


def check_ops(run, facts, cfg, mod, name, bits, signed, rep, only=None, rule='op'):
    tp = tpath(mod, name)
    lo, hi = spec_range(bits, signed)
    debug = cfg != 'std-release'
    n = 0
    for opname, trait, meth, expect, arity in OPS:
        if only is not None and opname not in only:
            continue
        fn = '<%s as %s>::%s' % (tp, trait, meth)
        body = facts.body(fn)
        if opname == 'Neg':
            if not signed:
                if body is not None:
                    run.note('%s implements Neg although it is unsigned; negation of unsigned types is outside the statement of C15' % name)
                continue
            if body is None:
                run.note('%s has no Neg impl (nothing to check)' % name)
                continue
        if body is None:
            run.fail(rule, fn, cfg, 'operator impl not found')
            continue
        n += 1
        try:
            it = run_fn(facts, body, [(tp, rep, lo, hi)] * arity, 1 << bits, expect)
        except Top as e:
            run.unproven(rule, fn, cfg, 'outside the interval domain: %s' % e, where=body['span'])
            continue
        bad = None
        nret = npanic = 0
        if it.wrong_op:
            bad = it.wrong_op
        for kind, tree, st in it.results:
            if bad:
                break
            if kind == 'panic':
                npanic += 1
                if not debug:
                    bad = 'can panic (%s) in a build without debug assertions' % tree
                elif st.erange is None or not (st.erange[1] < lo or st.erange[0] > hi):
                    bad = 'can panic (%s) although the exact result (in %s) may be in range' % (tree, st.erange)
                continue
            nret += 1
            av = st.vals.get(payload(tree, tp))
            if av is None:
                bad = 'result is not a %s' % name
            elif not in_range(av, lo, hi):
                which = [x for x in (av.lo, av.hi) if x < lo or x > hi]
                bad = 'for in-range operands the result can be %d, outside [%d, %d]' % (which[0], lo, hi)
            elif av.rel is None:
                bad = 'result is not congruent to the exact %s modulo 2^%d' % (opname.lower(), bits)
            elif debug and av.rel != ('E', True):
                bad = 'debug build can return a wrapped (inexact) result instead of panicking'
        if not bad and nret == 0:
            bad = 'never returns'
        if not bad:
            rr = Interp(facts, 1).trange(rep)
            bad = termination(it, rr[0], rr[1])
        run.check(bad is None, rule, fn, cfg, bad or '', where=mirutil.first_line(body),
                  sample={'returning paths': nret, 'panicking paths': npanic} if mod in ('i24',) else None)
    return n


def run(run, tier, load):
    if tier == 'thorough':
        import witness
        witness.check(run, 'c15', 1)
    run.rule_text = ('one instance per (type x function x build profile), each an exhaustive interval x congruence evaluation over all operand '
                     'values; non-trivial = function found and evaluated')
    run.explanation = ('consts: TOTAL = 2^bits = MAX-MIN+1; new(v) is Some exactly on [MIN,MAX] with payload v; From<Rep> terminates, returns a value in range '
                       'congruent to its argument mod 2^bits; widening From<U> preserve the value and fit; derives give numeric order; Add/Sub/Mul (+Neg for signed '
                       'types that implement it): release => in range and congruent to the exact result, never panics; debug => every return is in range and exact, '
                       'every panic has the exact result out of range.')
    run.trusted = ['rustc MIR / const evaluation', 'interval and congruence transfer functions in analysis/absint/interval.py',
                   'two\'s-complement wrap-around of the backing integer when overflow checks are off']
    cfgs = ['std-debug', 'std-release'] + (['nostd'] if tier == 'thorough' else [])
    for cfg in cfgs:
        facts = load(cfg, optional=(cfg == 'nostd'))
        if facts is None:
            continue
        nops = nwid = 0
        for mod, name, bits, signed in TYPES:
            rep = check_consts(run, facts, cfg, mod, name, bits, signed)
            if rep is None:
                continue
            check_new(run, facts, cfg, mod, name, bits, signed, rep)
            check_from_rep(run, facts, cfg, mod, name, bits, signed, rep)
            nwid += check_widening(run, facts, cfg, mod, name, bits, signed, rep)
            nops += check_ops(run, facts, cfg, mod, name, bits, signed, rep)
        run.floor('op', 'Add/Sub/Mul/Neg impls (%s)' % cfg, nops, 27)
        # inventory: a NEW arithmetic operator of these types (`+=`, `Sum` ...; the statement's "addition" is also `x += y`)
        # produces values of the type too and has no rule here -- fail closed.  (The operators the verified tree already
        # has beyond Add/Sub/Mul/Neg -- Div, Rem, shifts, bit operations -- are held to the reference by the completeness pass.)
        import equiv
        ref_impls = {tuple(x) for x in ((equiv.reference(cfg).get('#meta') or {}).get('impls') or [])}
        tps = {tpath(mod, name): name for mod, name, bits, signed in TYPES}
        evaluated = {fn for r, fn, _, _ in run.instances}
        for i in facts.impls:
            tr = i.get('trait') or ''
            adt = facts.ty(i['self_ty']).get('path')
            if ref_impls and adt in tps and (tr, adt) not in ref_impls and tr.startswith(('core::ops::arith::', 'core::ops::bit::', 'core::iter::traits::accum::')):
                for it in i.get('items', []):
                    fp = it.get('path')
                    if fp and facts.body(fp) is not None and fp not in evaluated:
                        run.unproven('op.inventory', fp, cfg, 'an arithmetic operator of %s that no rule of this check evaluates: its result is a %s too and must stay in [MIN, MAX] '
                                     '(wrapping without, panicking with debug assertions)' % (tps[adt], tps[adt]), where=facts.body(fp).get('span'))
        run.floor('from-widening', 'widening From impls (%s)' % cfg, nwid, 35)
