"""C12 — fork gives both branches the identical stream under every pull interleaving.

Step-function conformance (R2') of the four branch `next` bodies against the three-transition automaton the
paper invariant (DESIGN Appendix C.2) is stated over, sibling agreement between the four impls, pending_frames,
the branch exhaustion predicate, and the construction sites (fork asserts an empty buffer and starts with a
definite flag; by_ref / by_rc hand both branches the same shared cell).  The ring buffer is an opaque FIFO here
(its behaviour is C06)."""
from rules.common import *
from rules.C04 import STOP

LEVEL = 'other'
RB = ('dasp_ring_buffer::',)
BRANCHES = [('BranchRcA', 'A'), ('BranchRcB', 'B'), ('BranchRefA', 'A'), ('BranchRefB', 'B')]
SHARED = 'dasp_signal::ForkShared'


def rb_call(e, name):
    return e['kind'] == 'call' and (e.get('rpath') or e['path']) == 'dasp_ring_buffer::Bounded::<S>::' + name


def shared_fields(cx):
    return cx.field_index(SHARED, 'signal'), cx.field_index(SHARED, 'ring_buffer'), cx.field_index(SHARED, 'pending')


def flag_value(p, is_flag):
    """value of the pending flag assumed by the path (from its branch conditions), or None"""
    for c, v in cond_facts(p):
        neg = False
        while c[0] == 'un' and c[1] == 'Not':
            c, neg = c[2], not neg
        if is_flag(c) and v[0] == 'bool':
            return v[1] != neg
    return None


def cell_of(e, idx):
    """location of the shared state given a call whose receiver is &cell.field[idx]"""
    a = e['args'][0]
    if a[0] == 'ref' and a[1][1] and a[1][1][-1] == ('f', idx):
        return (a[1][0], a[1][1][:-1])
    return None


def branch_step(cx, fn):
    """returns (SELF value, None) or (None, why)"""
    si, ri, pi = shared_fields(cx)
    paths = cx.paths(fn, stop_trait_methods=STOP, opaque_prefixes=RB)
    rets = returning(paths)
    if len(rets) != 3:
        return None, 'expected exactly three returning paths (queue hit / queue dry / not my queue), found %d: %s' % (len(rets), ' || '.join(describe_path(p) for p in rets))

    def is_flag(t):
        return t[0] == 'field' and t[2] == pi and t[1][0] == 'cell'
    kinds = {}
    selfv = None
    for p in rets:
        fv = flag_value(p, is_flag)
        evs = call_events(p)
        pops = [(k, e) for k, e in evs if rb_call(e, 'pop')]
        pushes = [(k, e) for k, e in evs if rb_call(e, 'push')]
        nexts = [(k, e) for k, e in evs if is_call(e, SIGNAL, 'next')]
        others = [e for k, e in evs if not (rb_call(e, 'pop') or rb_call(e, 'push') or is_call(e, SIGNAL, 'next'))]
        if others:
            return None, 'unexpected effect %s in [%s]' % (ev_key(others[0]), describe_path(p))
        w = {loc: v for loc, v in heap_writes(p).items()}
        flagw = [(loc, v) for loc, v in w.items() if loc[1] and loc[1][-1] == ('f', pi)]
        if fv is None:
            return None, 'path not decided by the pending flag: [%s]' % describe_path(p)
        if pops:
            # my queue
            if selfv is None:
                selfv = fv
            if fv != selfv:
                return None, 'pops the queue under both values of the flag'
            k, e = pops[0]
            cell = cell_of(e, ri)
            d = dict(cond_facts(p)).get(('discr', ('ret', k)))
            if d == ('int', 1, 'isize'):
                if nexts or pushes or flagw or p['ret'] != ('field', ('variant', ('ret', k), 1), 0) or len(pops) != 1:
                    return None, 'queue hit must return the popped frame without pulling, pushing or touching the flag: [%s]' % describe_path(p)
                kinds['hit'] = p
            elif d == ('int', 0, 'isize'):
                ok = (len(pops) == 1 and len(nexts) == 1 and len(pushes) == 1 and nexts[0][0] < pushes[0][0] and pops[0][0] < nexts[0][0]
                      and cell_of(nexts[0][1], si) == cell and cell_of(pushes[0][1], ri) == cell
                      and pushes[0][1]['args'][1] == ('ret', nexts[0][0]) and p['ret'] == ('ret', nexts[0][0])
                      and len(flagw) == 1 and flagw[0][1] == ('bool', not selfv) and flagw[0][0] == (cell[0], cell[1] + (('f', pi),)))
                if not ok:
                    return None, 'queue dry must flip the flag to the other branch, pull one frame, queue it and return it: [%s]' % describe_path(p)
                kinds['dry'] = p
            else:
                return None, 'pop result not examined: [%s]' % describe_path(p)
        else:
            ok = (len(nexts) == 1 and len(pushes) == 1 and nexts[0][0] < pushes[0][0] and not flagw
                  and cell_of(nexts[0][1], si) is not None and cell_of(nexts[0][1], si) == cell_of(pushes[0][1], ri)
                  and pushes[0][1]['args'][1] == ('ret', nexts[0][0]) and p['ret'] == ('ret', nexts[0][0]))
            if not ok:
                return None, 'when the queue belongs to the other branch it must pull one frame, queue it and return it, leaving the flag: [%s]' % describe_path(p)
            kinds['lead'] = (p, fv)
    if set(kinds) != {'hit', 'dry', 'lead'}:
        return None, 'missing transition(s): has %s' % sorted(kinds)
    if kinds['lead'][1] == selfv:
        return None, 'the leading transition is taken under the same flag value as the queue transitions'
    return selfv, None


def run(run, tier, loadcfg):
    if tier == 'thorough':
        import witness
        witness.check(run, 'c12', 1)
    run.rule_text = 'one instance per (branch impl or constructor x rule x configuration)'
    run.explanation = ('Each of the four branch next() bodies has exactly the transitions hit / dry / lead of the fork automaton (effects, order, argument flow, flag '
                       'write), the A and B branches use opposite flag values and the Rc/Ref siblings agree; pending_frames = len() iff the flag names this branch; '
                       'branch exhaustion = no frame pending for me AND source exhausted; fork() asserts an empty ring buffer and starts with a definite flag; '
                       'by_ref/by_rc give both branches the same shared cell. Nothing is explored over schedules: the quantifier over interleavings is discharged by the '
                       'inductive invariant in DESIGN Appendix C.2 (paper), whose transitions are exactly what is checked here.')
    run.assumptions = ['the ring buffer is a FIFO queue of capacity >= the lead (C06)', 'RefCell / Rc behave as documented']
    cfgs = ['std-debug', 'std-release'] + (['nostd'] if tier == 'thorough' else [])
    for cfg in cfgs:
        fx_ = loadcfg(cfg, optional=(cfg == 'nostd'))
        if fx_ is None:
            continue
        cx = Ctx(fx_)
        from rules import C06
        C06.check_used(run, cx, cfg, [b for b in fx_.bodies.values() if b['crate'] == 'dasp_signal' and any(x in b['path'] for x in ('BranchRcA', 'BranchRcB', 'BranchRefA', 'BranchRefB', 'Signal::fork', 'dasp_signal::Fork'))], 5, handed=C06.B)
        si, ri, pi = shared_fields(cx)
        if None in (si, ri, pi):
            run.fail('fork.shared-state', SHARED, cfg, 'ForkShared { signal, ring_buffer, pending } not found')
            continue
        selfs = {}
        for name, side in BRANCHES:
            imp = next((i for i in cx.facts.impls_of(SIGNAL) if cx.facts.ty(i['self_ty']).get('path') == 'dasp_signal::' + name), None)
            if imp is None:
                run.fail('fork.branch-step', name, cfg, 'impl Signal for %s not found' % name)
                continue
            fn = next(i['path'] for i in imp['items'] if i['name'] == 'next')
            body = cx.body(fn)
            try:
                sv, why = branch_step(cx, fn)
            except T.TooComplex as e:
                sv, why = None, str(e)
            run.check(why is None, 'fork.branch-step', fn, cfg, why or '', where=where(body), sample={'SELF flag': sv} if why is None else None)
            selfs[name] = sv
            # pending_frames
            pf = 'dasp_signal::%s::<%s>::pending_frames' % (name, "'a, S, D" if 'Ref' in name else 'S, D')
            pb = cx.body(pf)
            if pb is None:
                run.fail('fork.pending_frames', pf, cfg, 'function not found')
            else:
                ps = returning(cx.paths(pf, opaque_prefixes=RB))
                is_flag = lambda t: t[0] == 'field' and t[2] == pi and t[1][0] == 'cell'
                bad = None
                seen = set()
                for p in ps:
                    fv = flag_value(p, is_flag)
                    lens = [(k, e) for k, e in call_events(p) if rb_call(e, 'len')]
                    seen.add(fv)
                    if fv is None:
                        bad = 'not decided by the flag'
                    elif fv == sv:
                        if len(lens) != 1 or p['ret'] != ('ret', lens[0][0]):
                            bad = 'when the queue is mine it must return ring_buffer.len(): [%s]' % describe_path(p)
                    else:
                        if lens or p['ret'] != ('int', 0, 'usize'):
                            bad = 'when the queue is the other branch\'s it must return 0: [%s]' % describe_path(p)
                if seen != {True, False}:
                    bad = bad or 'missing case'
                run.check(bad is None, 'fork.pending_frames', pf, cfg, bad or '', where=where(pb))
            # exhaustion predicate of the branch
            ex = next((i['path'] for i in imp['items'] if i['name'] == 'is_exhausted'), None)
            if ex is not None:
                eb = cx.body(ex)
                ps = returning(cx.paths(ex, stop_trait_methods=STOP, opaque_prefixes=RB))
                is_flag = lambda t: t[0] == 'field' and t[2] == pi and t[1][0] == 'cell'
                bad = None
                for p in ps:
                    fv = flag_value(p, is_flag)
                    evs = call_events(p)
                    lens = [(k, e) for k, e in evs if rb_call(e, 'len')]
                    srcq = [(k, e) for k, e in evs if is_call(e, SIGNAL, 'is_exhausted')]
                    pend_lo = None
                    if lens:
                        lo, hi = int_constraint(p, ('ret', lens[0][0]))
                        pend_lo = (lo, hi)
                    mine_nonempty = fv == sv and pend_lo is not None and pend_lo[0] >= 1
                    mine_empty = fv == sv and pend_lo is not None and pend_lo[1] == 0
                    if mine_nonempty:
                        if p['ret'] != ('bool', False):
                            bad = 'with frames pending for this branch it must not be exhausted: [%s]' % describe_path(p)
                    elif mine_empty or fv == (not sv):
                        if len(srcq) != 1 or p['ret'] != ('ret', srcq[0][0]):
                            bad = 'with nothing pending it must forward the source\'s is_exhausted(): [%s]' % describe_path(p)
                    else:
                        bad = 'path not decided by flag / queue length: [%s]' % describe_path(p)
                run.check(bad is None and ps, 'fork.branch-exhaustion', ex, cfg, bad or 'no path', where=where(eb))
        if all(v is not None for v in selfs.values()) and len(selfs) == 4:
            run.check(selfs['BranchRcA'] != selfs['BranchRcB'] and selfs['BranchRefA'] != selfs['BranchRefB']
                      and selfs['BranchRcA'] == selfs['BranchRefA'], 'fork.sibling-agreement', 'Branch{Rc,Ref}{A,B}', cfg,
                      'A and B branches must use opposite flag values and Rc/Ref siblings the same one: %s' % selfs, sample=selfs)
        # constructor
        fn = 'dasp_signal::Signal::fork'
        body = cx.body(fn)
        if body is None:
            run.fail('fork.ctor', fn, cfg, 'function not found')
        else:
            ps = cx.paths(fn, opaque_prefixes=RB)
            rets = returning(ps)
            bad = None
            if len(rets) != 1:
                bad = 'expected one returning path'
            else:
                p = rets[0]
                chk = [(k, e) for k, e in call_events(p) if rb_call(e, 'is_empty') or rb_call(e, 'len')]
                if not chk:
                    bad = 'does not examine the ring buffer before constructing the fork'
                else:
                    k, e = chk[0]
                    fact = dict(cond_facts(p)).get(('ret', k))
                    if rb_call(e, 'is_empty') and fact != ('bool', True):
                        bad = 'constructs the fork without having established ring_buffer.is_empty()'
                    if rb_call(e, 'len') and int_constraint(p, ('ret', k)) != (0, 0):
                        bad = 'constructs the fork without having established ring_buffer.len() == 0'
                # the shared state starts with a definite flag, the given signal and buffer
                news = [e for k, e in call_events(p) if (e.get('rpath') or e['path']) == 'core::cell::RefCell::<T>::new']
                if not bad:
                    if len(news) != 1 or news[0]['args'][0][0] != 'agg':
                        bad = 'shared state is not built by RefCell::new(ForkShared {..})'
                    else:
                        f = news[0]['args'][0][2]
                        if f[si] != ('param', 1) or f[ri] != ('param', 2) or f[pi][0] != 'bool':
                            bad = 'shared state must be { signal: self, ring_buffer, pending: <constant> }: %s' % short(news[0]['args'][0])
            panics = [p for p in ps if p['end'] != 'return']
            if not bad and not panics:
                bad = 'no rejecting path for a non-empty ring buffer'
            run.check(bad is None, 'fork.ctor', fn, cfg, bad or '', where=where(body))
        # both branches alias one cell
        fn = 'dasp_signal::Fork::<S, D>::by_ref'
        body = cx.body(fn)
        if body is not None:
            ps = returning(cx.paths(fn))
            ok = len(ps) == 1 and ps[0]['ret'][0] == 'agg' and len(ps[0]['ret'][2]) == 2
            if ok:
                a, b = ps[0]['ret'][2]
                ok = (a[0] == 'agg' and b[0] == 'agg' and a[1][1] == 'dasp_signal::BranchRefA' and b[1][1] == 'dasp_signal::BranchRefB'
                      and a[2] == b[2] and a[2][0] == ('ref', self_loc(cx.field_index('dasp_signal::Fork', 'shared'))))
            run.check(ok, 'fork.aliasing', fn, cfg, 'by_ref must hand both branches a reference to the fork\'s own shared cell', where=where(body))
            # re-splitting must keep the shared state (queue + flag): the invariant of Appendix C.2 has to survive a re-split
            touched = [ev_key(e) for k, e in call_events(ps[0])] + [short_loc(l) for l in heap_writes(ps[0], ignore_mut=False)] if len(ps) == 1 else ['?']
            run.check(not touched, 'fork.resplit-keeps-state', fn, cfg,
                      'by_ref touches the shared state (%s): frames queued for one branch and the flag naming their owner must survive a re-split' % ', '.join(touched), where=where(body))
        else:
            run.fail('fork.aliasing', fn, cfg, 'function not found')
        if cfg != 'nostd':
            fn = 'dasp_signal::Fork::<S, D>::by_rc'
            body = cx.body(fn)
            if body is not None:
                ps = returning(cx.paths(fn))
                ok = False
                if len(ps) == 1 and ps[0]['ret'][0] == 'agg' and len(ps[0]['ret'][2]) == 2:
                    p = ps[0]
                    a, b = p['ret'][2]
                    news = [(k, e) for k, e in call_events(p) if (e.get('rpath') or e['path']) == 'alloc::rc::Rc::<T>::new']
                    if len(news) == 1 and a[0] == 'agg' and b[0] == 'agg' and news[0][1]['args'][0] == ('field', ('param', 1), cx.field_index('dasp_signal::Fork', 'shared')):
                        rc = ('ret', news[0][0])

                        def is_rc(t):
                            if t == rc:
                                return True
                            return t[0] == 'app' and t[1].endswith('Clone>::clone') and t[2][0][0] == 'ref' and load(p, t[2][0][1]) == rc
                        ok = (a[1][1] == 'dasp_signal::BranchRcA' and b[1][1] == 'dasp_signal::BranchRcB' and is_rc(a[2][0]) and is_rc(b[2][0]))
                run.check(ok, 'fork.aliasing', fn, cfg, 'by_rc must put the shared state in one Rc and give both branches that Rc (or a clone of it)', where=where(body))
                if len(ps) == 1:
                    other = [ev_key(e) for k, e in call_events(ps[0], effectful_only=False) if not (e.get('rpath') or e['path']).startswith(('alloc::rc::Rc::<T>::new', '<alloc::rc::Rc<T'))]
                    other += [short_loc(l) for l in heap_writes(ps[0])]
                    run.check(not other, 'fork.resplit-keeps-state', fn, cfg, 'by_rc touches the shared state (%s) before sharing it' % ', '.join(other), where=where(body))
            else:
                run.fail('fork.aliasing', fn, cfg, 'function not found')
