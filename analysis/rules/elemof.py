"""Element-of abstraction for loops over core iterator adaptors (used by the graph-node rules).

`Den(path).of(term)` maps a term to what it denotes:
    ('param', i)                       an argument
    ('slice', X)                       the slice behind reference/pointer X  (X a denotation or term)
    ('elem', S, h)                     the element of S visited by the loop with header h (generic iteration)
    ('index', S, h)                    its position (enumerate)
    ('nth', S, k)                      the k-th element pulled from iterator over S outside any loop (k = 0 first)
    ('rest', S, k, h)                  element visited by loop h over the iterator on S after k elements were pulled
    ('buffers', X)                     Input::buffers(X)
    ('samples', B)                     the sample array of Buffer B as a slice
    ('get', S, i)                      S[i] (payload of a successful slice::get / index)
    ('range', lo, hi, h)               the loop variable of `for v in lo..hi`
Trusted: iter/iter_mut/into_iter visit a slice in order, zip pairs position-wise, enumerate counts from 0."""
from rules.common import *

SL = 'core::slice::<impl [T]>::'


def rp(e):
    return (e.get('rpath') or e['path']) if e['kind'] == 'call' else None


class Den:
    def __init__(self, path, input_ty_fields=(0, 1)):
        self.p = path
        self.ev = path['events']
        # map: iterator local location -> list of (event index of next(), loop header or None)
        self.next_header = {}
        self.pulls = {}
        for k, e in enumerate(self.ev):
            if e['kind'] == 'call' and e['name'] == 'next' and e.get('trait') == ITER and e['args'][0][0] == 'ref':
                loc = e['args'][0][1]
                hdr = None
                if k > 0 and self.ev[k - 1]['kind'] == 'loop-enter':
                    hdr = (self.ev[k - 1]['header'], self.ev[k - 1]['frame'])
                self.next_header[k] = hdr
                self.pulls.setdefault(loc, []).append(k)
        self.iter_value = {}     # iterator loc -> creation term
        for k, e in enumerate(self.ev):
            if e['kind'] == 'loop-enter':
                src = dict(e.get('live', {}))
                src.update(e['before'])
                for local, v in src.items():
                    self.iter_value.setdefault((('L', e['frame'], local), ()), v)

    # -- iterators ---------------------------------------------------------------
    def iter_of(self, t):
        """denotation of the sequence an iterator-valued term runs over: ('seq', S) | ('enumerate', D) | ('zip', A, B) | ('range', lo, hi)"""
        t = strip_epoch(t)
        if t[0] == 'mut':
            return self.iter_of(self.ev[t[1]]['args'][t[2]])
        if t[0] == 'ref':
            # a slice reference used directly as IntoIterator
            return ('seq', self.slice_of(t))
        if t[0] == 'agg' and t[1][0] == 'adt' and t[1][1] == 'core::ops::range::Range':
            return ('range', t[2][0], t[2][1])
        if t[0] == 'ret':
            e = self.ev[t[1]]
            r = rp(e)
            if r in (SL + 'iter', SL + 'iter_mut'):
                return ('seq', self.slice_of(e['args'][0]))
            if 'IntoIterator for &' in r and 'slice::iter' in r:
                return ('seq', self.slice_of(e['args'][0]))
            if 'IntoIterator for &' in r and 'alloc::vec' in r:
                return ('seq', ('vec', self.of(e['args'][0])))
            if is_call(e, ITER, 'copied') or is_call(e, ITER, 'cloned'):
                return self.iter_of(e['args'][0])        # the same elements, by value
            if is_call(e, ITER, 'enumerate'):
                return ('enumerate', self.iter_of(e['args'][0]))
            if is_call(e, ITER, 'zip'):
                return ('zip', self.iter_of(e['args'][0]), self.iter_of(e['args'][1]))
            if e['name'] == 'into_iter':
                return self.iter_of(e['args'][0])
        if t[0] == 'param':
            return ('seq', ('slice', t))
        return ('unknown-iter', t)

    def slice_of(self, t):
        """denotation of a slice-valued reference"""
        t = strip_epoch(t)
        if t[0] == 'param':
            return ('slice', t)
        if t[0] == 'ref':
            loc = t[1]
            if loc[0][0] == 'P' and not loc[1]:
                inner = loc[0][1]
                return self.slice_of(inner)
            if loc[0][0] == 'P' and loc[1] == (('f', 0),):
                # &buffer.0 : the sample array of a Buffer
                return ('samples', self.of(loc[0][1]))
            v = load(self.p, loc)
            if v[0] != 'uninit':
                return self.slice_of(v)
            return ('slice', t)
        if t[0] == 'ret':
            e = self.ev[t[1]]
            r = rp(e)
            if r in ('core::slice::raw::from_raw_parts', 'core::slice::raw::from_raw_parts_mut', 'core::ptr::slice_from_raw_parts', 'core::ptr::slice_from_raw_parts_mut'):
                a0, a1 = strip_epoch(e['args'][0]), strip_epoch(e['args'][1])
                # Input::buffers(): from_raw_parts(input.buffers_ptr, input.buffers_len)
                if a0[0] == 'field' and a1[0] == 'field' and a0[1] == a1[1] and a0[2] == 0 and a1[2] == 1 and a0[1][0] == 'deref':
                    return ('buffers', self.of(a0[1][1]))
                if a0[0] == 'field' and a1[0] == 'field' and a0[1] == a1[1] and a0[2] == 0 and a1[2] == 1 and a0[1][0] == 'index':
                    return ('buffers', self.of(a0[1]))       # the Input named by a slice pattern / constant index
                return ('raw', a0, a1)
            if r == 'dasp_graph::node::Input::buffers':
                return ('buffers', self.of(e['args'][0]))
            if ('core::ops::index::Index' in r) and e['args'][1][0] == 'agg' and e['args'][1][1][1] == 'core::ops::range::RangeFull':
                return self.slice_of(e['args'][0])
            if r in ('<alloc::vec::Vec<T, A> as core::ops::deref::Deref>::deref', '<alloc::vec::Vec<T, A> as core::ops::deref::DerefMut>::deref_mut',
                     'alloc::vec::Vec::<T, A>::as_slice', 'alloc::vec::Vec::<T, A>::as_mut_slice'):
                return ('vec', self.of(e['args'][0]))
            if r.endswith('Buffer as core::ops::deref::Deref>::deref') or r.endswith('Buffer as core::ops::deref::DerefMut>::deref_mut'):
                return ('samples', self.of(e['args'][0]))
        if t[0] == 'deref':
            return self.slice_of(t[1])
        d = self.of(t)
        return ('slice', d)

    # -- values -------------------------------------------------------------------
    def of(self, t):
        t = strip_epoch(t)
        if t[0] == 'param':
            return t
        if t[0] == 'ref':
            loc = t[1]
            if loc[0][0] == 'P' and not loc[1]:
                return self.of(loc[0][1])
            if loc[0][0] == 'P':
                return ('proj', self.of(loc[0][1]), loc[1])
            v = load(self.p, loc)
            if v[0] != 'uninit':
                return self.of(v)
            return t
        if t[0] == 'deref':
            return self.of(t[1])
        if t[0] == 'field' and t[1][0] == 'variant' and t[1][2] == 1 and t[1][1][0] == 'ret':
            # payload of Some(..)
            k = t[1][1][1]
            e = self.ev[k]
            if e['kind'] == 'call' and e['name'] == 'next' and e.get('trait') == ITER:
                return self.next_elem(k)
            if rp(e) in (SL + 'get', SL + 'get_mut'):
                return ('get', self.slice_of(e['args'][0]), self.of(e['args'][1]))
            if rp(e) in (SL + 'first', SL + 'first_mut'):
                return ('get', self.slice_of(e['args'][0]), ('int', 0, 'usize'))
            return ('some', ('ret', k))
        if t[0] == 'field':
            base = self.of(t[1])
            return self.project(base, t[2])
        if t[0] == 'int':
            return t
        if t[0] == 'index' and t[2][0] == 'cidx':
            # element n of a slice pattern `[a, b, ..]` (counted from the front)
            return ('get', self.slice_of(t[1]), ('int', t[2][1], 'usize')) if not t[2][2] else ('get-from-end', self.slice_of(t[1]), t[2][1])
        if t[0] == 'index':
            return ('get', self.slice_of(t[1]), self.of(t[2]))
        if t[0] == 'ret':
            e = self.ev[t[1]]
            r = rp(e)
            if r and ('core::ops::index::Index' in r) and e['args'][1][0] != 'agg':
                return ('get', self.slice_of(e['args'][0]), self.of(e['args'][1]))
            if r in ('core::option::Option::<T>::expect', 'core::option::Option::<T>::unwrap'):
                return ('some', self.of(e['args'][0]))
            return ('call', r, tuple(self.of(a) for a in e['args']), t[1])
        return t

    def project(self, base, i):
        if base[0] == 'pair':
            return base[1 + i] if i < 2 else ('proj', base, i)
        return ('field', base, i)

    def next_elem(self, k):
        e = self.ev[k]
        loc = e['args'][0][1]
        hdr = self.next_header.get(k)
        created, skipped = self.creation(loc, k)
        d = self.iter_of(created)
        skipped += len([j for j in self.pulls.get(loc, []) if j < k and self.next_header.get(j) is None])
        return self.elem(d, hdr, skipped)

    def creation(self, loc, k):
        """(the term that initialised iterator local `loc`, number of elements pulled from it outside loops before it got here)"""
        first = self.pulls[loc][0]
        v = self.ev[first].get('pre', {}).get(0)
        n = 0
        skipped = 0
        while v is not None and v[0] in ('mut', 'phi') and n < 60:
            n += 1
            if v[0] == 'mut':
                e = self.ev[v[1]]
                if e['kind'] == 'call' and e['name'] == 'next' and e.get('trait') == ITER and self.next_header.get(v[1]) is None:
                    skipped += 1
                v = e.get('pre', {}).get(v[2])
            else:
                # a loop-carried iterator local: what it held when its loop was entered (the loop that havocs it records that)
                enter = next((e for e in self.ev if e['kind'] == 'loop-enter' and e['header'] == v[1] and e.get('hv') == v[2]), None)
                b = enter['before'].get(v[3]) if enter else None
                if b is None:
                    break
                v = b
        if v is None or v[0] in ('phi', 'phiheap'):
            v = self.iter_value.get(loc, v)
        return v, skipped

    def elem(self, d, hdr, skipped):
        if d[0] == 'seq':
            if hdr is None:
                return ('nth', d[1], skipped)
            return ('rest', d[1], skipped, hdr) if skipped else ('elem', d[1], hdr)
        if d[0] == 'enumerate':
            inner = self.elem(d[1], hdr, skipped)
            return ('pair', ('index', inner), inner)
        if d[0] == 'zip':
            return ('pair', self.elem(d[1], hdr, skipped), self.elem(d[2], hdr, skipped))
        if d[0] == 'range':
            return ('range', self.of(d[1]), self.of(d[2]), hdr)
        return ('elem?', d, hdr)
