"""C03 — sample and frame amplitude arithmetic obeys its identities, channel by channel (structural proof of the wiring).

1 (E1) the 14 `impl Sample` rows: Signed is a signed/float format, Float a float format, EQUILIBRIUM equals the C01/C02 image of
  amplitude 0 (0 for signed and float formats, 2^(bits-1) for unsigned ones), and no impl overrides a provided method;
2 (E3) the provided methods: add_amp = to_sample(to_signed_sample(self) + amp), mul_amp = to_sample(to_float_sample(self) * amp),
  to_signed_sample / to_float_sample / to_sample / from_sample are plain conversions;
3 (E1) every `impl Frame`: CHANNELS equals the N of NumChannels = NChannels<N> (15 impls: [S; N] and 14 mono), NChannels is
  the only implementor of NumChannels, EQUILIBRIUM is the sample equilibrium in every channel;
4 (E3) map / zip_map (array + 14 mono) = from_fn(closure) whose closure applies the user function exactly once to channel `idx` of
  each operand with idx the from_fn parameter unmodified (so every channel_unchecked index is < N);
  Frame defaults offset/scale/add/mul = map / zip_map of the matching Sample op; mono overrides agree (sibling agreement);
  to_signed_frame / to_float_frame = per-channel to_sample;
5 (E3) array_from_iter: writes slot i for i in 0..N in order, on a short iterator drops exactly 0..i and returns None, returns
  Some only after the loop;
6 channel iteration / indexing: Channels::next, len, array channel = slice get, mono channel(idx) = Some(self) iff idx == 0,
  mono from_fn calls the function once with 0, mono from_samples pulls once.
With C01/C02 these give the offset-by-zero, scale-by-one, scale-by-zero identities (paper step)."""
from rules.common import *
from rules import formats as F

LEVEL = 'other'
FR = 'dasp_frame::Frame'
FNMUT = 'core::ops::function::FnMut'

SIGNED_OF = {'i8': 'i8', 'i16': 'i16', 'i24': 'i24', 'i32': 'i32', 'i48': 'i48', 'i64': 'i64', 'u8': 'i8', 'u16': 'i16', 'u24': 'i32', 'u32': 'i32', 'u48': 'i64', 'u64': 'i64',
             'f32': 'f32', 'f64': 'f64'}


def rp(e):
    return (e.get('rpath') or e['path']) if e['kind'] == 'call' else None


def check_sample_table(run, cx, cfg):
    impls = {F.fmt_of_type(i['self_ty']): i for i in cx.facts.impls_of(SAMPLE)}
    run.floor('sample.table', 'impl Sample (%s)' % cfg, len(impls), 14)
    for fmt in F.ALL_FORMATS:
        imp = impls.get(fmt)
        key = 'impl Sample for %s' % fmt
        if imp is None:
            run.fail('sample.table', key, cfg, 'impl not found')
            continue
        items = {i['name']: i for i in imp['items']}
        extra = set(items) - {'Signed', 'Float', 'EQUILIBRIUM'}
        if extra:
            run.fail('sample.no-override', key, cfg, 'overrides provided method(s) %s: the identities are only established for the trait defaults' % sorted(extra), where=imp['span'])
        else:
            run.ok('sample.no-override', key, cfg)
        sg, fl = F.fmt_of_type(items['Signed']['ty']), F.fmt_of_type(items['Float']['ty'])
        bad = None
        if fmt in F.FLOAT_FORMATS:
            if sg != fmt or fl != fmt:
                bad = 'a float format must be its own Signed and Float companion'
        else:
            if sg is None or F.unsigned(sg) or sg in F.FLOAT_FORMATS or F.bits(sg) < F.bits(fmt):
                bad = 'Signed companion %s must be a signed integer format at least as wide' % items['Signed']['ty']
            elif fl not in F.FLOAT_FORMATS:
                bad = 'Float companion must be f32 or f64'
        eq = items['EQUILIBRIUM']
        val = cx.facts.scalar(eq['value'], eq['ty']) if eq.get('value') and 'bits' in eq['value'] else None
        if fmt in F.FLOAT_FORMATS:
            want = 0
            if val is not None and isinstance(val, int):
                pass
        else:
            want = F.offset(fmt)
        if not bad and val != want:
            bad = 'EQUILIBRIUM is %s but amplitude 0 of %s is %s (C01/C02 image of 0)' % (val, fmt, want)
        run.check(bad is None, 'sample.table', key, cfg, bad or '', where=imp['span'],
                  sample={'Signed': items['Signed']['ty'], 'Float': items['Float']['ty'], 'EQUILIBRIUM': val} if fmt in ('u8', 'u24', 'f32') else None)


def check_sample_defaults(run, cx, cfg):
    conv = ('dasp_sample::conv::ToSample::to_sample_', 'dasp_sample::conv::FromSample::from_sample_')
    specs = {
        'add_amp': lambda r: match(('app', 'dasp_sample::Sample::to_sample', (('app', 'core::ops::arith::Add::add', (('app', 'dasp_sample::Sample::to_signed_sample', (('param', 1),), '_'), ('param', 2)), '_'),), '_'), r),
        'mul_amp': lambda r: match(('app', 'dasp_sample::Sample::to_sample', (('app', 'core::ops::arith::Mul::mul', (('app', 'dasp_sample::Sample::to_float_sample', (('param', 1),), '_'), ('param', 2)), '_'),), '_'), r),
        'to_signed_sample': lambda r: match(('app', 'dasp_sample::Sample::to_sample', (('param', 1),), '_'), r),
        'to_float_sample': lambda r: match(('app', 'dasp_sample::Sample::to_sample', (('param', 1),), '_'), r),
    }
    for name, ok in specs.items():
        fn = 'dasp_sample::Sample::' + name
        body = cx.body(fn)
        if body is None:
            run.fail('sample.default', fn, cfg, 'provided method not found')
            continue
        ps = returning(cx.paths(fn, inline=False))
        good = len(ps) == 1 and ok(ps[0]['ret']) is not None
        run.check(good, 'sample.default', fn, cfg, 'provided %s is %s; expected %s' % (name, short(ps[0]['ret']) if ps else None, {
            'add_amp': 'to_sample(to_signed_sample(self) + amp)', 'mul_amp': 'to_sample(to_float_sample(self) * amp)'}.get(name, 'to_sample(self)')), where=where(body),
            sample=short(ps[0]['ret']) if ps else None)


def frame_impls(cx):
    out = {}
    for i in cx.facts.impls_of(FR):
        out[i['self_ty']] = i
    return out


def check_frame_table(run, cx, cfg):
    impls = frame_impls(cx)
    run.floor('frame.table', 'impl Frame (%s)' % cfg, len(impls), 15)
    nimp = cx.facts.impls_of('dasp_frame::NumChannels')
    run.check(len(nimp) == 1 and nimp[0]['self_ty'].startswith('dasp_frame::NChannels<'), 'frame.numchannels-witness', 'impl NumChannels', cfg,
              'NChannels<N> must be the only implementor of NumChannels (the compile-time channel-count witness); found %s' % [i['self_ty'] for i in nimp])
    for ty, imp in sorted(impls.items()):
        items = {i['name']: i for i in imp['items']}
        key = 'impl Frame for %s' % ty
        nc = items['NumChannels']['ty']
        m = __import__('re').match(r'dasp_frame::NChannels<(.+)>$', nc)
        bad = None
        if not m:
            bad = 'NumChannels is %s, not NChannels<N>' % nc
        else:
            n = m.group(1)
            ch = items['CHANNELS']
            if ty == '[S; N]':
                b = cx.facts.const_bodies.get('<[S; N] as dasp_frame::Frame>::CHANNELS')
                ps = returning(T.Engine(cx.facts).summarize(b)) if b else []
                if n != 'N' or len(ps) != 1 or ps[0]['ret'] != ('tyconst', 'N'):
                    bad = 'CHANNELS of [S; N] must be the array length N (is %s)' % (short(ps[0]['ret']) if ps else None)
                be = cx.facts.const_bodies.get('<[S; N] as dasp_frame::Frame>::EQUILIBRIUM')
                pe = returning(T.Engine(cx.facts).summarize(be)) if be else []
                if not bad and not (len(pe) == 1 and pe[0]['ret'][0] == 'repeat' and pe[0]['ret'][1][0] == 'assoc' and pe[0]['ret'][1][1] == 'dasp_sample::Sample::EQUILIBRIUM' and pe[0]['ret'][2] == 'N'):
                    bad = 'EQUILIBRIUM of [S; N] must be [S::EQUILIBRIUM; N]'
            else:
                val = cx.facts.scalar(ch['value'], ch['ty']) if ch.get('value') and 'bits' in ch['value'] else None
                if n != '1' or val != 1:
                    bad = 'a bare sample is the 1-channel frame: NumChannels = NChannels<%s>, CHANNELS = %s' % (n, val)
                fmt = F.fmt_of_type(ty)
                eq = items['EQUILIBRIUM']
                ev = cx.facts.scalar(eq['value'], eq['ty']) if eq.get('value') and 'bits' in eq['value'] else None
                want = 0 if fmt in F.FLOAT_FORMATS else F.offset(fmt)
                if not bad and ev != want:
                    bad = 'frame EQUILIBRIUM %s differs from the sample equilibrium %s' % (ev, want)
                if not bad and (items['Sample']['ty'] != ty or F.fmt_of_type(items['Signed']['ty']) != SIGNED_OF[fmt] and False):
                    bad = 'Sample of a mono frame must be the type itself'
        run.check(bad is None, 'frame.table', key, cfg, bad or '', where=imp['span'])


_FM = ('channels', 'channel', 'channel_unchecked', 'from_fn', 'from_samples', 'map', 'zip_map', 'to_signed_frame', 'to_float_frame', 'offset_amp', 'scale_amp',
       'add_amp', 'mul_amp', 'channels_ref', 'channels_mut', 'channel_mut')
_SM = ('to_sample', 'from_sample', 'to_signed_sample', 'to_float_sample', 'add_amp', 'mul_amp')
FRAME_SAMPLE_METHODS = [('dasp_frame::Frame', m) for m in _FM] + [('dasp_sample::Sample', m) for m in _SM]


def check_map_zip(run, cx, cfg):
    """map / zip_map bodies: from_fn(closure), closure applies the user fn once to channel idx of each operand"""
    n = 0
    for ty, imp in sorted(frame_impls(cx).items()):
        for meth, nops in (('map', 1), ('zip_map', 2)):
            it = next((i for i in imp['items'] if i['name'] == meth), None)
            fn = it['path'] if it else None
            body = cx.body(fn) if fn else None
            if body is None:
                run.fail('frame.map-wiring', '<%s as Frame>::%s' % (ty, meth), cfg, 'method not found')
                continue
            n += 1
            ps = returning(cx.paths(fn, inline=False))
            inl = False
            if len(ps) == 1 and not (ps[0]['ret'][0] == 'app' and ps[0]['ret'][1] == 'dasp_frame::Frame::from_fn'):
                # the body may live in a private helper shared by several impls: see through free functions, keep every
                # Frame / Sample method as the call it is
                ps = returning(cx.paths(fn, stop_trait_methods=FRAME_SAMPLE_METHODS))
                inl = True
            bad = None
            if len(ps) != 1 or not (ps[0]['ret'][0] == 'app' and ps[0]['ret'][1] == 'dasp_frame::Frame::from_fn'):
                bad = 'must be F::from_fn(closure)'
            else:
                p = ps[0]
                clo = p['ret'][2][0]
                idx = ('idx',)
                # (a private free helper inside the closure -- `read_channel(&frame, i)` -- is seen through on a second attempt)
                for inl2 in ([True] if inl else [False, True]):
                    bad = None
                    cps = returning(cx.closure_paths(clo, p, [idx], inline=inl2, stop_trait_methods=FRAME_SAMPLE_METHODS if inl2 else ())) if clo[0] == 'agg' else []
                    if len(cps) != 1:
                        bad = 'closure is not straight-line'
                    else:
                        cp = cps[0]
                        cm = [(k, e) for k, e in call_events(cp) if is_call(e, FNMUT, 'call_mut')]
                        if len(cm) != 1 or cp['ret'] != ('ret', cm[0][0]):
                            bad = 'the user function must be applied exactly once per channel and its result returned'
                        else:
                            args = cm[0][1]['args'][1]
                            operands = [('param', i + 1) for i in range(nops)]
                            if not (args[0] == 'agg' and len(args[2]) == nops):
                                bad = 'wrong number of operands'
                            else:
                                for a, opnd in zip(args[2], operands):
                                    a = strip_epoch(a)
                                    # *channel_unchecked(&operand, idx)
                                    ok = (a[0] == 'deref' and a[1][0] == 'app' and a[1][1].endswith(('Frame>::channel_unchecked', 'Frame::channel_unchecked')) and a[1][2][1] == idx
                                          and a[1][2][0][0] == 'ref' and strip_epoch(deref(cp, a[1][2][0])) == opnd)
                                    if not ok:
                                        bad = 'operand %s must be channel `idx` of %s with idx the from_fn parameter itself (is %s)' % (operands.index(opnd), short(opnd), short(a))
                                        break
                    if bad is None:
                        break
            run.check(bad is None, 'frame.map-wiring', fn, cfg, bad or '', where=where(body), sample='from_fn(|i| f(*self.channel_unchecked(i)%s))' % (', *other.channel_unchecked(i)' if nops == 2 else '') if ty in ('[S; N]', 'u8') else None)
    run.floor('frame.map-wiring', 'map/zip_map bodies (%s)' % cfg, n, 30)


def check_frame_ops(run, cx, cfg):
    # provided methods of Frame
    def clo_ret(p, t, nargs):
        clo = t
        cps = returning(cx.closure_paths(clo, p, [('s%d' % i,) for i in range(nargs)]))
        return cps[0] if len(cps) == 1 else None

    for name, sample_op, param in (('offset_amp', 'add_amp', ('param', 2)), ('scale_amp', 'mul_amp', ('param', 2))):
        fn = 'dasp_frame::Frame::' + name
        body = cx.body(fn)
        if body is None:
            run.fail('frame.default-op', fn, cfg, 'provided method not found')
            continue
        ps = returning(cx.paths(fn, inline=False))
        ok = False
        if len(ps) == 1 and ps[0]['ret'][0] == 'app' and ps[0]['ret'][1] == 'dasp_frame::Frame::map' and ps[0]['ret'][2][0] == ('param', 1):
            cp = clo_ret(ps[0], ps[0]['ret'][2][1], 1)
            if cp is not None:
                r = cp['ret']
                ok = r[0] == 'app' and r[1] == 'dasp_sample::Sample::' + sample_op and r[2][0] == ('s0',) and strip_epoch(deref(cp, r[2][1]) if r[2][1][0] == 'ref' else r[2][1]) == param
        run.check(ok, 'frame.default-op', fn, cfg, '%s must be self.map(|s| s.%s(arg))' % (name, sample_op), where=where(body))
    for name, sample_op in (('add_amp', 'add_amp'), ('mul_amp', 'mul_amp')):
        fn = 'dasp_frame::Frame::' + name
        body = cx.body(fn)
        if body is None:
            run.fail('frame.default-op', fn, cfg, 'provided method not found')
            continue
        ps = returning(cx.paths(fn, inline=False))
        ok = False
        if len(ps) == 1:
            r = ps[0]['ret']
            ok = r[0] == 'app' and r[1] == 'dasp_frame::Frame::zip_map' and r[2][0] == ('param', 1) and r[2][1] == ('param', 2) and r[2][2][0] == 'fnitem' and r[2][2][1] == 'dasp_sample::Sample::' + sample_op
        run.check(ok, 'frame.default-op', fn, cfg, '%s must be self.zip_map(other, Sample::%s)' % (name, sample_op), where=where(body))
    # sibling agreement: mono overrides
    nm = 0
    for ty, imp in sorted(frame_impls(cx).items()):
        if ty == '[S; N]':
            continue
        for meth, want in (('scale_amp', ('app', 'dasp_sample::Sample::mul_amp', (('param', 1), ('param', 2)))),
                           ('to_signed_frame', ('app', 'dasp_sample::Sample::to_signed_sample', (('param', 1),))),
                           ('to_float_frame', ('app', 'dasp_sample::Sample::to_float_sample', (('param', 1),)))):
            it = next((i for i in imp['items'] if i['name'] == meth), None)
            if it is None:
                continue
            body = cx.body(it['path'])
            ps = returning(cx.paths(it['path'], inline=False))
            r = ps[0]['ret'] if len(ps) == 1 else ('x',)
            nm += 1
            run.check(r[:3] == want, 'frame.mono-sibling', it['path'], cfg, 'mono %s must be %s' % (meth, short(want)), where=where(body))
        it = next((i for i in imp['items'] if i['name'] == 'add_amp'), None)
        if it is not None:
            body = cx.body(it['path'])
            ps = returning(cx.paths(it['path'], inline=False))
            ok = False
            if len(ps) == 1:
                r = ps[0]['ret']
                if r[0] == 'app' and r[1] == 'dasp_sample::Sample::add_amp' and r[2][0] == ('param', 1):
                    b = strip_epoch(r[2][1])
                    ok = (b[0] == 'deref' and b[1][0] == 'app' and b[1][1].endswith('Frame::channel_unchecked') and b[1][2][1] == ('int', 0, 'usize')
                          and strip_epoch(deref(ps[0], b[1][2][0])) == ('param', 2))
            nm += 1
            run.check(ok, 'frame.mono-sibling', it['path'], cfg, 'mono add_amp must be Sample::add_amp(self, *other.channel_unchecked(0)) (constant index 0 against NChannels<1>)', where=where(body))
    run.floor('frame.mono-sibling', 'mono override bodies (%s)' % cfg, nm, 56)
    # array conversions: per-element to_sample
    for meth in ('to_signed_frame', 'to_float_frame'):
        fn = '<[S; N] as dasp_frame::Frame>::' + meth
        body = cx.body(fn)
        if body is None:
            run.fail('frame.array-conv', fn, cfg, 'method not found')
            continue
        ps = returning(cx.paths(fn, inline=False))
        ok = False
        if len(ps) == 1:
            evs = [e for k, e in call_events(ps[0], effectful_only=False)]
            m = [e for e in evs if rp(e) in ('core::array::<impl [T; N]>::map', 'dasp_frame::Frame::map') or (e.get('trait') == FR and e['name'] == 'map')]
            if len(m) == 1 and m[0]['args'][0] == ('param', 1):
                cp = clo_ret(ps[0], m[0]['args'][1], 1)
                ok = cp is not None and cp['ret'][0] == 'app' and cp['ret'][1] == 'dasp_sample::Sample::to_sample' and cp['ret'][2] == (('s0',),)
        run.check(ok, 'frame.array-conv', fn, cfg, '%s must convert every channel with to_sample' % meth, where=where(body))


def check_from_iter(run, cx, cfg):
    fn = 'dasp_frame::array_from_iter'
    body = cx.body(fn)
    if body is None:
        run.fail('frame.from_samples', fn, cfg, 'function not found')
        return
    MU = 'core::mem::maybe_uninit::MaybeUninit::<T>::'
    ps = normal_paths(cx.paths(fn))
    bad = None
    kinds = set()
    for p in ps:
        rl = range_loops(p)
        evs = call_events(p)
        if not rl:
            bad = 'expected a loop over 0..N'
            break
        outer = rl[0]
        if outer['lo'] != ('int', 0, 'usize') or outer['hi'] != ('tyconst', 'N'):
            bad = 'the fill loop must run over 0..N (runs %s..%s)' % (short(outer['lo']), short(outer['hi']))
            break
        nk = outer['nexts'][0]
        d = dict(cond_facts(p)).get(('discr', ('ret', nk)))
        writes = [(k, e) for k, e in evs if rp(e) == MU + 'write']
        drops = [(k, e) for k, e in evs if rp(e) == MU + 'assume_init_drop']
        pulls = [(k, e) for k, e in evs if is_call(e, ITER, 'next') and e['args'][0] == ('ref', (('L', 0, 1), ()))]
        i = ('field', ('variant', ('ret', nk), 1), 0)
        if d == ('int', 0, 'isize'):
            # loop finished: Some(result.map(assume_init))
            r = p['ret']
            if p['end'] != 'return' or not (r[0] == 'agg' and r[1][2] == 1) or writes or drops or pulls:
                bad = 'after N successful writes it must return Some(..) without further pulls'
            kinds.add('done')
        else:
            if len(pulls) != 1:
                bad = 'each slot must pull exactly one sample'
                break
            got = dict(cond_facts(p)).get(('discr', ('ret', pulls[0][0])))
            if got == ('int', 1, 'isize'):
                ok = (len(writes) == 1 and not drops and isinstance(p['end'], tuple) and writes[0][1]['args'][1] == ('field', ('variant', ('ret', pulls[0][0]), 1), 0)
                      and writes[0][1]['args'][0][0] == 'ref' and writes[0][1]['args'][0][1][1][-1] == ('idx', i))
                if not ok:
                    bad = 'a pulled sample must be written to slot i of the result: [%s]' % describe_path(p)[:300]
                kinds.add('fill')
            elif got == ('int', 0, 'isize'):
                if writes:
                    bad = 'writes after the iterator ran short'
                inner = [l for l in rl[1:]]
                alt = None
                if not inner:
                    # the same cleanup spelled as a loop over the sub-slice `&mut result[..i]` (possibly in a private helper):
                    # every element of result[..i], in order -- decided with the element-of abstraction
                    from rules.elemof import Den
                    den = Den(p)
                    for l2 in iterator_loops(p):
                        seq = den.iter_of(l2['iter'])
                        if seq[0] == 'seq' and seq[1][0] == 'slice' and seq[1][1][0] == 'call' and seq[1][1][1].endswith('::index_mut') \
                                and seq[1][1][2][1] == ('agg', ('adt', 'core::ops::range::RangeTo', 0, 'RangeTo'), (i,)):
                            # ... of the array being filled (the MaybeUninit array local of this function)
                            base = p['events'][seq[1][1][3]]['args'][0]
                            if base[0] == 'ref' and base[1][0][0] == 'L' and base[1][0][1] == 0 and not base[1][1] \
                                    and body['locals'][base[1][0][2]].startswith('[core::mem::maybe_uninit::MaybeUninit<'):
                                alt = (l2, seq, den)
                if alt is not None:
                    l2, seq, den = alt
                    dd = dict(cond_facts(p)).get(('discr', ('ret', l2['next'])))
                    if dd == ('int', 1, 'isize'):
                        if len(drops) != 1 or den.of(drops[0][1]['args'][0]) != ('elem', seq[1], (l2['header'], l2['frame'])):
                            bad = 'cleanup must drop each element of result[..i]'
                        kinds.add('cleanup')
                    else:
                        r = p['ret']
                        if p['end'] != 'return' or not (r[0] == 'agg' and r[1][2] == 0) or drops:
                            bad = 'after the cleanup it must return None'
                        kinds.add('short')
                elif not inner or inner[0]['lo'] != ('int', 0, 'usize') or inner[0]['hi'] != i:
                    bad = bad or 'on a short iterator exactly the slots 0..i already written must be dropped'
                else:
                    ik = inner[0]['nexts'][0]
                    dd = dict(cond_facts(p)).get(('discr', ('ret', ik)))
                    if dd == ('int', 1, 'isize'):
                        j = ('field', ('variant', ('ret', ik), 1), 0)
                        if len(drops) != 1 or drops[0][1]['args'][0][1][1][-1] != ('idx', j):
                            bad = 'cleanup must drop slot j for each j in 0..i'
                        kinds.add('cleanup')
                    else:
                        r = p['ret']
                        if p['end'] != 'return' or not (r[0] == 'agg' and r[1][2] == 0) or drops:
                            bad = 'after the cleanup it must return None'
                        kinds.add('short')
        if bad:
            break
    if not bad and kinds != {'done', 'fill', 'cleanup', 'short'}:
        bad = 'step function lacks cases (has %s)' % sorted(kinds)
    run.check(bad is None, 'frame.from_samples', fn, cfg, bad or '', where=where(body))
    fn = '<[S; N] as dasp_frame::Frame>::from_samples'
    body = cx.body(fn)
    if body is not None:
        ps = returning(cx.paths(fn, stop=['dasp_frame::array_from_iter']))
        ok = len(ps) == 1 and len(call_events(ps[0])) == 1 and rp(call_events(ps[0])[0][1]) == 'dasp_frame::array_from_iter' and ps[0]['ret'] == ('ret', call_events(ps[0])[0][0])
        run.check(ok, 'frame.from_samples', fn, cfg, 'array from_samples must be array_from_iter(samples)', where=where(body))


def check_channels(run, cx, cfg):
    # mono: channel(idx) = Some(self) iff idx == 0; from_fn calls once with 0; from_samples pulls once
    nm = 0
    for ty, imp in sorted(frame_impls(cx).items()):
        if ty == '[S; N]':
            continue
        items = {i['name']: i['path'] for i in imp['items']}
        for meth in ('channel', 'channel_mut'):
            ps = returning(cx.paths(items[meth]))
            ok = len(ps) == 2
            for p in ps:
                lo, hi = int_constraint(p, ('param', 2))
                r = p['ret']
                if hi == 0:
                    ok = ok and r[0] == 'agg' and r[1][2] == 1 and r[2][0] in (('ref', (('P', ('param', 1)), ())), ('param', 1))
                elif lo >= 1:
                    ok = ok and r[0] == 'agg' and r[1][2] == 0
                else:
                    ok = False
            nm += 1
            run.check(ok, 'frame.mono-channel', items[meth], cfg, 'mono %s(idx) must be Some(self) iff idx == 0' % meth, where=where(cx.body(items[meth])))
        ps = returning(cx.paths(items['from_fn']))
        ok = False
        if len(ps) == 1:
            cm = [(k, e) for k, e in call_events(ps[0]) if is_call(e, FNMUT, 'call_mut')]
            ok = len(cm) == 1 and cm[0][1]['args'][1] == ('agg', ('tuple',), (('int', 0, 'usize'),)) and ps[0]['ret'] == ('ret', cm[0][0])
        nm += 1
        run.check(ok, 'frame.mono-channel', items['from_fn'], cfg, 'mono from_fn must call the function once with channel 0', where=where(cx.body(items['from_fn'])))
        ps = returning(cx.paths(items['from_samples']))
        ok = False
        if len(ps) == 1:
            nx = [(k, e) for k, e in call_events(ps[0]) if is_call(e, ITER, 'next')]
            ok = len(nx) == 1 and len(call_events(ps[0])) == 1 and ps[0]['ret'] == ('ret', nx[0][0]) and nx[0][1]['args'][0] in (('ref', (('P', ('param', 1)), ())), ('param', 1))
        nm += 1
        run.check(ok, 'frame.mono-channel', items['from_samples'], cfg, 'mono from_samples must pull exactly one sample', where=where(cx.body(items['from_samples'])))
    run.floor('frame.mono-channel', 'mono channel/from_fn/from_samples bodies (%s)' % cfg, nm, 56)
    # channel_unchecked impls: array = slice get_unchecked(idx) (idx < N is the caller's obligation, discharged by the map wiring rule);
    # mono = self
    for meth, target in (('channel_unchecked', 'core::slice::<impl [T]>::get_unchecked'), ('channel_unchecked_mut', 'core::slice::<impl [T]>::get_unchecked_mut')):
        fn = '<[S; N] as dasp_frame::Frame>::' + meth
        ps = returning(cx.paths(fn))
        ok = False
        if len(ps) == 1:
            evs = [e for k, e in call_events(ps[0], effectful_only=False)]
            g = [e for e in evs if rp(e) == target]
            ok = len(g) == 1 and g[0]['args'][1] == ('param', 2) and ps[0]['ret'] in (g[0].get('result'), ('ref', (('P', g[0].get('result')), ())))
        run.check(ok, 'frame.array-channel', fn, cfg, 'array %s(idx) must be slice %s(idx)' % (meth, target.rsplit('::', 1)[-1]), where=where(cx.body(fn)))
    for ty, imp in sorted(frame_impls(cx).items()):
        if ty == '[S; N]':
            continue
        for meth in ('channel_unchecked', 'channel_unchecked_mut'):
            it = next(i for i in imp['items'] if i['name'] == meth)
            ps = returning(cx.paths(it['path']))
            ok = len(ps) == 1 and ps[0]['ret'] in (('param', 1), ('ref', (('P', ('param', 1)), ()))) and not call_events(ps[0])
            run.check(ok, 'frame.mono-channel', it['path'], cfg, 'mono %s must return the sample itself' % meth, where=where(cx.body(it['path'])))
    # array channel = slice get
    for meth, target in (('channel', 'core::slice::<impl [T]>::get'), ('channel_mut', 'core::slice::<impl [T]>::get_mut')):
        fn = '<[S; N] as dasp_frame::Frame>::' + meth
        ps = returning(cx.paths(fn))
        ok = False
        if len(ps) == 1:
            evs = [e for k, e in call_events(ps[0], effectful_only=False)]
            g = [e for e in evs if rp(e) == target]
            ok = len(g) == 1 and g[0]['args'][1] == ('param', 2) and ps[0]['ret'] == g[0].get('result')
        run.check(ok, 'frame.array-channel', fn, cfg, 'array %s(idx) must be the bounds-checked slice %s(idx)' % (meth, target.rsplit('::', 1)[-1]), where=where(cx.body(fn)))
    # channels() starts at index 0 over the frame itself (array + 14 mono); channels_ref / channels_mut iterate the whole frame;
    # array from_fn is core::array::from_fn
    nch = 0
    for ty, imp in sorted(frame_impls(cx).items()):
        items = {i['name']: i['path'] for i in imp['items']}
        ps = returning(cx.paths(items['channels'], inline=False))
        r = ps[0]['ret'] if len(ps) == 1 else ('x',)
        ni_, fi_ = cx.field_index('dasp_frame::Channels', 'next_idx'), cx.field_index('dasp_frame::Channels', 'frame')
        ok = r[0] == 'agg' and r[1][1] == 'dasp_frame::Channels' and r[2][ni_] == ('int', 0, 'usize') and r[2][fi_] == ('param', 1) and not call_events(ps[0])
        nch += 1
        run.check(ok, 'frame.channels-ctor', items['channels'], cfg, 'channels() must start at channel 0 of the frame itself (is %s)' % short(r), where=where(cx.body(items['channels'])))
        for meth, itname in (('channels_ref', 'iter'), ('channels_mut', 'iter_mut')):
            ps = returning(cx.paths(items[meth], inline=False))
            ok = False
            if len(ps) == 1:
                p = ps[0]
                evs = [e for k, e in call_events(p)]
                r = p['ret']
                it = [e for e in evs if rp(e) == 'core::slice::<impl [T]>::' + itname]
                if len(it) == 1 and r[0] == 'agg' and r[2] == (it[0]['result'],):
                    src = it[0]['args'][0]
                    if ty == '[S; N]':
                        ok = len(evs) == 1 and src in (('ref', (('P', ('param', 1)), ())), ('param', 1))
                    else:
                        fr = [e for e in evs if rp(e) in ('core::slice::raw::from_ref', 'core::slice::raw::from_mut')]
                        ok = len(evs) == 2 and len(fr) == 1 and fr[0]['args'][0] in (('ref', (('P', ('param', 1)), ())), ('param', 1)) and src == ('ref', (('P', fr[0]['result']), ()))
            nch += 1
            run.check(ok, 'frame.channels-ctor', items[meth], cfg, '%s must iterate exactly the channels of the frame, in order' % meth, where=where(cx.body(items[meth])))
    run.floor('frame.channels-ctor', 'channels / channels_ref / channels_mut bodies (%s)' % cfg, nch, 45)
    fn = '<[S; N] as dasp_frame::Frame>::from_fn'
    ps = returning(cx.paths(fn, inline=False))
    ok = len(ps) == 1 and len(call_events(ps[0])) == 1 and rp(call_events(ps[0])[0][1]) == 'core::array::from_fn' and call_events(ps[0])[0][1]['args'] == [('param', 1)] \
        and ps[0]['ret'] == ('ret', call_events(ps[0])[0][0])
    run.check(ok, 'frame.array-from_fn', fn, cfg, 'array from_fn must be core::array::from_fn(f) (calls f for 0..N in order)', where=where(cx.body(fn)))
    # Channels iterator
    fn = '<dasp_frame::Channels<F> as core::iter::traits::iterator::Iterator>::next'
    body = cx.body(fn)
    if body is not None:
        K = 'dasp_frame::Channels'
        ni, fi = cx.field_index(K, 'next_idx'), cx.field_index(K, 'frame')
        ps = returning(cx.paths(fn))
        bad = None
        if len(ps) != 1:
            bad = 'expected a single path'
        else:
            p = ps[0]
            # Option::map(|s| { ..; s }) or Option::inspect(|_| { .. }): both run the closure exactly for Some and hand the sample on
            maps = [(k, e) for k, e in call_events(p) if rp(e) in ('core::option::Option::<T>::map', 'core::option::Option::<T>::inspect')]
            first = maps[0][1]['args'][0] if maps else ('x',)
            # `.copied()` / `.cloned()` on the Option<&S> is the spelling of `.map(|&s| s)`
            while first[0] == 'ret' and rp(p['events'][first[1]]) in ('core::option::Option::<&T>::copied', 'core::option::Option::<&T>::cloned'):
                first = p['events'][first[1]]['args'][0]
            if not (first[0] == 'app' and first[1] == 'dasp_frame::Frame::channel' and first[2] == (('ref', self_loc(fi)), self_field(ni))):
                bad = 'must read frame.channel(next_idx)'
            elif heap_writes(p):
                bad = 'next_idx must only advance inside the Some branch'
            else:
                # the closure that advances: executed only for Some (Option::map), adds exactly 1
                adv = False
                for k, e in maps:
                    clo = e['args'][1]
                    cps = returning(cx.closure_paths(clo, p, [('s',)]))
                    for cp in cps:
                        w = cp['writes'].get(self_loc(ni))
                        if w is not None:
                            adv = (w == ('op', 'Add', self_field(ni), ('int', 1, 'usize')) and (cp['ret'] == ('s',) or rp(e).endswith('::inspect')))
                if not adv:
                    bad = 'a yielded channel must advance next_idx by exactly one and pass the sample through'
        run.check(bad is None, 'frame.channels-iter', fn, cfg, bad or '', where=where(body))
    fn = '<dasp_frame::Channels<F> as core::iter::traits::exact_size::ExactSizeIterator>::len'
    body = cx.body(fn)
    if body is not None:
        ps = returning(cx.paths(fn))
        ni = cx.field_index('dasp_frame::Channels', 'next_idx')
        ok = len(ps) == 1 and ps[0]['ret'][0] == 'op' and ps[0]['ret'][1] == 'Sub' and ps[0]['ret'][2][0] == 'assoc' and ps[0]['ret'][2][2] == 'CHANNELS' and ps[0]['ret'][3] == self_field(ni)
        run.check(ok, 'frame.channels-iter', fn, cfg, 'len must be CHANNELS - next_idx', where=where(body))


def check_channel_ref_iters(run, cx, cfg):
    """ChannelsRef / ChannelsMut wrap the slice iterator over the frame's samples: every iterator method they override
    must forward to the same method of the wrapped iterator (channel order = slice order)."""
    rows = [('core::iter::traits::iterator::Iterator', 'next'), ('core::iter::traits::iterator::Iterator', 'size_hint'),
            ('core::iter::traits::exact_size::ExactSizeIterator', 'len'), ('core::iter::traits::double_ended::DoubleEndedIterator', 'next_back')]
    n = 0
    for ty in ("dasp_frame::ChannelsRef<'a, F>", "dasp_frame::ChannelsMut<'a, F>"):
        for tr, m in rows:
            fn = '<%s as %s>::%s' % (ty, tr, m)
            ok = is_forward(cx, fn, '::' + m)
            if ok is None:
                run.fail('frame.channels-ref-iter', fn, cfg, 'function not found')
                continue
            n += 1
            run.check(ok, 'frame.channels-ref-iter', fn, cfg, 'must forward to the wrapped slice iterator\'s %s()' % m, where=where(cx.body(fn)))
    run.floor('frame.channels-ref-iter', 'ChannelsRef / ChannelsMut iterator methods (%s)' % cfg, n, 8)
    check_overrides(run, cx, cfg, 'frame.iter-inventory', lambda p: p in ('dasp_frame::Channels', 'dasp_frame::ChannelsRef', 'dasp_frame::ChannelsMut'),
                    evaluated={fn for _, fn, _, _ in run.instances}, minimum=10)


def check_native_add(run, facts, cfg):
    """add_amp is `Signed + Signed` in the format's Signed companion: for the companions that are the repository's own
    wrapper types (I24, I48) the `+` itself is repository code.  Decided with the C15 interval engine: for in-range
    operands the result is in range and congruent to the exact sum (hence exact whenever the exact sum is in range,
    in particular x + 0 == x), in the debug and in the release profile."""
    from rules import C15
    signed = set()
    for i in facts.impls_of(SAMPLE):
        items = {it['name']: it for it in i['items']}
        sg = F.fmt_of_type(items['Signed']['ty']) if 'Signed' in items else None
        if sg is not None:
            signed.add(sg)
    n = 0
    for mod, name, bits, sgn in C15.TYPES:
        if mod not in signed:
            continue
        tp = C15.tpath(mod, name)
        adt = facts.adts.get(tp)
        if not adt:
            run.fail('sample.native-add', tp, cfg, 'wrapper type not found')
            continue
        rep = adt['variants'][0]['fields'][0]['ty']
        n += C15.check_ops(run, facts, cfg, mod, name, bits, sgn, rep, only=('Add',), rule='sample.native-add')
    run.floor('sample.native-add', 'wrapper Signed companions with their own Add (%s)' % cfg, n, 2)


def run(run, tier, loadcfg):
    if tier == 'thorough':
        import witness
        witness.check(run, 'c03', 2)
    run.rule_text = 'one instance per (impl or function x rule x configuration); floors: 14 Sample impls, 15 Frame impls, 30 map/zip_map bodies'
    run.explanation = __doc__
    run.assumptions = ['core::array::from_fn calls its closure for 0..N in order; core array map is element-wise', 'numeric content of conversions is C01/C02']
    for cfg in ['std-debug', 'std-release']:
        check_native_add(run, loadcfg(cfg), cfg)
    for cfg in ['std-debug'] + (['nostd', 'std-release'] if tier == 'thorough' else []):
        fx_ = loadcfg(cfg, optional=(cfg == 'nostd'))
        if fx_ is None:
            continue
        cx = Ctx(fx_)
        check_sample_table(run, cx, cfg)
        check_sample_defaults(run, cx, cfg)
        check_frame_table(run, cx, cfg)
        check_map_zip(run, cx, cfg)
        check_frame_ops(run, cx, cfg)
        check_from_iter(run, cx, cfg)
        check_channels(run, cx, cfg)
        check_channel_ref_iters(run, cx, cfg)
