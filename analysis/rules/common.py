"""Helpers shared by the E3-based rule files: summaries with caching, term
patterns, effect signatures, struct field lookup, pretty printing."""
import struct

import mirutil
import terms as T

SIGNAL = 'dasp_signal::Signal'
FRAME = 'dasp_frame::Frame'
SAMPLE = 'dasp_sample::Sample'
ITER = 'core::iter::traits::iterator::Iterator'


class Ctx:
    """facts + summaries cache for one configuration"""

    def __init__(self, facts):
        self.facts = facts
        self._cache = {}

    def body(self, path):
        return self.facts.body(path)

    def paths(self, fn, stop=(), pure_extra=(), max_paths=400, args=None, inline=True, max_depth=6, stop_trait_methods=(), opaque_prefixes=(), transparent=()):
        key = (fn if isinstance(fn, str) else fn['path'], tuple(sorted(stop)), tuple(sorted(pure_extra)), inline, repr(args), max_depth, tuple(sorted(stop_trait_methods)), tuple(opaque_prefixes), tuple(transparent))
        if key not in self._cache:
            body = self.facts.body(fn) if isinstance(fn, str) else fn
            if body is None:
                return None
            eng = T.Engine(self.facts, T.Policy(stop=stop, pure_extra=pure_extra, inline=inline, max_depth=max_depth, stop_trait_methods=stop_trait_methods, no_inline_prefixes=opaque_prefixes, transparent=transparent), max_paths=max_paths)
            self._cache[key] = eng.summarize(body, args)
        return self._cache[key]

    def closure_paths(self, clo, outer, args, stop_trait_methods=(), opaque_prefixes=(), inline=True):
        """paths of a closure body evaluated in the store of the path `outer` that built the closure value `clo`;
        `args` are the explicit (untupled) arguments"""
        if clo[0] == 'fnitem':
            # a function item passed where a closure is expected (`frame.map(Sample::to_sample)`)
            body = self.facts.by_hash.get(clo[2])
            eng = T.Engine(self.facts, T.Policy(stop_trait_methods=stop_trait_methods, no_inline_prefixes=opaque_prefixes, inline=inline))
            if body is not None and 'blocks' in body and body.get('kind') != 'Closure':
                return eng.summarize(body, list(args), store=dict(outer['store']), frame=1000)
            # a trait method that stays generic: the application itself
            return [{'conds': [], 'events': [], 'writes': {}, 'ret': ('app', clo[1], tuple(args), tuple(clo[3])), 'end': 'return', 'store': dict(outer['store'])}]
        if not (clo[0] == 'agg' and len(clo) == 3 and clo[1] and clo[1][0] == 'closure'):
            return None
        body = self.facts.by_hash.get(clo[1][2])
        if body is None:
            return None
        eng = T.Engine(self.facts, T.Policy(stop_trait_methods=stop_trait_methods, no_inline_prefixes=opaque_prefixes, inline=inline))
        store = dict(outer['store'])
        envloc = (('L', 'env', 0), ())
        store[envloc] = clo
        envty = self.facts.ty(body['locals'][1])
        a0 = ('ref', envloc) if envty.get('k') == 'ref' else clo
        return eng.summarize(body, [a0] + list(args), store=store, frame=1000)

    # -- struct fields by name -------------------------------------------------
    def field_index(self, adt_path, name):
        a = self.facts.adts.get(adt_path)
        if not a:
            return None
        for i, f in enumerate(a['variants'][0]['fields']):
            if f['name'] == name:
                return i
        return None

    def field_names(self, adt_path):
        a = self.facts.adts.get(adt_path)
        return [f['name'] for f in a['variants'][0]['fields']] if a else []

    def field_types(self, adt_path):
        a = self.facts.adts.get(adt_path)
        return [f['ty'] for f in a['variants'][0]['fields']] if a else []

    def self_adt(self, body):
        """ADT path of the Self type of a method body (through & / &mut)"""
        imp = body.get('impl')
        if not imp:
            return None
        t = self.facts.ty(imp['self_ty'])
        while t.get('k') == 'ref':
            t = self.facts.ty(t['inner'])
        return t.get('path') if t.get('k') == 'adt' else None


# ---------------------------------------------------------------- term helpers
SELF = ('param', 1)


def self_field(i, base=SELF):
    return ('field', ('deref', base), i)


def self_loc(i, base=SELF):
    return (('P', base), (('f', i),))


def loc_of_ref(t):
    return t[1] if t[0] == 'ref' else None


def strip_epoch(t):
    """derefh(p, e) -> deref(p): compare values modulo loop epochs"""
    if not isinstance(t, tuple):
        return t
    if t and t[0] == 'derefh':
        return ('deref', strip_epoch(t[1]))
    return tuple(strip_epoch(x) for x in t)


def subterms(t):
    if isinstance(t, tuple) and t and isinstance(t[0], str):
        yield t
    if isinstance(t, tuple):
        for x in t:
            if isinstance(x, tuple):
                yield from subterms(x)


def substitute(t, old, new):
    if t == old:
        return new
    if isinstance(t, tuple):
        return tuple(substitute(x, old, new) for x in t)
    return t


def mentions(t, sub):
    return any(s == sub for s in subterms(t))


def match(pat, t, env=None):
    """structural match; pattern strings starting with '?' bind (consistently), '_' matches anything"""
    env = {} if env is None else env
    if isinstance(pat, str):
        if pat == '_':
            return env
        if pat.startswith('?'):
            if pat in env:
                return env if env[pat] == t else None
            env[pat] = t
            return env
        return env if pat == t else None
    if isinstance(pat, tuple):
        if not isinstance(t, tuple) or len(pat) != len(t):
            return None
        for p, x in zip(pat, t):
            if match(p, x, env) is None:
                return None
        return env
    return env if pat == t else None


def fval(t):
    """python float of a float constant term"""
    if t[0] == 'float':
        if t[2] == 32:
            return struct.unpack('<f', struct.pack('<I', t[1]))[0]
        return struct.unpack('<d', struct.pack('<Q', t[1]))[0]
    return None


_ENG = None


def load(path, loc):
    """value stored at `loc` at the end of `path` (initial value if the path never wrote it)"""
    global _ENG
    if _ENG is None:
        _ENG = T.Engine(None)
    st = T.State()
    st.store = path['store']
    return _ENG.read(st, loc)


def deref(path, t):
    return load(path, t[1]) if t[0] == 'ref' else t


# ---------------------------------------------------------------- events
def call_events(path, effectful_only=True):
    out = []
    for k, e in enumerate(path['events']):
        if e['kind'] != 'call':
            continue
        if effectful_only and e.get('pure'):
            continue
        out.append((k, e))
    return out


def ev_key(e):
    """trait::name for trait calls, resolved path otherwise"""
    if e.get('trait'):
        return e['trait'] + '::' + e['name']
    return e.get('rpath') or e['path']


def is_call(e, trait, name):
    return e['kind'] == 'call' and e.get('trait') == trait and e['name'] == name


def normal_paths(paths):
    """paths that return or loop back (panicking / diverging paths are not part of the step function)"""
    return [p for p in paths if p['end'] == 'return' or (isinstance(p['end'], tuple) and p['end'][0] == 'back')]


def returning(paths):
    return [p for p in (paths or []) if p['end'] == 'return']


def heap_writes(path, ignore_mut=True):
    """final writes to locations reachable from the arguments, excluding the havoc markers of opaque calls"""
    out = {}
    for loc, v in path['writes'].items():
        if ignore_mut and v[0] == 'mut':
            continue
        out[loc] = v
    return out


def range_loops(path):
    """`for _ in lo..hi` loops traversed by the path: list of dicts(header, frame, lo, hi, iter_loc, enter_index, nexts=[event idx])"""
    out = []
    for k, e in enumerate(path['events']):
        if e['kind'] != 'loop-enter':
            continue
        src = dict(e.get('live', {}))
        src.update(e['before'])
        for local, v in sorted(src.items()):
            if v[0] == 'agg' and v[1][0] == 'adt' and v[1][1] == 'core::ops::range::Range' and len(v[2]) == 2:
                loc = (('L', e['frame'], local), ())
                nx = [j for j, f in enumerate(path['events']) if j > k and f['kind'] == 'call' and f['name'] == 'next'
                      and f.get('trait') == ITER and f['args'][0] == ('ref', loc)]
                if nx:      # moved-from temporaries hold the same Range value but are never advanced
                    out.append({'header': e['header'], 'frame': e['frame'], 'lo': v[2][0], 'hi': v[2][1], 'iter_loc': loc, 'enter': k, 'nexts': nx})
    return out


def iterator_loops(path):
    """loops driven by Iterator::next on a local iterator: list of dicts(header, frame, iter (value before the loop), iter_loc, enter, nexts)"""
    out = []
    for k, e in enumerate(path['events']):
        if e['kind'] != 'loop-enter':
            continue
        for j, f in enumerate(path['events']):
            if j > k and f['kind'] == 'call' and f['name'] == 'next' and f.get('trait') == ITER and f['args'][0][0] == 'ref':
                loc = f['args'][0][1]
                src = dict(e.get('live', {}))
                src.update(e['before'])
                if loc[0][0] == 'L' and loc[0][1] == e['frame'] and not loc[1] and loc[0][2] in src:
                    out.append({'header': e['header'], 'frame': e['frame'], 'iter': src[loc[0][2]], 'iter_loc': loc, 'enter': k, 'next': j})
                    break
    return out


# ---------------------------------------------------------------- conditions
def cond_facts(path):
    """list of (term, value term) branch conditions"""
    return [(c[0], c[1]) for c in path['conds']]


def int_constraint(path, term, lo=0, hi=None):
    """interval for `term` implied by the path's comparisons of it with integer constants (unsigned by default)"""
    INF = float('inf')
    a, b = lo, (INF if hi is None else hi)
    holes = set()
    for c, v in cond_facts(path):
        if strip_epoch(c) == strip_epoch(term):
            # a `match` directly on the integer
            if v[0] == 'int':
                a, b = max(a, v[1]), min(b, v[1])
            elif v[0] == 'notin':
                holes.update(v[1])
            continue
        if v[0] != 'bool':
            continue
        truth = v[1]
        neg = False
        while c[0] == 'un' and c[1] == 'Not':
            c = c[2]
            truth = not truth
        if c[0] != 'op' or c[1] not in ('Lt', 'Le', 'Gt', 'Ge', 'Eq', 'Ne'):
            continue
        op, x, y = c[1], c[2], c[3]
        if strip_epoch(y) == strip_epoch(term) and x[0] == 'int':
            op = {'Lt': 'Gt', 'Le': 'Ge', 'Gt': 'Lt', 'Ge': 'Le', 'Eq': 'Eq', 'Ne': 'Ne'}[op]
            x, y = y, x
        if strip_epoch(x) != strip_epoch(term) or y[0] != 'int':
            continue
        K = y[1]
        if not truth:
            op = {'Lt': 'Ge', 'Le': 'Gt', 'Gt': 'Le', 'Ge': 'Lt', 'Eq': 'Ne', 'Ne': 'Eq'}[op]
        if op == 'Lt':
            b = min(b, K - 1)
        elif op == 'Le':
            b = min(b, K)
        elif op == 'Gt':
            a = max(a, K + 1)
        elif op == 'Ge':
            a = max(a, K)
        elif op == 'Eq':
            a, b = max(a, K), min(b, K)
        elif op == 'Ne':
            holes.add(K)
    while a in holes:
        a += 1
    while b in holes:
        b -= 1
    return a, b


def feasible(path):
    """cheap infeasibility filter: the comparisons a path makes of one *unsigned* quantity (a remainder, a length)
    with integer constants must be jointly satisfiable"""
    seen = set()
    for c, v in cond_facts(path):
        while c[0] == 'un' and c[1] == 'Not':
            c = c[2]
        if c[0] == 'op' and c[1] in ('Lt', 'Le', 'Gt', 'Ge', 'Eq', 'Ne'):
            for x, k in ((c[2], c[3]), (c[3], c[2])):
                if k[0] == 'int' and x not in seen:
                    unsigned = (x[0] == 'op' and x[1] == 'Rem') or (x[0] == 'ret' and path['events'][x[1]].get('name') in ('len', 'max_len')) or (k[2] if len(k) > 2 else '') in ('usize', 'u8', 'u16', 'u32', 'u64')
                    if unsigned:
                        seen.add(x)
                        lo, hi = int_constraint(path, x)
                        if lo > hi:
                            return False
    return True


# ---------------------------------------------------------------- printing
def short(t, d=0):
    if not isinstance(t, tuple):
        return repr(t)
    if d > 8:
        return '...'
    k = t[0] if t else ''
    if k == 'param':
        return 'arg%d' % t[1]
    if k == 'int':
        return str(t[1])
    if k == 'bool':
        return str(t[1]).lower()
    if k == 'float':
        return repr(fval(t))
    if k == 'field':
        return '%s.%d' % (short(t[1], d + 1), t[2])
    if k == 'deref':
        return '*%s' % short(t[1], d + 1)
    if k == 'derefh':
        return '*%s@loop%d' % (short(t[1], d + 1), t[2])
    if k == 'ret':
        return 'ret#%d' % t[1]
    if k == 'mut':
        return 'mut#%d.%d' % (t[1], t[2])
    if k == 'op':
        return '(%s %s %s)' % (short(t[2], d + 1), t[1], short(t[3], d + 1))
    if k == 'un':
        return '%s(%s)' % (t[1], short(t[2], d + 1))
    if k == 'app':
        return '%s(%s)' % (t[1].rsplit('::', 2)[-1] if '<' not in t[1] else t[1], ', '.join(short(x, d + 1) for x in t[2]))
    if k == 'agg':
        head = t[1][-1] if t[1][0] == 'adt' else (t[1][0] + (':' + t[1][1] if t[1][0] == 'closure' else ''))
        return '%s{%s}' % (head, ', '.join(short(x, d + 1) for x in t[2]))
    if k == 'ref':
        return '&%s' % short_loc(t[1], d + 1)
    if k == 'assoc':
        return t[1]
    if k == 'variant':
        return '(%s as v%d)' % (short(t[1], d + 1), t[2])
    if k == 'discr':
        return 'discr(%s)' % short(t[1], d + 1)
    if k == 'phi':
        return 'phi%d@bb%d(_%d)' % (t[2], t[1], t[3])
    if k == 'phiheap':
        return 'phi%d@bb%d(%s)' % (t[2], t[1], short_loc(t[3], d + 1))
    if k == 'cast':
        return '(%s as %s)' % (short(t[2], d + 1), t[3])
    return '%s(%s)' % (k, ', '.join(short(x, d + 1) if isinstance(x, tuple) else str(x) for x in t[1:]))


def short_loc(loc, d=0):
    root, path = loc
    r = ('_%s.%s' % (root[1], root[2]) if root[0] == 'L' else '[*%s]' % short(root[1], d + 1))
    for e in path:
        if e[0] == 'f':
            r += '.%d' % e[1]
        elif e[0] == 'idx':
            r += '[%s]' % short(e[1], d + 1)
        elif e[0] == 'cell':
            r += '.<cell>'
        else:
            r += '.%s' % (e,)
    return r


def describe_path(p):
    """compact text of one path for violation details"""
    out = []
    for c in p['conds']:
        out.append('if %s == %s' % (short(c[0]), short(c[1])))
    for k, e in enumerate(p['events']):
        if e['kind'] == 'call' and not e.get('pure'):
            out.append('#%d %s(%s)' % (k, ev_key(e), ', '.join(short(a) for a in e['args'])))
    for loc, v in heap_writes(p).items():
        out.append('%s := %s' % (short_loc(loc), short(v)))
    out.append('-> %s' % (short(p['ret']) if p['ret'] is not None else p['end'],))
    return '; '.join(out)


def where(body, line=None):
    return mirutil.where(body, line=line)


CHA_TRAITS = ('dasp_sample::Sample', 'dasp_sample::FloatSample', 'dasp_sample::SignedSample', 'dasp_frame::Frame', 'dasp_sample::conv::ToSample',
              'dasp_sample::conv::FromSample', 'dasp_sample::conv::Duplex',
              # the arithmetic of the repository's own sample types (I24 + I24 ...): a generic `a + b` on a Signed companion
              # reaches these impls (the impls of the primitive types are not repository code and not in the fact base)
              'core::ops::arith::Add', 'core::ops::arith::Sub', 'core::ops::arith::Mul', 'core::ops::arith::Neg')


def callee_closure(facts, roots, crate=None, cha=False):
    """paths of all bodies reachable from the bodies named in `roots` through resolved call terminators and closure
    construction (the closures defined inside a reached body are reached); restricted to `crate` when given.
    cha=True: a call of a method of the value traits (CHA_TRAITS: Sample, Frame, the conversion traits) that stays
    generic reaches every implementation of that method in the workspace.  Calls through the *environment* traits
    (Signal sources, iterators, closures, interpolators, slices) are not expanded: what a caller plugs in there is
    the caller's."""
    seen = {}
    work = [facts.body(r) if isinstance(r, str) else r for r in roots]
    work = [b for b in work if b is not None]
    clos = {}
    for b in facts.bodies.values():
        if b['kind'] == 'Closure':
            clos.setdefault(b['path'].split('::{closure')[0], []).append(b)
    impl_items = {}
    if cha:
        for i in facts.impls:
            if i.get('trait') in CHA_TRAITS:
                for it in i['items']:
                    if it.get('path'):
                        impl_items.setdefault((i['trait'], it['name']), []).append(it['path'])
    while work:
        b = work.pop()
        if b['path'] in seen:
            continue
        seen[b['path']] = b
        for c in clos.get(b['path'].split('::{closure')[0], []):
            work.append(c)
        for blk in b['blocks']:
            t = blk['t']
            if t['k'] != 'call' or not t.get('callee'):
                continue
            cal = t['callee']
            res = cal.get('res') or {}
            tgt = facts.by_hash.get(res.get('hash'))
            if tgt is not None and 'blocks' in tgt:
                work.append(tgt)
                continue
            tgt = facts.by_hash.get(cal.get('hash'))
            if tgt is not None and 'blocks' in tgt:
                work.append(tgt)
            if cha and cal.get('trait'):
                for p in impl_items.get((cal['trait'], cal['name']), ()):
                    ib = facts.body(p)
                    if ib is not None:
                        work.append(ib)
    return {p for p, b in seen.items() if crate is None or b.get('crate') == crate}


def fixed_float_arith(facts, body):
    """(op, type, line) of every arithmetic binary operation of `body` performed in a *fixed* float width (f32 / f64
    operands), as opposed to the generic float companion of a sample format"""
    out = []

    def ty_of(o):
        if o[0] == 'c':
            return o[1].get('ty')
        if o[0] in ('cp', 'mv') and not o[1][1]:
            return body['locals'][o[1][0]]
        return None
    for blk in body['blocks']:
        for st in blk['s']:
            if st[0] == '=' and st[2][0] == 'bin' and st[2][1] in ('Add', 'Sub', 'Mul', 'Div', 'Rem'):
                tys = {ty_of(st[2][2]), ty_of(st[2][3])}
                f = tys & {'f32', 'f64'}
                if f:
                    out.append((st[2][1], sorted(f)[0], st[3] if len(st) > 3 else None))
    return out


COVERED_OVERRIDES = {
    'core::iter::traits::iterator::Iterator': ('next', 'size_hint'),
    'core::iter::traits::exact_size::ExactSizeIterator': ('len',),
    'core::iter::traits::double_ended::DoubleEndedIterator': ('next_back',),
    'dasp_signal::Signal': ('next', 'is_exhausted'),
}


def check_overrides(run, cx, cfg, rule, owns, evaluated=None, minimum=1):
    """Inventory (fail closed): for the iterator / Signal impls of the types this property owns (`owns(adt path)`),
    a method that overrides a *provided* trait method beyond the ones the rules cover (COVERED_OVERRIDES), or -- when
    `evaluated` is given -- a covered one that no rule of this check evaluated, is code the property reaches
    (`nth`, `fold`, `size_hint` ... are what `skip`, `step_by`, `collect` call) and for which nothing was
    established: reported as unproven, naming the function."""
    n = 0
    for i in cx.facts.impls:
        tr = i.get('trait')
        if tr not in COVERED_OVERRIDES:
            continue
        t = cx.facts.ty(i['self_ty'])
        path = t.get('path') if t.get('k') == 'adt' else i['self_ty']
        if not owns(path):
            continue
        for it in i['items']:
            if not it.get('path') or cx.body(it['path']) is None:
                continue
            n += 1
            if it['name'] not in COVERED_OVERRIDES[tr]:
                run.unproven(rule, it['path'], cfg, 'overrides the provided method `%s` of %s: callers such as skip / step_by / collect reach it, and this check has no rule '
                             'for it (the property was established for the provided implementation built on next())' % (it['name'], tr.rsplit('::', 1)[-1]), where=where(cx.body(it['path'])))
            elif evaluated is not None and it['path'] not in evaluated:
                run.unproven(rule, it['path'], cfg, 'no rule of this check evaluated this method', where=where(cx.body(it['path'])))
            else:
                run.ok(rule, it['path'], cfg, nontrivial=False)
    run.floor(rule, 'iterator / Signal methods of the owned types (%s)' % cfg, n, minimum)
    return n


def is_forward(cx, fn, callee_suffix, field=0, extra_args=()):
    """fn is `self.<field>.<callee>(extra..)` returned unchanged"""
    body = cx.body(fn)
    if body is None:
        return None
    ps = returning(cx.paths(fn, inline=False))
    if len(ps) != 1:
        return False
    evs = call_events(ps[0], effectful_only=False)
    if len(evs) != 1:
        return False
    e = evs[0][1]
    return (e.get('rpath') or e['path']).endswith(callee_suffix) and e['args'][0] == ('ref', (('P', ('param', 1)), (('f', field),))) \
        and list(e['args'][1:]) == list(extra_args) and ps[0]['ret'] == ('ret', evs[0][0])


def callers_confined(facts, target, allowed):
    """who-may-call through private helpers: every caller of `target` must be one of `allowed`, or a private
    (non-pub) function all of whose own callers are confined in the same way.  Returns (direct callers, offenders)."""
    edges = {}
    for b in facts.bodies.values():
        owner = b.get('root') or b['path']
        if b['kind'] == 'Closure' and not b.get('root'):
            owner = b['path'].split('::{closure')[0]
        for blk in b['blocks']:
            t = blk['t']
            if t['k'] == 'call' and t.get('callee'):
                c = t['callee']
                p = (c.get('res') or {}).get('path') or c['path']
                edges.setdefault(p, set()).add(owner)
    direct = set(edges.get(target, ()))
    offenders = set()
    seen = set()
    work = list(direct)
    while work:
        c = work.pop()
        if c in seen or c in allowed:
            continue
        seen.add(c)
        info = facts.fns.get(c, {})
        if info.get('pub') is False:
            work.extend(edges.get(c, ()))
        else:
            offenders.add(c)
    return direct, offenders


def confined_helpers(facts, root):
    """`root` plus the private functions that are reachable only through it: a private function all of whose callers
    already belong to the set (closures count as their enclosing function)"""
    callers = {}
    for b in facts.bodies.values():
        owner = b.get('root') or b['path']
        for blk in b['blocks']:
            t = blk['t']
            if t['k'] == 'call' and t.get('callee'):
                c = t['callee']
                p = (c.get('res') or {}).get('path') or c['path']
                callers.setdefault(p, set()).add(owner)
    group = {root}
    changed = True
    while changed:
        changed = False
        for p, cs in callers.items():
            if p in group or facts.body(p) is None:
                continue
            if facts.fns.get(p, {}).get('pub') is False and cs and cs <= group:
                group.add(p)
                changed = True
    return group


def counter_loops(path):
    """hand-written counting loops traversed by the path, the `while i < n { ..; i += 1 }` spelling of `for _ in lo..n`:
    list of dicts(header, frame, enter (event index), lo, hi, local, kind) where kind is 'iteration' if this path runs the
    body once more (the guard i < n held and i + 1 is carried back) and 'exit' if the guard failed.
    Recognised only when the counter starts at a value known before the loop, is advanced by exactly one on the
    back edge, and the guard compares the loop-carried counter with a bound that the loop does not assign."""
    out = []
    evs = path['events']
    for k, e in enumerate(evs):
        if e['kind'] != 'loop-enter':
            continue
        hdr, frame = e['header'], e['frame']
        for local, b in sorted(e['before'].items()):
            if b[0] == 'phi' or b[0] == 'uninit':
                continue
            phis = [t for c, v in cond_facts(path) for t in subterms(c) if t[0] == 'phi' and t[1] == hdr and t[3] == local]
            if not phis:
                continue
            phi = phis[0]
            guard = None
            for c, v in cond_facts(path):
                if v[0] != 'bool' or c[0] != 'op':
                    continue
                op, x, y = c[1], c[2], c[3]
                if op == 'Gt' and y == phi:
                    op, x, y = 'Lt', y, x
                if op == 'Ge' and x == phi:        # !(i >= n)
                    op, x, y, v = 'Lt', x, y, ('bool', not v[1])
                if op == 'Le' and y == phi:        # !(n <= i)
                    op, x, y, v = 'Lt', y, x, ('bool', not v[1])
                if op == 'Lt' and x == phi and not any(t[0] in ('phi', 'phiheap') and t[1] == hdr for t in subterms(y)):
                    guard = (y, v[1])
            if guard is None:
                continue
            hi, taken = guard
            if taken:
                back = [f for f in evs[k + 1:] if f['kind'] == 'loop-back' and f['header'] == hdr and f['frame'] == frame]
                if not back or back[0]['carried'].get(local) not in (('op', 'Add', phi, ('int', 1, b[2] if len(b) > 2 else 'usize')), ('op', 'Add', ('int', 1, b[2] if len(b) > 2 else 'usize'), phi)):
                    continue
                if path['end'] != ('back', hdr, frame):
                    continue
                out.append({'header': hdr, 'frame': frame, 'enter': k, 'lo': b, 'hi': hi, 'local': local, 'kind': 'iteration'})
            else:
                out.append({'header': hdr, 'frame': frame, 'enter': k, 'lo': b, 'hi': hi, 'local': local, 'kind': 'exit'})
    return out


def foreach_assignments(cx, p):
    """`iter.for_each(|x| *x = v)` calls on the path: list of (iterator term, assigned value, event index); the closure
    must do nothing but that one store"""
    out = []
    for k, e in call_events(p):
        if is_call(e, ITER, 'for_each') and len(e['args']) == 2 and e['args'][1][0] == 'agg' and e['args'][1][1][0] == 'closure':
            cps = cx.closure_paths(e['args'][1], p, [('elem',)])
            cps = returning(cps) if cps else []
            if len(cps) != 1 or call_events(cps[0]):
                continue
            w = {loc: v for loc, v in cps[0]['writes'].items() if p['store'].get(loc) != v}
            if list(w) == [(('P', ('elem',)), ())]:
                out.append((e['args'][0], w[(('P', ('elem',)), ())], k))
    return out


def countdown_loops(path):
    """loops driven by a remaining-count field of a local aggregate (the shape `Take { signal, n }::next` gives a
    `for x in signal.take(n)` loop once inlined): list of dicts(header, frame, enter, count, local, field, kind) where
    count is the field's value before the loop, kind is 'iteration' if this path found the count non-zero and carries
    count - 1 back, 'exit' if it found it zero."""
    out = []
    evs = path['events']
    for k, e in enumerate(evs):
        if e['kind'] != 'loop-enter':
            continue
        hdr, frame = e['header'], e['frame']
        for local, b in sorted(e['before'].items()):
            if b[0] != 'agg' or b[1][0] != 'adt':
                continue
            for c, v in cond_facts(path):
                if v[0] != 'bool' or c[0] != 'op' or c[1] not in ('Eq', 'Ne') or c[3] != ('int', 0, 'usize'):
                    continue
                x = c[2]
                if not (x[0] == 'field' and x[1][0] == 'phi' and x[1][1] == hdr and x[1][3] == local and isinstance(x[2], int) and x[2] < len(b[2])):
                    continue
                zero = v[1] if c[1] == 'Eq' else (not v[1])
                f = x[2]
                if zero:
                    out.append({'header': hdr, 'frame': frame, 'enter': k, 'count': b[2][f], 'local': local, 'field': f, 'kind': 'exit'})
                else:
                    back = [g for g in evs[k + 1:] if g['kind'] == 'loop-back' and g['header'] == hdr and g['frame'] == frame]
                    car = back[0]['carried'].get(local) if back else None
                    ok = car is not None and car[0] == 'upd' and car[1] == x[1] and dict(car[2]).get((('f', f),)) == ('op', 'Sub', x, ('int', 1, 'usize')) \
                        and path['end'] == ('back', hdr, frame)
                    if ok:
                        out.append({'header': hdr, 'frame': frame, 'enter': k, 'count': b[2][f], 'local': local, 'field': f, 'kind': 'iteration'})
    return out


def loop_invariants(paths):
    """loop-carried locals that no iteration changes: {phi term: value before the loop}.  A local that is havoced at a
    loop header only because its address is taken inside the loop, and that every path reaching the back edge carries
    back unchanged, still holds what it held when the loop was entered."""
    carried = {}
    before = {}
    for p in paths:
        for e in p['events']:
            if e['kind'] == 'loop-enter':
                for local, v in e['before'].items():
                    before[(e['header'], e['frame'], e.get('hv'), local)] = v
            elif e['kind'] == 'loop-back':
                for local, v in e['carried'].items():
                    carried.setdefault((e['header'], e['frame'], local), []).append(v)
    out = {}
    for (hdr, frame, hv, local), b in before.items():
        phi = ('phi', hdr, hv, local)
        cs = carried.get((hdr, frame, local))
        if cs and all(c == phi for c in cs):
            out[phi] = b
        elif cs and b[0] == 'agg' and all(c == phi or (c[0] == 'upd' and c[1] == phi) for c in cs):
            # field-wise: a field of an aggregate local that no back edge updates
            touched = set()
            for c in cs:
                if c[0] == 'upd':
                    for path, _v in c[2]:
                        touched.add(path[0] if path else None)
            if None not in touched:
                for i, v in enumerate(b[2]):
                    if ('f', i) not in touched:
                        out[('field', phi, i)] = v
    return out


def subst_invariants(t, inv):
    if isinstance(t, tuple):
        if t in inv:
            return subst_invariants(inv[t], inv)
        return tuple(subst_invariants(x, inv) for x in t)
    return t


def field_writers(facts, adt_path, field, crates=None):
    """Who may change field number `field` of struct `adt_path`: [(function path, line, kind)] over every body (closures
    included) of `crates` that assigns to a place ending in -- or passing through -- that field, makes it the destination
    of a call, or takes a mutable reference / raw mutable pointer to it (kind = 'assign' | 'call-dest' | 'borrow-mut').
    Places are typed by walking their projections from the local's declared type (the field projection carries the field's
    own type, a deref goes to the pointee).  Building the struct as a whole (an aggregate) is not a field write."""
    out = []

    def hits(body, pl):
        cur = facts.ty(body['locals'][pl[0]])
        for p in pl[1]:
            if p == '*':
                cur = facts.ty(cur.get('inner')) if cur.get('inner') is not None else {}
                if cur.get('k') == 'adt' and cur.get('path') == 'alloc::boxed::Box' and cur.get('args'):
                    pass
            elif isinstance(p, list) and p[0] == 'f':
                if cur.get('k') == 'adt' and cur.get('path') == adt_path and p[1] == field:
                    return True
                cur = facts.ty(p[2])
            elif isinstance(p, list) and p[0] in ('i', 'ci'):
                cur = facts.ty(cur.get('inner')) if cur.get('inner') is not None else {}
            elif isinstance(p, list) and p[0] == 'sub':
                pass
            # downcast / opaque: type unchanged for our purposes
        return False
    for path, b in sorted(facts.bodies.items()):
        if crates is not None and b.get('crate') not in crates:
            continue
        for blk in b['blocks']:
            for st in blk['s']:
                if st[0] != '=':
                    continue
                if hits(b, st[1]):
                    out.append((path, st[3], 'assign'))
                rv = st[2]
                if rv[0] in ('ref', 'rawptr') and (rv[1] is True or rv[1] == 'Mut') and hits(b, rv[2]):
                    out.append((path, st[3], 'borrow-mut'))
            t = blk['t']
            if t['k'] == 'call' and hits(b, t['dest']):
                out.append((path, t.get('l'), 'call-dest'))
    return out


def option_variant(cf, v):
    """0 (None) / 1 (Some) / None (not established) for an Option-valued term `v`, from the branch facts `cf` of a path
    (dict(cond_facts(p))): the test may be a match on the discriminant or an is_none() / is_some() / `== k` boolean"""
    D = ('discr', v)
    d = cf.get(D)
    if d is not None and d[0] == 'int':
        return d[1]
    for k in (0, 1):
        for op in ('Eq', 'Ne'):
            b = cf.get(('op', op, D, ('int', k, 'isize')))
            if b is not None and b[0] == 'bool':
                same = b[1] == (op == 'Eq')
                return k if same else 1 - k
    return None


def slot_cover(p, it, wref, fixed='dasp_ring_buffer::Fixed::<S>::'):
    """What part of the fixed ring buffer behind `wref` the mutable iterator `it` visits: ('all',) for
    window.iter_mut(), or for the two halves of ONE window.slices_mut() call chained (in either order);
    ('half', k, i) for an iterator over half i of the slices_mut() call that is event k; None otherwise.
    (`Fixed::iter_mut` itself is `slices_mut()` chained; C06 verifies that the two halves are data[first..], data[..first].)"""
    SLM = 'core::slice::<impl [T]>::iter_mut'

    def unre(t):
        while t[0] == 'ref' and t[1][0][0] == 'P' and not t[1][1]:
            t = t[1][0][1]
        return t

    def half_of(x):
        x = unre(strip_epoch(x))
        if x[0] == 'field' and x[1][0] == 'ret' and x[2] in (0, 1):
            e = p['events'][x[1][1]]
            if e['kind'] == 'call' and (e.get('rpath') or e['path']) == fixed + 'slices_mut' and e['args'][0] == wref:
                return ('half', x[1][1], x[2])
        return None
    h = half_of(it)
    if h:
        return h
    it = unre(strip_epoch(it))
    if it[0] != 'ret':
        return None
    e = p['events'][it[1]]
    if e['kind'] != 'call':
        return None
    r = e.get('rpath') or e['path']
    if r == fixed + 'iter_mut' and e['args'][0] == wref:
        return ('all',)
    if e['name'] == 'chain' and e.get('trait') == ITER and len(e['args']) == 2:
        a, b = slot_cover(p, e['args'][0], wref, fixed), slot_cover(p, e['args'][1], wref, fixed)
        if a and b and a[0] == 'half' and b[0] == 'half' and a[1] == b[1] and {a[2], b[2]} == {0, 1}:
            return ('all',)
        return None
    if r == SLM or (e['name'] == 'into_iter' and e.get('trait') == 'core::iter::traits::collect::IntoIterator' and 'mut [T]' in r):
        return half_of(e['args'][0])
    return None


def covers_all(covers):
    """do the iterators of the loops a path has been through visit every slot: one full pass, or both halves of one slices_mut()"""
    if any(c is None for c in covers):
        return False
    if [c for c in covers if c[0] == 'all']:
        return len(covers) == 1
    return len(covers) == 2 and covers[0][1] == covers[1][1] and {covers[0][2], covers[1][2]} == {0, 1}


def new_type(facts, adt_path):
    """is `adt_path` a type the reference tree does not have?  A property quantifies over the types that exist; a type
    added later (a new adaptor, a new node) is outside the tables the rules were written from.  Rules that enumerate
    *every* impl of a trait note such impls instead of forcing them into a class they were never meant to have."""
    import equiv
    meta = equiv.reference(facts.config).get('#meta') or {}
    adts = meta.get('adts')
    return bool(adts) and isinstance(adt_path, str) and '::' in adt_path and adt_path not in adts and adt_path in facts.adts


def known_fns(facts):
    """paths of the functions the reference tree has (empty set if there is no reference)"""
    import equiv
    return set(((equiv.reference(facts.config).get('#meta') or {}).get('fns') or {}).keys())


def f64_discipline(facts, root_fn, crate, marker_call=None):
    """Precision discipline of a per-sample computation that the code performs in f64: for the closures (and private
    helpers, and their closures) reached from `root_fn` that convert a sample to f64, every such body must do its
    arithmetic on fixed f64 operands and must not route a sample through the format's Float companion
    (`Sample::mul_amp`, `to_float_sample`, a conversion to f32 or `<S as Sample>::Float`), which is f32 for every format
    of 32 bits or less.  `marker_call`: only bodies calling this declared path are examined (None: those that call
    to_sample::<f64> or one of the forbidden routes).  Returns [(body, what is wrong | None)]."""
    import mirutil
    bodies = {}
    for p in callee_closure(facts, [root_fn], crate=crate):
        b = facts.body(p)
        if b is not None:
            bodies[p] = b
    for c in facts.bodies.values():
        if c['kind'] == 'Closure' and any(c['path'].startswith(p + '::{closure') for p in list(bodies)):
            bodies[c['path']] = c
    out = []
    FORBIDDEN = ('dasp_sample::Sample::mul_amp', 'dasp_sample::Sample::to_float_sample')
    for path, b in sorted(bodies.items()):
        calls = [t.get('callee') or {} for _, t in mirutil.calls(b)]
        decl = [c.get('path', '') for c in calls]
        to64 = [c for c in calls if c.get('path') == 'dasp_sample::Sample::to_sample' and 'f64' in (c.get('args') or [])[1:2]]
        forb = [c for c in calls if c.get('path') in FORBIDDEN]
        low = [c for c in calls if c.get('path') in ('dasp_sample::Sample::to_sample', 'dasp_sample::Sample::from_sample')
               and any(a == 'f32' or str(a).endswith('::Float') for a in (c.get('args') or [])[1:])]
        if marker_call is not None:
            if marker_call not in decl:
                continue
        elif not (to64 or forb or low):
            continue
        bad = None
        if forb:
            bad = 'routes a sample through %s: computed in the format\'s Float companion (f32 for formats of 32 bits or less), not in f64' % forb[0]['path'].rsplit('::', 1)[-1]
        elif low:
            bad = 'converts through %s inside the computation' % [a for a in low[0]['args'][1:]][0]
        elif not to64:
            bad = 'the samples must be converted with to_sample::<f64>() and combined in f64 (no conversion to f64 found)'
        out.append((b, bad))
    return out
