"""C01 — integer sample formats convert by exact power-of-two rescaling.

Decides, for each of the 132 functions conv::<src>::to_<dst> and every value of
the source format's valid range, that the function's abstract result (ScaledInt
domain, exact) equals   floor((s - off_src) * 2^(b_dst - b_src)) + off_dst,
that no overflow assertion can fire, and that every value wrapped into
I24/U24/I48/U48 lies in that type's range; and that the 182 FromSample impls,
the blanket ToSample and Sample::{to_sample, from_sample} dispatch to exactly
the function named by (source, target)."""
from absint.scaled import Form, Top, summarize, forms_equal_on
from rules import formats as F
import mirutil

LEVEL = 'proof'
VERDICT = {}


def report_failures(run, rule):
    """Report each failing function once, at the root: a function one of whose directly called conversion
    functions fails inherits that failure and is only mentioned in a note."""
    for (fn, cfg), (kind, msg, body) in sorted(VERDICT.items(), key=lambda kv: kv[0]):
        callees = [mirutil.resolved_path(t) for _, t in mirutil.calls(body)]
        inherited = [c for c in callees if (c, cfg) in VERDICT and c != fn]
        if inherited:
            run.note('%s (%s) inherits the failure of %s: %s' % (fn, cfg, inherited[0], msg))
            run.ok(rule, fn, cfg + ':inherits-failure', nontrivial=False)
        elif kind == 'unproven':
            run.unproven(rule, fn, cfg, msg, where=mirutil.first_line(body))
        else:
            run.fail(rule, fn, cfg, msg, where=mirutil.first_line(body))
    VERDICT.clear()
CONFIGS_QUICK = ['std-debug', 'std-release']


def spec_form(src, dst):
    d = F.bits(dst) - F.bits(src)
    os_, od = F.offset(src), F.offset(dst)
    if d >= 0:
        return Form(0, 0, d, od - (os_ << d))
    k = -d
    return Form(k, 0, 0, od - (os_ >> k))


def describe(v):
    if v[0] == 'int':
        return repr(v[1])
    if v[0] == 'adt':
        return '%s(%s)' % (v[1].rsplit('::', 1)[-1], describe(v[2][0]))
    return str(v)


def result_form(v, dst):
    """the integer Form carried by a result of target format dst, or None"""
    if dst in F.WRAP_PATH:
        if v[0] == 'adt' and v[1] == F.WRAP_PATH[dst] and v[2][0][0] == 'int':
            return v[2][0][1]
        return None
    if v[0] == 'int' and v[2] == dst:
        return v[1]
    return None


def check_int_conv(run, facts, cfg, src, dst):
    fn = 'dasp_sample::conv::%s::to_%s' % (src, dst)
    inst = cfg
    body = facts.body(fn)
    if body is None:
        run.fail('conv.exists', fn, inst, 'conversion function %s not found' % fn)
        return
    lo, hi = F.frange(src)
    stats = {'obligations': 0, 'cells': 0, 'inlined': 0}
    pw = (F.WRAP_PATH[src], F.REP[src]) if src in F.WRAP_PATH else None
    try:
        cells = summarize(facts, body, lo, hi, 'int', F.adt_ranges(), stats, param_wrap=pw)
    except Top as e:
        VERDICT[(fn, cfg)] = ('unproven', 'abstract evaluation left the ScaledInt domain: %s' % e, body)
        return
    sp = spec_form(src, dst)
    bad = None
    for (clo, chi, v) in cells:
        if v[0] == 'panic':
            bad = 'panics (%s) for every s in [%d, %d]' % (v[1], clo, chi)
            break
        if v[0] == 'badwrap':
            bad = 'builds %s from a value in %s, outside its range, for s in [%d, %d]' % (v[1].rsplit('::', 1)[-1], v[2], clo, chi)
            break
        f = result_form(v, dst)
        if f is None:
            bad = 'result %s is not an integer of format %s' % (describe(v), dst)
            break
        eq, wit = forms_equal_on(f, sp, clo, chi)
        if not eq:
            w = wit if wit is not None else clo
            bad = 'on cell [%d, %d] computes %s but the spec is %s; e.g. s=%d gives %d, spec %d' % (
                clo, chi, f, sp, w, f.ev(w), sp.ev(w))
            break
    run.analysed['cells'] = run.analysed.get('cells', 0) + stats['cells']
    run.analysed['mir_obligations(overflow/shift/wrapper asserts)'] = run.analysed.get('mir_obligations(overflow/shift/wrapper asserts)', 0) + stats['obligations']
    if bad:
        VERDICT[(fn, cfg)] = ('violation', bad, body)
        return
    samples = {}
    for x in sorted({lo, -1 if lo < 0 else lo, F.offset(src), hi}):
        for (clo, chi, v) in cells:
            if clo <= x <= chi:
                samples[str(x)] = result_form(v, dst).ev(x)
    run.ok('conv.closed-form', fn, inst, sample={'cells': [[c[0], c[1], describe(c[2])] for c in cells], 'spec': repr(sp), 'points': samples}
           if (src, dst) in (('i8', 'u8'), ('i16', 'u24'), ('u64', 'i8'), ('i48', 'u16')) and cfg == 'std-debug' else None)
    return cells


def check_dispatch(run, facts, cfg):
    n = 0
    for src in F.ALL_FORMATS:
        for dst in F.ALL_FORMATS:
            if src == dst:
                continue
            key = '<%s as dasp_sample::conv::FromSample<%s>>::from_sample_' % (F.rust_type(dst), F.rust_type(src))
            body = facts.body(key)
            if body is None:
                run.fail('dispatch.from_sample', key, cfg, 'impl FromSample<%s> for %s not found' % (src, dst))
                continue
            n += 1
            fw = mirutil.forwarder(body)
            want = 'dasp_sample::conv::%s::to_%s' % (src, dst)
            if fw is None:
                run.unproven('dispatch.from_sample', key, cfg, 'body is not a single forwarding call', where=body['span'])
                continue
            term, args = fw
            got = mirutil.resolved_path(term)
            run.check(got == want and args == [('param', 1, ())], 'dispatch.from_sample', key, cfg,
                      'dispatches to %s(%s) instead of %s(s)' % (got, args, want), where=mirutil.where(body, term))
    run.floor('dispatch.from_sample', 'FromSample impls (%s)' % cfg, n, 182)
    # identity impl, blanket ToSample, Sample::{to_sample, from_sample}
    ident = facts.body('<S as dasp_sample::conv::FromSample<S>>::from_sample_')
    ok = False
    if ident is not None:
        # returns its argument
        blocks = [b for i, b in enumerate(ident['blocks']) if i in mirutil.normal_blocks(ident)]
        stm = [s for b in blocks for s in b['s']]
        ok = (len(stm) == 1 and stm[0][1] == [0, []] and stm[0][2][0] == 'use' and stm[0][2][1][1] == [1, []]
              and not mirutil.calls(ident))
    run.check(ok, 'dispatch.identity', '<S as FromSample<S>>::from_sample_', cfg, 'reflexive conversion is not the identity')
    for key, want_trait, want_name, arg in (
            ('<T as dasp_sample::conv::ToSample<U>>::to_sample_', 'dasp_sample::conv::FromSample', 'from_sample_', 1),
            ('dasp_sample::Sample::to_sample', 'dasp_sample::conv::ToSample', 'to_sample_', 1),
            ('dasp_sample::Sample::from_sample', 'dasp_sample::conv::FromSample', 'from_sample_', 1)):
        body = facts.body(key)
        if body is None:
            run.fail('dispatch.generic', key, cfg, 'function not found')
            continue
        fw = mirutil.forwarder(body)
        if fw is None:
            run.unproven('dispatch.generic', key, cfg, 'body is not a single forwarding call', where=body['span'])
            continue
        term, args = fw
        c = term['callee']
        run.check(c.get('trait') == want_trait and c['name'] == want_name and args == [('param', arg, ())],
                  'dispatch.generic', key, cfg, 'forwards to %s::%s(%s), expected %s::%s(arg)' % (c.get('trait'), c['name'], args, want_trait, want_name),
                  where=mirutil.where(body, term))


def self_check(run):
    """Domain self-check (thorough): the spec *forms* agree with the arithmetic spec on every value of the
    8- and 16-bit sources; guards the normal-form comparison itself."""
    n = 0
    for src in ('i8', 'u8', 'i16', 'u16'):
        lo, hi = F.frange(src)
        for dst in F.INT_FORMATS:
            if dst == src:
                continue
            sp = spec_form(src, dst)
            ok = all(sp.ev(x) == F.spec_int(src, dst, x) for x in range(lo, hi + 1))
            n += 1
            run.check(ok, 'selfcheck.spec-form', '%s->%s' % (src, dst), 'all values', 'spec form disagrees with the arithmetic spec')


def run(run, tier, load):
    run.rule_text = ('one instance per (conversion function x build profile): exact ScaledInt evaluation over the whole source range, '
                     'compared with the closed-form spec; plus one per dispatch impl; non-trivial = an instance whose evaluation '
                     'matched real code (function/impl found and evaluated)')
    run.explanation = ('Every conv::<src>::to_<dst> (12x11) is abstractly evaluated for all source values in both std-debug '
                       '(overflow checks on) and std-release MIR; results are compared as functions with floor((s-off)*2^d)+off\'. '
                       'Derived corollaries (monotone, lossless widening, path independence) follow arithmetically from the closed form.')
    run.trusted = ['rustc type checker / MIR construction / const evaluation', 'two\'s-complement semantics of `as`, <<, >> as in the Rust reference',
                   'the ScaledInt transfer functions in analysis/absint/scaled.py']
    for cfg in CONFIGS_QUICK:
        facts = load(cfg)
        n = 0
        for src in F.INT_FORMATS:
            for dst in F.INT_FORMATS:
                if src != dst:
                    check_int_conv(run, facts, cfg, src, dst)
                    n += 1
        report_failures(run, 'conv.closed-form')
        run.floor('conv.closed-form', 'int->int conversion functions (%s)' % cfg, n, 132)
        check_dispatch(run, facts, cfg)
    if tier == 'thorough':
        self_check(run)
        facts = load('nostd', optional=True)
        if facts is None:
            return
        for src in F.INT_FORMATS:
            for dst in F.INT_FORMATS:
                if src != dst:
                    check_int_conv(run, facts, 'nostd', src, dst)
        report_failures(run, 'conv.closed-form')
        check_dispatch(run, facts, 'nostd')
