"""C18 — sinc interpolation is transparent on the sample grid, linear and finite (formula and state conformance).

State protocol (new asserts an even length and starts at idx 0; next_source_frame pushes once and advances idx only
below depth; reset zeroes idx, the first index and every slot), kernel formula per tap
coef = sinc(pi (phi + n)) * (0.5 + 0.5 cos(pi (phi + n) / depth)), sinc(a) = select(a == 0, 1, sin a / a) with both
divisions guarded, phi = x on the left taps frames[nl - n] and 1 - x on the right taps frames[nr + n]; each tap adds
coef * frame once to an accumulator that starts at EQUILIBRIUM; coef is free of frame data (linearity); tap count
max_depth <= nl + 1 in all three branches so nl - n never underflows (Fourier-Motzkin), depth >= 1.
Not decided: the 1e-12 / 1 % numeric bounds and finiteness under overflow (paper: at x = 0 every tap but n = 0 carries
sin(k pi))."""
from fractions import Fraction

from absint.linear import Aff, Poly
from absint.scaled import float_fraction
from rules.common import *
import poly as P
import scalar as S

LEVEL = 'other'
K = 'dasp_interpolate::sinc::Sinc'
PRE = '<dasp_interpolate::sinc::Sinc<S> as dasp_interpolate::Interpolator>::'
RB = ('dasp_ring_buffer::',)
PI = 0x400921fb54442d18
FX = 'dasp_ring_buffer::Fixed::<S>::'


def rp(e):
    return (e.get('rpath') or e['path']) if e['kind'] == 'call' else None


def check_state(run, cx, cfg):
    fi, ii = cx.field_index(K, 'frames'), cx.field_index(K, 'idx')
    idx = self_field(ii)
    fn = K + '::<S>::new'
    body = cx.body(fn)
    if body is None:
        run.fail('sinc.new', fn, cfg, 'function not found')
    else:
        ps = cx.paths(fn, opaque_prefixes=RB)
        rets = returning(ps)
        bad = None
        for p in rets:
            lens = [(k, e) for k, e in call_events(p) if rp(e) == FX + 'len']
            ok_even = False
            for c, v in cond_facts(p):
                if lens and c == ('op', 'Eq', ('op', 'Rem', ('ret', lens[0][0]), ('int', 2, 'usize')), ('int', 0, 'usize')) and v == ('bool', True):
                    ok_even = True
            r = p['ret']
            if not ok_even:
                bad = 'constructs the interpolator without having asserted an even buffer length'
            elif not (r[0] == 'agg' and r[2][fi] == ('param', 1) and r[2][ii] == ('int', 0, 'usize')):
                bad = 'must keep the given buffer and start with idx = 0'
        if not rets or not [p for p in ps if p['end'] != 'return']:
            bad = bad or 'must reject an odd length by panicking'
        run.check(bad is None, 'sinc.new', fn, cfg, bad or '', where=where(body))
    fn = PRE + 'next_source_frame'
    body = cx.body(fn)
    if body is None:
        run.fail('sinc.next_source_frame', fn, cfg, 'function not found')
    else:
        ps = returning(cx.paths(fn, opaque_prefixes=RB))
        bad = None
        seen = set()
        for p in ps:
            pushes = [(k, e) for k, e in call_events(p) if rp(e) == FX + 'push']
            lens = [(k, e) for k, e in call_events(p) if rp(e) == FX + 'len']
            if len(pushes) != 1 or pushes[0][1]['args'] != [('ref', self_loc(fi)), ('param', 2)]:
                bad = 'must push the source frame exactly once'
                break
            below = None
            for c, v in cond_facts(p):
                if c[0] == 'op' and c[1] in ('Lt', 'Ge') and c[2] == idx and lens and c[3] == ('op', 'Div', ('ret', lens[0][0]), ('int', 2, 'usize')) and v[0] == 'bool':
                    below = v[1] if c[1] == 'Lt' else not v[1]
            w = heap_writes(p).get(self_loc(ii))
            if below is None:
                bad = 'path not decided by idx < depth (depth = frames.len() / 2)'
            elif below and w != ('op', 'Add', idx, ('int', 1, 'usize')):
                bad = 'below depth the read index must advance by one'
            elif not below and w is not None:
                bad = 'at depth the read index must stay'
            seen.add(below)
        if seen != {True, False}:
            bad = bad or 'missing case'
        run.check(bad is None, 'sinc.next_source_frame', fn, cfg, bad or '', where=where(body))
    fn = PRE + 'reset'
    body = cx.body(fn)
    if body is None:
        run.fail('sinc.reset', fn, cfg, 'function not found')
    else:
        ps = normal_paths(cx.paths(fn, opaque_prefixes=RB))
        bad = None
        kinds = set()
        for p in ps:
            loops = iterator_loops(p)
            fe = foreach_assignments(cx, p) if not loops else []
            if len(fe) == 1 and p['end'] == 'return':
                # frames.iter_mut().for_each(|f| *f = EQUILIBRIUM): same obligations without an explicit loop
                it, val, _k = fe[0]
                src = p['events'][it[1]] if it[0] == 'ret' else None
                sf = [(k, e) for k, e in call_events(p) if rp(e) == FX + 'set_first']
                if not src or rp(src) != FX + 'iter_mut' or src['args'][0] != ('ref', self_loc(fi)):
                    bad = 'must iterate frames.iter_mut() (every slot)'
                elif not (val[0] == 'assoc' and val[2] == 'EQUILIBRIUM'):
                    bad = 'each slot must be set to EQUILIBRIUM'
                elif heap_writes(p).get(self_loc(ii)) != ('int', 0, 'usize'):
                    bad = 'must set idx = 0'
                elif len(sf) != 1 or sf[0][1]['args'] != [('ref', self_loc(fi)), ('int', 0, 'usize')]:
                    bad = 'must call frames.set_first(0)'
                kinds.update(('slot', 'end'))
                if bad:
                    break
                continue
            if not loops:
                bad = 'expected a loop over the buffer'
                break
            enter = p['events'][loops[0]['enter']]
            # one pass over frames.iter_mut(), or over both halves of frames.slices_mut() (chained, or one loop each)
            covers = [slot_cover(p, l['iter'], ('ref', self_loc(fi)), FX) for l in loops]
            if any(c is None for c in covers) or (p['end'] == 'return' and not covers_all(covers)):
                bad = 'must iterate frames.iter_mut() (every slot)'
                break
            if enter.get('heap_before', {}).get(self_loc(ii)) != ('int', 0, 'usize'):
                bad = 'must set idx = 0'
                break
            sf = [(k, e) for k, e in call_events(p) if rp(e) == FX + 'set_first']
            if len(sf) != 1 or sf[0][1]['args'] != [('ref', self_loc(fi)), ('int', 0, 'usize')]:
                bad = 'must call frames.set_first(0)'
                break
            wi = p['writes'].get(self_loc(ii))
            if wi is not None and not (wi[0] == 'phiheap' and wi[3] == self_loc(ii)):
                bad = 'idx is modified again after being zeroed'
                break
            nk = loops[-1]['next']
            d = dict(cond_facts(p)).get(('discr', ('ret', nk)))
            if d == ('int', 1, 'isize'):
                el = ('field', ('variant', ('ret', nk), 1), 0)
                w = p['writes'].get((('P', el), ()))
                if w is None or not (w[0] == 'assoc' and w[2] == 'EQUILIBRIUM'):
                    bad = 'each slot must be set to EQUILIBRIUM'
                kinds.add('slot')
            elif p['end'] == 'return':
                kinds.add('end')
        if not bad and kinds != {'slot', 'end'}:
            bad = 'missing case'
        run.check(bad is None, 'sinc.reset', fn, cfg, bad or '', where=where(body))


def check_interpolate(run, cx, cfg):
    fi, ii = cx.field_index(K, 'frames'), cx.field_index(K, 'idx')
    idx = self_field(ii)
    fn = PRE + 'interpolate'
    body = cx.body(fn)
    if body is None:
        run.fail('sinc.kernel', fn, cfg, 'function not found')
        return
    ps = returning(cx.paths(fn, opaque_prefixes=RB))
    bad_k = bad_i = None
    sample = None
    nfolds = 0
    for p in ps:
        folds = [(k, e) for k, e in call_events(p) if is_call(e, ITER, 'fold')]
        lens = [('ret', k) for k, e in call_events(p) if rp(e) == FX + 'len' and e['args'][0] == ('ref', self_loc(fi))]
        if len(folds) != 1 or p['ret'] != ('ret', folds[0][0]) or not lens:
            bad_k = 'must be (0..max_depth).fold(EQUILIBRIUM, tap)'
            break
        rng, init, clo = folds[0][1]['args']
        if not (init[0] == 'assoc' and init[2] == 'EQUILIBRIUM'):
            bad_k = 'the accumulator must start at EQUILIBRIUM'
            break
        if not (rng[0] == 'agg' and rng[1][1] == 'core::ops::range::Range' and rng[2][0] == ('int', 0, 'usize')):
            bad_k = 'taps must run over 0..max_depth'
            break
        nfolds += 1
        # ---- index arithmetic: max_depth <= nl + 1 (so nl - n >= 0 for n < max_depth), depth >= 1
        poly = Poly()
        I, N, D = Aff.sym('I'), Aff.sym('N'), Aff.sym('D')
        for s in (I, N, D):
            poly.ge0(s)
        poly.eq(N, D + D)          # even length (asserted by new)
        poly.ge(N, 1)              # Fixed buffers are never empty (C06)

        def lin(t):
            t = strip_epoch(t)
            if t == idx:
                return I
            if t in lens:
                return N
            if t[0] == 'int':
                return Aff.const(t[1])
            if t[0] == 'op' and t[1] == 'Div' and t[2] in lens and t[3] == ('int', 2, 'usize'):
                return D
            if t[0] == 'cast' and t[1] == 'IntToInt':
                return lin(t[2])
            if t[0] == 'op' and t[1] in ('Add', 'Sub'):
                a, b = lin(t[2]), lin(t[3])
                return None if a is None or b is None else (a + b if t[1] == 'Add' else a - b)
            return None
        for c, v in cond_facts(p):
            if v[0] == 'bool' and c[0] == 'op' and c[1] in ('Lt', 'Le', 'Gt', 'Ge'):
                a, b = lin(c[2]), lin(c[3])
                if a is None or b is None:
                    continue
                op = c[1] if v[1] else {'Lt': 'Ge', 'Le': 'Gt', 'Gt': 'Le', 'Ge': 'Lt'}[c[1]]
                {'Lt': poly.lt, 'Le': poly.le, 'Gt': poly.gt, 'Ge': poly.ge}[op](a, b)
        md = lin(rng[2][1])
        if md is None:
            bad_i = 'tap count %s is not an affine function of idx / len / depth' % short(rng[2][1])
        elif not (poly.entails_le(md, I + 1) and poly.entails_ge(md, 0)):
            bad_i = 'tap count %r is not provably <= idx + 1: the left tap index idx - n can underflow' % md
        elif not poly.entails_ge(D, 1):
            bad_i = 'depth may be 0 (division by depth)'
        # ---- kernel
        try:
            acc, n = ('acc',), ('n',)
            cps = returning(cx.closure_paths(clo, p, [acc, n], opaque_prefixes=RB))
            x = P.atom(('param', 2))
            nn = P.atom(n)
            pi = P.const(float_fraction(PI, 64))
            depth = P.atom(('op', 'Div', lens[0], ('int', 2, 'usize')))
            got_all = []
            for cp in cps:
                gets = [(k, e) for k, e in call_events(cp) if rp(e) in (FX + 'get', '<dasp_ring_buffer::Fixed<S> as core::ops::index::Index<usize>>::index')]
                if len(gets) != 2:
                    bad_k = 'each tap must read exactly two frames'
                    break
                left = [g for g in gets if strip_epoch(g[1]['args'][1]) == ('op', 'Sub', idx, n)]
                right = [g for g in gets if strip_epoch(g[1]['args'][1]) == ('op', 'Add', ('op', 'Add', idx, ('int', 1, 'usize')), n)]
                if len(left) != 1 or len(right) != 1:
                    bad_k = 'taps must read frames[idx - n] (left) and frames[idx + 1 + n] (right); reads %s' % [short(g[1]['args'][1]) for g in gets]
                    break
                FL, FR = P.atom(('deref', ('ret', left[0][0]))), P.atom(('deref', ('ret', right[0][0])))
                sc = S.Scalar(cx, cp)
                conds0 = sc.path_conds(cp, {})
                for c2, v in sc.cases(cp['ret']):
                    got_all.append((conds0 + c2, v, FL, FR))
            if not bad_k:
                aL = pi * (x + nn)
                aR = pi * ((P.const(1) - x) + nn)

                def window(a):
                    return P.const(Fraction(1, 2)) + P.const(Fraction(1, 2)) * P.atom(('fn', 'cos', ((a / depth).key(),)))

                def sinc(a, zero):
                    return P.const(1) if zero else P.atom(('fn', 'sin', (a.key(),))) / a
                want_keys = set()
                for zl in (False, True):
                    for zr in (False, True):
                        conds = ((('==' if zl else '!='), aL), (('==' if zr else '!='), aR))
                        want_keys.add((tuple(sorted(repr(S.canon_cond(c)) for c in conds)), zl, zr))
                if len(got_all) != 4:
                    bad_k = 'expected the four cases (a_left == 0?) x (a_right == 0?), got %d' % len(got_all)
                for conds, v, FL, FR in got_all:
                    ck = tuple(sorted(repr(S.canon_cond(c)) for c in conds))
                    m = [w for w in want_keys if w[0] == ck]
                    if not m:
                        bad_k = 'a tap branches on %s instead of a == 0 for a = pi*(phi + n), phi = x (left) / 1 - x (right)' % ' & '.join('%r %s 0' % (d, r) for r, d in conds)
                        break
                    _, zl, zr = m[0]
                    want = P.atom(acc) + sinc(aL, zl) * window(aL) * FL + sinc(aR, zr) * window(aR) * FR
                    if not (v == want):
                        bad_k = 'tap adds %r; expected acc + sinc(aL)*hann(aL)*left + sinc(aR)*hann(aR)*right with sinc(a) = %s' % (v, '1' if zl else 'sin a / a')
                        break
                    sample = 'acc + [sin(aL)/aL]*(1/2 + 1/2 cos(aL/depth))*frames[idx-n] + [sin(aR)/aR]*(1/2 + 1/2 cos(aR/depth))*frames[idx+1+n], aL = pi(x+n), aR = pi(1-x+n)'
        except S.Unsupported as u:
            run.unproven('sinc.kernel', fn, cfg, 'scalarisation failed: %s' % u, where=where(body))
            return
        if bad_k or bad_i:
            break
    if nfolds < 3 and not (bad_k or bad_i):
        bad_i = 'expected the three tap-count branches (right edge / left edge / full depth), found %d' % nfolds
    run.check(bad_k is None, 'sinc.kernel', fn, cfg, bad_k or '', where=where(body), sample=sample)
    run.check(bad_i is None, 'sinc.index-arithmetic', fn, cfg, bad_i or '', where=where(body))


def check_precision(run, cx, cfg):
    """Precision discipline of the kernel ("to within 1e-12 of the peak"): each tap's weight is an f64 and must meet the
    lagged sample in f64 -- `weight * r.to_sample::<f64>()`, one conversion of the product to the frame's format.  A
    product formed through `Sample::mul_amp` goes through the format's Float companion, which is f32 for every format
    of 32 bits or less: i32 / u32 frames lose their low 8 bits.  Structural: the accumulating closures of interpolate
    (the ones that call add_amp) convert the lagged sample to f64, multiply in f64, and use no Float-companion route."""
    fn = PRE + 'interpolate'
    body = cx.body(fn)
    if body is None:
        return
    facts = cx.facts
    clos = [b for b in facts.bodies.values() if b['kind'] == 'Closure' and (b.get('root') == fn or b['path'].startswith(fn + '::{closure'))]
    # helpers reached from interpolate count too (a tap body moved into a private function)
    reach = callee_closure(facts, [fn], crate='dasp_interpolate')
    bodies = {b['path']: b for b in clos}
    for p in reach:
        b = facts.body(p)
        if b is not None and p != fn:
            bodies[p] = b
            for c in facts.bodies.values():
                if c['kind'] == 'Closure' and c['path'].startswith(p + '::{closure'):
                    bodies[c['path']] = c
    n = 0
    for path, b in sorted(bodies.items()):
        import mirutil
        cs = [mirutil.resolved_path(t) or '' for _, t in mirutil.calls(b)]
        decl = [(t['callee'] or {}).get('path', '') for _, t in mirutil.calls(b) if t.get('callee')]
        if 'dasp_sample::Sample::add_amp' not in decl:
            continue
        n += 1
        bad = None
        for _, t in mirutil.calls(b):
            c = t.get('callee') or {}
            if c.get('path') in ('dasp_sample::Sample::mul_amp', 'dasp_sample::Sample::to_float_sample'):
                bad = 'weights a sample through %s: the product is formed in the format\'s Float companion (f32 for formats of 32 bits or less), not in f64' % c['path'].rsplit('::', 1)[-1]
                break
            if c.get('path') in ('dasp_sample::Sample::to_sample', 'dasp_sample::Sample::from_sample') and any(a == 'f32' or str(a).endswith('::Float') for a in c.get('args', [])[1:]):
                bad = 'converts through %s inside the accumulation' % [a for a in c['args'][1:]][0]
                break
        if not bad:
            to64 = [1 for _, t in mirutil.calls(b) if (t.get('callee') or {}).get('path') == 'dasp_sample::Sample::to_sample' and 'f64' in (t['callee'].get('args') or [])[1:2]]
            mul64 = [1 for op, ty, _ in fixed_float_arith(facts, b) if op == 'Mul' and ty == 'f64']
            if not to64 or not mul64:
                bad = 'the tap must be weight * sample.to_sample::<f64>() formed in f64 (no f64 conversion / multiplication found in the accumulating closure)'
        run.check(bad is None, 'sinc.precision', path, cfg, bad or '', where=where(b))
    run.floor('sinc.precision', 'accumulating closures of Sinc::interpolate (%s)' % cfg, n, 1)


def run(run, tier, loadcfg):
    run.rule_text = 'one instance per (function x rule x configuration)'
    run.explanation = __doc__
    run.assumptions = ['amplitude abstraction (C01/C02); floating-point rounding ignored', 'Fixed ring buffer = indexable delay line (C06)', 'Range(0..m).fold visits n = 0..m-1 in order']
    for cfg in ['std-debug', 'std-release'] + (['nostd'] if tier == 'thorough' else []):
        fx_ = loadcfg(cfg, optional=(cfg == 'nostd'))
        if fx_ is None:
            continue
        cx = Ctx(fx_)
        check_state(run, cx, cfg)
        check_interpolate(run, cx, cfg)
        check_precision(run, cx, cfg)
        from rules import C06
        C06.check_used(run, cx, cfg, [b for b in fx_.bodies.values() if b['path'].startswith(('dasp_interpolate::sinc::Sinc', '<dasp_interpolate::sinc::Sinc'))], 4, handed=C06.F)
