"""E4 — polynomial / rational-function normal form over value terms ("amplitude algebra").

Terms built from + - * / neg, numeric constants and opaque atoms are put in a canonical form num/den with
multivariate polynomials over exact rationals (every f32/f64 literal is a dyadic rational).  Two abstractions,
each justified by another property, make the DSP code polynomial:
  * amplitude abstraction: to_sample / to_signed_sample / to_float_sample / from_sample are the identity on the
    real amplitude (C01/C02); Sample::add_amp is +, Sample::mul_amp is *;
  * value-preserving numeric casts (int->float, float->float, widening int) are the identity.
Equality of normal forms is equality of the functions over the reals; floating-point rounding is deliberately
ignored (every use says so)."""
from fractions import Fraction

from absint.scaled import float_fraction

IDENT_APPS = ('dasp_sample::Sample::to_sample', 'dasp_sample::Sample::from_sample', 'dasp_sample::Sample::to_signed_sample',
              'dasp_sample::Sample::to_float_sample', 'dasp_sample::conv::FromSample::from_sample_', 'dasp_sample::conv::ToSample::to_sample_',
              'core::convert::Into::into', 'core::convert::From::from', 'core::clone::Clone::clone')
ARITH_APPS = {'core::ops::arith::Add::add': 'Add', 'core::ops::arith::Sub::sub': 'Sub', 'core::ops::arith::Mul::mul': 'Mul',
              'core::ops::arith::Div::div': 'Div', 'dasp_sample::Sample::add_amp': 'Add', 'dasp_sample::Sample::mul_amp': 'Mul'}
MATH = ('sin', 'cos', 'sqrt', 'floor', 'ceil', 'powf', 'abs', 'exp', 'ln')


class Poly:
    """dict monomial -> Fraction; monomial = tuple of (atom, exp) sorted by repr"""
    __slots__ = ('t',)

    def __init__(self, t=None):
        self.t = {k: v for k, v in (t or {}).items() if v != 0}

    @staticmethod
    def const(c):
        return Poly({(): Fraction(c)})

    @staticmethod
    def atom(a):
        return Poly({((a, 1),): Fraction(1)})

    def __add__(self, o):
        r = dict(self.t)
        for k, v in o.t.items():
            r[k] = r.get(k, 0) + v
        return Poly(r)

    def __neg__(self):
        return Poly({k: -v for k, v in self.t.items()})

    def __sub__(self, o):
        return self + (-o)

    def __mul__(self, o):
        r = {}
        for k1, v1 in self.t.items():
            for k2, v2 in o.t.items():
                m = {}
                for a, e in k1 + k2:
                    m[a] = m.get(a, 0) + e
                k = tuple(sorted(m.items(), key=repr))
                r[k] = r.get(k, 0) + v1 * v2
        return Poly(r)

    def __eq__(self, o):
        return self.t == o.t

    def is_zero(self):
        return not self.t

    def is_const(self):
        return all(k == () for k in self.t)

    def const_value(self):
        return self.t.get((), Fraction(0))

    def key(self):
        return tuple(sorted(((k, (v.numerator, v.denominator)) for k, v in self.t.items()), key=repr))

    def __repr__(self):
        if not self.t:
            return '0'
        parts = []
        for k, v in sorted(self.t.items(), key=repr):
            mon = '*'.join(('%s^%d' % (show_atom(a), e) if e != 1 else show_atom(a)) for a, e in k)
            c = str(v) if v.denominator == 1 else '(%s)' % v
            parts.append(c if not mon else (mon if v == 1 else '%s*%s' % (c, mon)))
        return ' + '.join(parts)


def show_atom(a):
    from rules.common import short
    if isinstance(a, tuple) and a and a[0] == 'fn':
        return '%s(..)' % a[1]
    return short(a) if isinstance(a, tuple) else str(a)


class RF:
    """rational function num/den"""
    __slots__ = ('n', 'd')

    def __init__(self, n, d=None):
        self.n = n
        self.d = d if d is not None else Poly.const(1)
        # normalise constant denominators
        if self.d.is_const() and not self.d.is_zero():
            c = self.d.const_value()
            self.n = Poly({k: v / c for k, v in self.n.t.items()})
            self.d = Poly.const(1)

    def __add__(self, o):
        if self.d == o.d:
            return RF(self.n + o.n, self.d)
        return RF(self.n * o.d + o.n * self.d, self.d * o.d)

    def __sub__(self, o):
        return self + RF(-o.n, o.d)

    def __mul__(self, o):
        return RF(self.n * o.n, self.d * o.d)

    def __truediv__(self, o):
        return RF(self.n * o.d, self.d * o.n)

    def __neg__(self):
        return RF(-self.n, self.d)

    def __eq__(self, o):
        return (self.n * o.d) == (o.n * self.d)

    def key(self):
        return (self.n.key(), self.d.key())

    def is_const(self):
        return self.n.is_const() and self.d.is_const()

    def const_value(self):
        return self.n.const_value() / self.d.const_value()

    def __repr__(self):
        if self.d == Poly.const(1):
            return repr(self.n)
        return '(%r) / (%r)' % (self.n, self.d)

    def atoms(self):
        out = set()
        for p in (self.n, self.d):
            for k in p.t:
                for a, _ in k:
                    out.add(a)
        return out


def const(c):
    return RF(Poly.const(c))


def atom(a):
    return RF(Poly.atom(a))


class Normalizer:
    """term -> RF.  `resolve(term)` may map a term to another term first (dereferencing through a path's store,
    substituting closure parameters, ...); `leaf(term)` may turn a term into an RF directly."""

    def __init__(self, resolve=None, leaf=None, ident_apps=IDENT_APPS):
        self.resolve = resolve
        self.leaf = leaf
        self.ident_apps = ident_apps

    def __call__(self, t):
        return self.norm(t)

    def norm(self, t):
        if self.resolve:
            t = self.resolve(t)
        if self.leaf:
            r = self.leaf(t)
            if r is not None:
                return r
        k = t[0]
        if k == 'float':
            fr = float_fraction(t[1], t[2])
            if fr is None:
                return atom(t)
            return const(fr)
        if k == 'int':
            return const(t[1])
        if k == 'op' and t[1] == 'Div' and any(x[0] == 'int' and not str(x[2]).startswith('f') for x in (t[2], t[3])):
            return atom(t)          # integer (flooring) division is not real division
        if k == 'op' and t[1] in ('Add', 'Sub', 'Mul', 'Div'):
            a, b = self.norm(t[2]), self.norm(t[3])
            return {'Add': a + b, 'Sub': a - b, 'Mul': a * b, 'Div': a / b}[t[1]] if not (t[1] == 'Div' and b.n.is_zero()) else atom(t)
        if k == 'un' and t[1] == 'Neg':
            return -self.norm(t[2])
        if k == 'cast' and t[1] in ('IntToFloat', 'FloatToFloat', 'IntToInt'):
            return self.norm(t[2])
        if k == 'app':
            name = t[1]
            if name in self.ident_apps:
                return self.norm(t[2][0])
            if name in ARITH_APPS:
                a, b = self.norm(t[2][0]), self.norm(t[2][1])
                op = ARITH_APPS[name]
                return {'Add': a + b, 'Sub': a - b, 'Mul': a * b, 'Div': a / b}[op]
            if name == 'core::ops::arith::Neg::neg':
                return -self.norm(t[2][0])
            if name.rsplit('::', 1)[-1] == 'mul_add' and ('<impl f64>' in name or '<impl f32>' in name) and len(t[2]) == 3:
                # a.mul_add(b, c): a * b + c over the reals (fused: one rounding instead of two, which this normal form ignores)
                return self.norm(t[2][0]) * self.norm(t[2][1]) + self.norm(t[2][2])
            short = name.rsplit('::', 1)[-1]
            if short in MATH and ('<impl f' in name or name.startswith('core::intrinsics::') or 'ops::f' in name):
                short = {'sinf64': 'sin', 'cosf64': 'cos', 'sqrtf64': 'sqrt', 'floorf64': 'floor', 'ceilf64': 'ceil', 'powf64': 'powf',
                         'sinf32': 'sin', 'cosf32': 'cos', 'sqrtf32': 'sqrt', 'floorf32': 'floor', 'ceilf32': 'ceil', 'powf32': 'powf'}.get(short, short)
                args = tuple(self.norm(x) for x in t[2])
                return atom(('fn', short, tuple(a.key() for a in args)))
            if short in ('sinf64', 'cosf64', 'sqrtf64', 'floorf64', 'ceilf64', 'powf64', 'sinf32', 'cosf32', 'sqrtf32', 'floorf32', 'ceilf32', 'powf32'):
                args = tuple(self.norm(x) for x in t[2])
                return atom(('fn', short[:-3], tuple(a.key() for a in args)))
        return atom(t)
