"""E3 — path summaries with value terms.

Symbolic execution of MIR facts over acyclic paths.  Every path yields a
summary: branch conditions (terms), an ordered effect trace (calls that were
not inlined, with argument terms), the final contents of every location
reachable from the arguments that was written, and the return term.

Loops: when a path first reaches a loop header it records a `loop` event and
havocs every local assigned inside the loop (and, if the loop contains calls
or writes through pointers, every heap location); it then executes *one
generic iteration*: reaching the same header again ends the path (`end =
('back', header)`) recording the loop-carried values, leaving the loop continues
to the function's exit.  No feasibility solving is done beyond constant
folding and remembering the outcome of earlier tests of the same term.
"""
import re

import examined
import mirutil

_IDENT = re.compile(r"(?<![\w:'])[A-Za-z_][A-Za-z0-9_]*(?![\w:])")

# ---------------------------------------------------------------- terms
# terms are nested tuples; see module docstring of rules for their reading.


def t_int(n, ty):
    return ('int', n, ty)


def t_bool(b):
    return ('bool', bool(b))


UNIT = ('unit',)


def is_concrete(t):
    return t[0] in ('int', 'bool', 'float', 'unit')


PURE_TRAIT_METHODS = {
    ('dasp_sample::Sample', 'to_sample'), ('dasp_sample::Sample', 'from_sample'),
    ('dasp_sample::Sample', 'to_signed_sample'), ('dasp_sample::Sample', 'to_float_sample'),
    ('dasp_sample::Sample', 'add_amp'), ('dasp_sample::Sample', 'mul_amp'),
    ('dasp_sample::conv::FromSample', 'from_sample_'), ('dasp_sample::conv::ToSample', 'to_sample_'),
    ('dasp_sample::FloatSample', 'sample_sqrt'),
    ('core::cmp::PartialOrd', 'lt'), ('core::cmp::PartialOrd', 'le'), ('core::cmp::PartialOrd', 'gt'),
    ('core::cmp::PartialOrd', 'ge'), ('core::cmp::PartialEq', 'eq'), ('core::cmp::PartialEq', 'ne'),
    ('core::ops::arith::Add', 'add'), ('core::ops::arith::Sub', 'sub'), ('core::ops::arith::Mul', 'mul'),
    ('core::ops::arith::Div', 'div'), ('core::ops::arith::Neg', 'neg'), ('core::ops::arith::Rem', 'rem'),
    ('core::convert::Into', 'into'), ('core::convert::From', 'from'),
    ('core::clone::Clone', 'clone'),
}


# every method of these traits is a pure function of its arguments (closures passed in are values)
PURE_TRAITS = {'dasp_frame::Frame', 'dasp_sample::Sample', 'dasp_sample::SignedSample', 'dasp_sample::FloatSample',
               'dasp_sample::conv::FromSample', 'dasp_sample::conv::ToSample', 'dasp_sample::conv::Duplex',
               'dasp_window::Window'}


INT_TYPES = ('usize', 'isize', 'u8', 'u16', 'u32', 'u64', 'u128', 'i8', 'i16', 'i32', 'i64', 'i128')

# core functions every engine sees through (bodies exported by the extractor): pure control-flow sugar
TRANSPARENT_CORE = ('core::bool::<impl bool>::then', 'core::convert::identity',
                    # `x.checked_sub(1)?` is `if x < 1 { return None }; x - 1`
                    '<core::option::Option<T> as core::ops::try_trait::', 'core::num::<impl usize>::checked_sub', 'core::num::<impl usize>::checked_add',
                    # `o.map_or(d, f)` is `match o { Some(x) => f(x), None => d }`, likewise is_some_and / is_none_or
                    'core::option::Option::<T>::map_or', 'core::option::Option::<T>::is_some_and', 'core::option::Option::<T>::is_none_or')


class Policy:
    """What to inline, what to keep as an opaque effect, what is pure."""

    def __init__(self, stop=(), pure_extra=(), inline=True, max_depth=6, no_inline_prefixes=(), stop_trait_methods=(), inline_core=False, subst_types=False, pure_ref_values=False, typed_floats=False, record_ref_values=False, own_body_only=False, transparent=()):
        self.transparent = tuple(transparent)   # further core functions this engine sees through (bodies exported by the extractor), chosen per rule
        self.own_body_only = own_body_only    # keep every call of a workspace function as an event (closures and core combinators are still seen through)
        self.typed_floats = typed_floats      # float comparisons / arithmetic get distinct operator names (`Lt.f`): NaN breaks the integer laws
        self.record_ref_values = record_ref_values  # an opaque call given `&x` sees the value of x at the call: record it with the event
        self.pure_ref_values = pure_ref_values  # a pure call given `&x` is a function of the value of x at the call, not of where x lives
        self.subst_types = subst_types        # carry the type arguments of inlined generic callees into the terms
        self.inline_core = inline_core        # see through the small core combinators whose MIR the extractor exported
        self.stop_trait_methods = set(stop_trait_methods)   # (trait, method): kept as events even when resolvable
        self.stop = set(stop)                 # callee paths (resolved or declared) never inlined
        self.pure_extra = set(pure_extra)
        self.inline = inline
        self.max_depth = max_depth
        self.no_inline_prefixes = tuple(no_inline_prefixes)

    def may_inline(self, callee, target):
        if not self.inline or target is None:
            return False
        if self.own_body_only and target.get('crate') != '<extern>' and target.get('kind') != 'Closure':
            return False
        p = target['path']
        if p in self.stop or callee['path'] in self.stop:
            return False
        # the blanket impls for references (`impl Signal for &mut S`) only forward to the same method of the pointee, which
        # is then kept as the event: seeing through them keeps `(&mut signal).take(n)`-style borrows transparent
        fwd = (target.get('impl') or {}).get('self_ty', '').startswith('&')
        if (callee.get('trait'), callee['name']) in self.stop_trait_methods and not fwd:
            return False
        if (callee.get('impl_trait'), callee['name']) in self.stop_trait_methods and not fwd:
            return False
        if p.startswith(self.no_inline_prefixes) and self.no_inline_prefixes:
            return False
        return True

    def is_pure(self, callee):
        key = (callee.get('trait'), callee['name'])
        if key in PURE_TRAIT_METHODS or key in self.pure_extra:
            return True
        if callee.get('trait') in PURE_TRAITS:
            # Frame::from_samples advances the iterator it is given
            return callee['name'] != 'from_samples'
        p = (callee.get('res') or callee)['path']
        if p in self.pure_extra:
            return True
        if p.startswith(('std::f32::<impl f32>::', 'std::f64::<impl f64>::', 'core::f32::<impl f32>::', 'core::f64::<impl f64>::',
                         'core::intrinsics::', 'core::num::<impl ')):
            return True
        return False


class State:
    __slots__ = ('store', 'events', 'conds', 'facts', 'active', 'nframes', 'havocs', 'epoch', 'tys')

    def __init__(self):
        self.store = {}
        self.events = []
        self.conds = []
        self.facts = {}
        self.active = frozenset()
        self.nframes = 0
        self.havocs = 0
        self.epoch = 0
        self.tys = {}       # frame -> {generic parameter name: type string of the instantiation} (Policy.subst_types)

    def clone(self):
        s = State()
        s.store = dict(self.store)
        s.events = list(self.events)
        s.conds = list(self.conds)
        s.facts = dict(self.facts)
        s.active = self.active
        s.nframes = self.nframes
        s.havocs = self.havocs
        s.epoch = self.epoch
        s.tys = dict(self.tys)
        return s


class TooComplex(Exception):
    pass


class Engine:
    def __init__(self, facts, policy=None, max_paths=400):
        self.facts = facts
        self.policy = policy or Policy()
        self.max_paths = max_paths
        self.npaths = 0
        self._loops = {}
        self.discr_variants = {}
        self.inlined_bodies = []

    # ------------------------------------------------------------ loops
    def loop_info(self, body):
        key = body['hash']
        if key in self._loops:
            return self._loops[key]
        blocks = body['blocks']
        color = {}
        back = []
        order = []

        def dfs(u):
            color[u] = 1
            for v in mirutil.successors(blocks[u]['t']):
                if color.get(v) == 1:
                    back.append((u, v))
                elif v not in color:
                    dfs(v)
            color[u] = 2
            order.append(u)
        import sys
        sys.setrecursionlimit(10000)
        dfs(0)
        preds = {}
        for u in color:
            for v in mirutil.successors(blocks[u]['t']):
                preds.setdefault(v, []).append(u)
        loops = {}
        for u, h in back:
            # natural loop of back edge u->h
            body_set = {h}
            stack = [u]
            while stack:
                x = stack.pop()
                if x in body_set:
                    continue
                body_set.add(x)
                stack.extend(preds.get(x, []))
            loops.setdefault(h, set()).update(body_set)
        # locals whose address is taken mutably (directly, not through a pointer) in a block: a loop that takes `&mut x`
        # in its body and writes through pointers or calls anything may change x without ever assigning to it
        def mut_borrowed_in(bs):
            out = set()
            for b in bs:
                for st in blocks[b]['s']:
                    if st[0] == '=' and st[2][0] in ('ref', 'rawptr') and (st[2][1] is True or st[2][1] == 'Mut'):
                        pl = st[2][2]
                        if '*' not in [p for p in pl[1] if isinstance(p, str)]:
                            out.add(pl[0])
            return out
        info = {}
        for h, bs in loops.items():
            assigned = set()
            heapy = False
            for b in bs:
                for st in blocks[b]['s']:
                    if st[0] == '=':
                        pl = st[1]
                        if '*' in [p for p in pl[1] if isinstance(p, str)]:
                            heapy = True        # write through a pointer: the local itself is unchanged
                        else:
                            assigned.add(pl[0])
                    else:
                        heapy = True
                t = blocks[b]['t']
                if t['k'] == 'call':
                    heapy = True
                    assigned.add(t['dest'][0])
            if heapy:
                assigned |= mut_borrowed_in(bs)
            info[h] = {'blocks': bs, 'assigned': assigned, 'heapy': heapy}
        self._loops[key] = info
        return info

    # ------------------------------------------------------------ store
    @staticmethod
    def _is_prefix(q, p):
        return len(q) <= len(p) and p[:len(q)] == q

    def read(self, st, loc):
        root, path = loc
        # exact or prefix entry
        best = None
        for (r, q), v in st.store.items():
            if r == root and self._is_prefix(q, path):
                best = (q, v)
                break
        if best is not None:
            q, v = best
            return self.project(v, path[len(q):])
        # entries below this path -> composite
        ups = [(q[len(path):], v) for (r, q), v in st.store.items() if r == root and self._is_prefix(path, q)]
        base = self.initial(root, path, st.epoch)
        if ups:
            return ('upd', base, tuple(sorted(ups, key=repr)))
        return base

    def initial(self, root, path, epoch=0):
        if root[0] == 'L':
            return self.project(('uninit', root), path)
        if epoch:
            # inside / after a loop that may write the heap: not the same value as before the loop
            return self.project(('derefh', root[1], epoch), path)
        return self.project(('deref', root[1]), path)

    def project(self, v, path):
        for e in path:
            v = self.project1(v, e)
        return v

    def project1(self, v, e):
        if e[0] == 'f':
            if v[0] == 'agg' and e[1] < len(v[2]):
                return v[2][e[1]]
            if v[0] == 'upd':
                for rel, val in v[2]:
                    if rel == (e,):
                        return val
                    if rel and rel[0] == e:
                        inner = self.project1(v[1], e)
                        return ('upd', inner, tuple((r[1:], x) for r, x in v[2] if r and r[0] == e))
                return self.project1(v[1], e)
            return ('field', v, e[1])
        if e[0] == 'd':
            if v[0] == 'agg' and v[1][0] == 'adt':
                return v
            return ('variant', v, e[1])
        if e[0] == 'idx':
            if v[0] == 'agg' and v[1][0] == 'array' and e[1][0] == 'int' and e[1][1] < len(v[2]):
                return v[2][e[1][1]]
            return ('index', v, e[1])
        if e[0] == 'ci':
            return ('index', v, ('cidx', e[1], e[2]))
        if e[0] == 'sub':
            return ('subslice', v, e[1], e[2], e[3])
        if e[0] == 'cell':
            return ('cell', v)
        return ('proj', v, e)

    def update_in(self, v, rel, val):
        if not rel:
            return val
        e = rel[0]
        if v[0] == 'agg' and e[0] == 'f' and e[1] < len(v[2]):
            fs = list(v[2])
            fs[e[1]] = self.update_in(fs[e[1]], rel[1:], val)
            return ('agg', v[1], tuple(fs))
        if v[0] == 'upd':
            ups = [(r, x) for r, x in v[2] if not self._is_prefix(rel, r)]
            ups.append((rel, val))
            return ('upd', v[1], tuple(sorted(ups, key=repr)))
        return ('upd', v, ((rel, val),))

    def write(self, st, loc, val):
        root, path = loc
        for (r, q) in list(st.store):
            if r != root:
                continue
            if self._is_prefix(q, path) and q != path:
                st.store[(r, q)] = self.update_in(st.store[(r, q)], path[len(q):], val)
                return
            if self._is_prefix(path, q) and q != path:
                del st.store[(r, q)]
        st.store[loc] = val

    # ------------------------------------------------------------ places / operands
    def resolve(self, st, frame, place):
        local, proj = place
        loc = (('L', frame, local), ())
        for p in proj:
            if p == '*':
                v = self.read(st, loc)
                if v[0] == 'ref':
                    loc = v[1]
                else:
                    loc = (('P', v), ())
            elif p[0] == 'f':
                loc = (loc[0], loc[1] + (('f', p[1]),))
            elif p[0] == 'd':
                loc = (loc[0], loc[1] + (('d', p[1]),))
            elif p[0] == 'i':
                idx = self.read(st, (('L', frame, p[1]), ()))
                loc = (loc[0], loc[1] + (('idx', idx),))
            elif p[0] == 'ci':
                loc = (loc[0], loc[1] + (('ci', p[1], p[3]),))
            elif p[0] == 'sub':
                loc = (loc[0], loc[1] + (('sub', p[1], p[2], p[3]),))
            else:
                loc = (loc[0], loc[1] + (('other', str(p)),))
        return loc

    def const(self, c):
        ty = c['ty']
        t = self.facts.ty(ty)
        if 'fn' in c:
            f = c['fn']
            return ('fnitem', f['path'], (f.get('res') or f)['hash'], tuple(f['args']))
        if 'bits' in c:
            bits = int(c['bits'])
            k = t.get('k')
            if k == 'int':
                w = t['bits']
                if t['signed'] and bits >= 1 << (w - 1):
                    bits -= 1 << w
                return ('int', bits, ty)
            if k == 'bool':
                return ('bool', bool(bits))
            if k == 'float':
                return ('float', bits, t['bits'])
            if k == 'char':
                return ('int', bits, ty)
            return ('constval', bits, ty, (c.get('uneval') or {}).get('path'))
        if t.get('k') == 'tuple' and not t.get('elems'):
            return UNIT
        if 'uneval' in c and 'promoted' in c['uneval']:
            u = c['uneval']
            return ('promoted', u['path'], u['promoted'], ty)
        if 'uneval' in c:
            u = c['uneval']
            return ('assoc', u['path'], u.get('name'), u.get('self_ty') or (u['args'][0] if u['args'] else None), tuple(u['args']))
        if 'tyconst' in c:
            return ('tyconst', c['tyconst'])
        disp = c.get('disp') or ''
        if disp.endswith('::None') and ty.startswith('core::option::Option<'):
            return ('agg', ('adt', 'core::option::Option', 0, 'None'), ())
        return ('const', disp, ty)

    def operand(self, st, frame, op):
        if op[0] in ('cp', 'mv'):
            return self.read(st, self.resolve(st, frame, op[1]))
        if op[0] == 'c':
            v = self.const(op[1])
            mp = st.tys.get(frame) if self.policy.subst_types else None
            if mp and v[0] in ('assoc', 'fnitem', 'tyconst', 'const', 'promoted'):
                v = tuple((self.subst_ty(mp, x) if isinstance(x, str) else (tuple(self.subst_ty(mp, y) if isinstance(y, str) else y for y in x) if isinstance(x, tuple) else x)) for x in v)
            return v
        return ('unknown', str(op))

    # ------------------------------------------------------------ simplification
    def binop(self, op, a, b):
        wo = op.endswith('WithOverflow')
        base = op[:-12] if wo else op
        if base.endswith('Unchecked') and not self.policy.inline_core:
            base = base[:-9]        # (seen only inside core bodies: the same value, overflow being excluded by the guard before it)
        r = None
        if a[0] == 'int' and b[0] == 'int':
            x, y = a[1], b[1]
            ty = a[2]
            if base in ('Add', 'Sub', 'Mul'):
                z = {'Add': x + y, 'Sub': x - y, 'Mul': x * y}[base]
                r = ('int', z, ty)
            elif base in ('Lt', 'Le', 'Gt', 'Ge', 'Eq', 'Ne'):
                r = t_bool({'Lt': x < y, 'Le': x <= y, 'Gt': x > y, 'Ge': x >= y, 'Eq': x == y, 'Ne': x != y}[base])
        if a[0] == 'bool' and b[0] == 'bool':
            if base == 'Eq':
                r = t_bool(a[1] == b[1])
            elif base == 'Ne':
                r = t_bool(a[1] != b[1])
            elif base == 'BitAnd':
                r = t_bool(a[1] and b[1])
            elif base == 'BitOr':
                r = t_bool(a[1] or b[1])
        # x == true  -> x ; x == false -> !x
        if r is None and base in ('Eq', 'Ne') and (a[0] == 'bool' or b[0] == 'bool'):
            k, x = (a, b) if a[0] == 'bool' else (b, a)
            pos = (k[1] is True) == (base == 'Eq')
            r = x if pos else ('un', 'Not', x)
        if r is None and base in ('Eq', 'Ne'):
            # (x / N) * N == x  is the divisibility test  x % N == 0  (N a non-zero constant)
            for u, v in ((a, b), (b, a)):
                if u[0] == 'op' and u[1] == 'Mul' and len(u) == 4:
                    for q, n in ((u[2], u[3]), (u[3], u[2])):
                        if n[0] == 'int' and n[1] != 0 and q[0] == 'op' and q[1] == 'Div' and q[2] == v and q[3][0] == 'int' and q[3][1] == n[1]:
                            r = ('op', base, ('op', 'Rem', v, q[3]), ('int', 0) + tuple(n[2:]))
        if r is None:
            r = ('op', base, a, b)
        if wo:
            return ('agg', ('tuple',), (r, ('ovf', base, a, b)))
        return r

    def unop(self, op, a):
        if op == 'Not' and a[0] == 'bool':
            return t_bool(not a[1])
        if op == 'Not' and a[0] == 'un' and a[1] == 'Not':
            return a[2]
        if op == 'Neg' and a[0] == 'int':
            return ('int', -a[1], a[2])
        if op == 'PtrMetadata':
            return ('len', a)
        return ('un', op, a)

    def rvalue_cast(self, kind, v, ty):
        if v[0] == 'int' and kind == 'IntToInt':
            t = self.facts.ty(ty)
            if t.get('k') == 'int':
                w = t['bits']
                lo = -(1 << (w - 1)) if t['signed'] else 0
                return ('int', (v[1] - lo) % (1 << w) + lo, ty)
        return ('cast', kind, v, ty)

    def rvalue(self, st, frame, rv, body):
        k = rv[0]
        if k == 'use':
            return self.operand(st, frame, rv[1])
        if k == 'ref':
            return ('ref', self.resolve(st, frame, rv[2]))
        if k == 'rawptr':
            return ('ref', self.resolve(st, frame, rv[2]))
        if k == 'bin':
            op = rv[1]
            if self.policy.typed_floats:
                tys = set()
                for o in (rv[2], rv[3]):
                    if o[0] == 'c':
                        tys.add(o[1].get('ty'))
                    elif o[0] in ('cp', 'mv') and not o[1][1]:
                        tys.add(body['locals'][o[1][0]])
                if tys & {'f32', 'f64'}:
                    op = op + '.f'
                elif op == 'Shr' and rv[2][0] in ('cp', 'mv') and not rv[2][1][1] and body['locals'][rv[2][1][0]] in ('usize', 'u8', 'u16', 'u32', 'u64', 'u128'):
                    op = 'Shr.u'       # a logical shift of an unsigned value: the same as a division by a power of two
            return self.binop(op, self.operand(st, frame, rv[2]), self.operand(st, frame, rv[3]))
        if k == 'un':
            return self.unop(rv[1], self.operand(st, frame, rv[2]))
        if k == 'cast':
            v = self.operand(st, frame, rv[2])
            kind = rv[1]
            if kind.startswith('PointerCoercion') or kind in ('PtrToPtr', 'Transmute') and v[0] == 'ref':
                return v if v[0] in ('ref', 'fnitem', 'agg') else ('cast', kind, v, rv[3])
            if v[0] == 'int' and kind == 'IntToInt':
                t = self.facts.ty(rv[3])
                if t.get('k') == 'int':
                    w = t['bits']
                    lo = -(1 << (w - 1)) if t['signed'] else 0
                    return ('int', (v[1] - lo) % (1 << w) + lo, rv[3])
            return ('cast', kind, v, rv[3])
        if k == 'agg':
            kind = rv[1]
            vals = tuple(self.operand(st, frame, o) for o in rv[2])
            if kind[0] == 'tuple':
                return ('agg', ('tuple',), vals) if vals else UNIT
            if kind[0] == 'adt':
                return ('agg', ('adt', kind[1], kind[2], kind[3]), vals)
            if kind[0] == 'closure':
                if self.policy.subst_types and st.tys.get(frame):
                    st.tys[('closure', kind[2])] = st.tys[frame]
                return ('agg', ('closure', kind[1], kind[2]), vals)
            if kind[0] == 'array':
                return ('agg', ('array',), vals)
            if kind[0] == 'rawptr':
                return ('agg', ('rawptr',), vals)
            return ('agg', ('other', str(kind)), vals)
        if k == 'discr':
            v = self.read(st, self.resolve(st, frame, rv[1]))
            if v[0] == 'agg' and v[1][0] == 'adt':
                return ('int', v[1][2], 'isize')
            d = ('discr', v)
            n = self.variant_count(body, rv[1])
            if n:
                self.discr_variants[d] = n
            return d
        if k == 'repeat':
            return ('repeat', self.operand(st, frame, rv[1]), rv[2])
        if k == 'len':
            return ('len', self.read(st, self.resolve(st, frame, rv[1])))
        return ('rvalue', str(rv)[:80])

    def variant_count(self, body, place):
        local, proj = place
        ty = body['locals'][local]
        for p in proj:
            if isinstance(p, list) and p[0] == 'f':
                ty = p[2]
            elif p == '*':
                t = self.facts.ty(ty)
                ty = t.get('inner') if t.get('k') in ('ref', 'ptr') else None
            else:
                ty = None
            if ty is None:
                return None
        t = self.facts.ty(ty)
        if t.get('k') != 'adt':
            return None
        if t['path'] in ('core::option::Option', 'core::result::Result'):
            return 2
        a = self.facts.adts.get(t['path'])
        return len(a['variants']) if a and t.get('is_enum') else None

    # ------------------------------------------------------------ execution
    def summarize(self, body, args=None, store=None, frame=0, events=None, tys=None):
        """returns a list of path summaries (dicts); `store` pre-populates the state (closure bodies evaluated
        in the context of the path that created the closure); `events` pre-populates the trace so that event
        indices captured from that path keep their meaning; `tys` gives the type arguments of `body`"""
        self.npaths = 0
        st = State()
        if store:
            st.store = dict(store)
        if events:
            st.events = list(events)
        if tys:
            st.tys[frame] = dict(tys)
        st.nframes = frame + 1
        n = body['argc']
        args = args or [('param', i + 1) for i in range(n)]
        for i, a in enumerate(args):
            st.store[(('L', frame, i + 1), ())] = a
        out = []
        for st2, end, ret in self.exec(body, frame, 0, st, 0, (body['hash'],)):
            writes = {loc: v for loc, v in st2.store.items() if loc[0][0] == 'P'}
            out.append({'conds': st2.conds, 'events': st2.events, 'writes': writes, 'ret': ret, 'end': end, 'store': st2.store, 'tys': st2.tys})
        return out

    def exec(self, body, frame, bb, st, depth, stack):
        """generator of (state, end, return term); end = 'return' | ('panic', why) | ('back', header)"""
        blocks = body['blocks']
        loops = self.loop_info(body)
        steps = 0
        while True:
            steps += 1
            if steps > 3000:
                raise TooComplex('path too long in %s' % body['path'])
            if bb in loops:
                key = (frame, bb)
                if key in st.active:
                    carried = {}
                    for l in sorted(loops[bb]['assigned']):
                        loc = (('L', frame, l), ())
                        if any(r == loc[0] for (r, _q) in st.store):
                            carried[l] = self.read(st, loc)
                    st.events.append({'kind': 'loop-back', 'header': bb, 'frame': frame, 'carried': carried, 'fn': body['path']})
                    yield st, ('back', bb, frame), None
                    return
                st.active = st.active | {key}
                st.havocs += 1
                hv = st.havocs
                before = {}
                for l in sorted(loops[bb]['assigned']):
                    root = ('L', frame, l)
                    had = [(q, v) for (r, q), v in st.store.items() if r == root]
                    if had:
                        before[l] = self.read(st, (root, ()))
                    for (r, q) in list(st.store):
                        if r == root:
                            del st.store[(r, q)]
                    st.store[(root, ())] = ('phi', bb, hv, l)
                heap_before = {loc: v for loc, v in st.store.items() if loc[0][0] == 'P'}
                if loops[bb]['heapy']:
                    st.epoch = hv
                    for (r, q) in list(st.store):
                        if r[0] == 'P':
                            st.store[(r, q)] = ('phiheap', bb, hv, (r, q))
                live = {r[2]: v for (r, q), v in st.store.items() if r[0] == 'L' and r[1] == frame and not q}
                st.events.append({'kind': 'loop-enter', 'header': bb, 'frame': frame, 'before': before, 'fn': body['path'], 'hv': hv, 'live': live,
                                  'heap_before': heap_before})
            blk = blocks[bb]
            for s in blk['s']:
                if s[0] == '=':
                    val = self.rvalue(st, frame, s[2], body)
                    self.write(st, self.resolve(st, frame, s[1]), val)
                elif s[0] == 'setdiscr':
                    loc = self.resolve(st, frame, s[1])
                    self.write(st, loc, ('setdiscr', self.read(st, loc), s[2]))
                elif s[0] == 'copy_nonoverlapping':
                    st.events.append({'kind': 'copy_nonoverlapping', 'args': [self.operand(st, frame, x) for x in s[1:]], 'fn': body['path']})
                # assume / others: no effect on terms
            t = blk['t']
            k = t['k']
            if k == 'goto':
                bb = t['t']
            elif k == 'return':
                ret = self.read(st, (('L', frame, 0), ()))
                if ret[0] == 'uninit':
                    ret = UNIT
                yield st, 'return', ret
                return
            elif k == 'switch':
                d = self.decide(st, self.operand(st, frame, t['d']))
                val = None
                if d[0] == 'int':
                    val = d[1]
                elif d[0] == 'bool':
                    val = int(d[1])
                if val is not None:
                    bb = next((tb for v, tb in t['ts'] if int(v) == val), t['o'])
                    continue
                dty = self.facts.ty(t['dty'])
                isb = dty.get('k') == 'bool'
                excluded = st.facts.get(('ne', d), frozenset())
                listed = [int(v) for v, _ in t['ts']]
                branches = [(('is', v), tb) for v, tb in ((int(v), tb) for v, tb in t['ts']) if v not in excluded]
                # `otherwise`: infeasible for a bool with both values listed, or when it only leads to `unreachable`
                if not (isb and len(listed) == 2):
                    if blocks[t['o']]['t']['k'] != 'unreachable' or blocks[t['o']]['s']:
                        nvar = self.discr_variants.get(d)
                        if nvar is not None:
                            rest = [v for v in range(nvar) if v not in listed and v not in excluded]
                            if len(rest) == 1:
                                branches.append((('is', rest[0]), t['o']))
                            elif rest:
                                branches.append((('not', tuple(listed)), t['o']))
                        else:
                            branches.append((('not', tuple(listed)), t['o']))
                for cond, tb in branches:
                    self.npaths += 1
                    if self.npaths > self.max_paths:
                        raise TooComplex('more than %d paths in %s' % (self.max_paths, stack))
                    st2 = st.clone()
                    if cond[0] == 'is':
                        cv = t_bool(cond[1]) if isb else ('int', cond[1], t['dty'])
                        self.learn(st2, d, cv)
                        st2.conds.append((d, cv, t.get('l')))
                    else:
                        if isb and len(cond[1]) == 1:
                            cv = t_bool(not cond[1][0])
                            self.learn(st2, d, cv)
                            st2.conds.append((d, cv, t.get('l')))
                        else:
                            st2.facts[('ne', d)] = excluded | frozenset(cond[1])
                            st2.conds.append((d, ('notin', cond[1]), t.get('l')))
                    yield from self.exec(body, frame, tb, st2, depth, stack)
                return
            elif k == 'assert':
                c = self.decide(st, self.operand(st, frame, t['c']))
                if c[0] == 'bool':
                    if c[1] == t['e']:
                        bb = t['t']
                        continue
                    yield st, ('panic', 'assert ' + t['m']), None
                    return
                st.events.append({'kind': 'assert', 'cond': c, 'expected': t['e'], 'msg': t['m'], 'line': t.get('l'), 'fn': body['path'],
                                  'ops': [self.operand(st, frame, o) for o in t.get('mo', [])]})
                self.learn(st, c, t_bool(t['e']))
                bb = t['t']
            elif k == 'drop':
                bb = t['t']
            elif k == 'unreachable':
                yield st, ('panic', 'unreachable'), None
                return
            elif k == 'call':
                yield from self.do_call(body, frame, t, st, depth, stack)
                return
            else:
                yield st, ('panic', 'terminator ' + k), None
                return

    def decide(self, st, d):
        """use what earlier tests on this path established"""
        if d in st.facts:
            return st.facts[d]
        if d[0] == 'un' and d[1] == 'Not':
            v = self.decide(st, d[2])
            if v[0] == 'bool':
                return t_bool(not v[1])
        if d[0] == 'op' and d[1] in ('Eq', 'Ne') and d[3][0] == 'int':
            x, K = d[2], d[3]
            known = st.facts.get(x)
            if known is not None and known[0] == 'int':
                return t_bool((known[1] == K[1]) == (d[1] == 'Eq'))
            if K[1] in st.facts.get(('ne', x), ()):
                return t_bool(d[1] == 'Ne')
        return d

    def learn(self, st, d, cv):
        """record the outcome of a test; (x == K) being true/false also tells something about x"""
        st.facts[d] = cv
        if cv[0] == 'bool' and d[0] == 'op' and d[1] in ('Eq', 'Ne') and d[3][0] == 'int':
            x, K = d[2], d[3]
            if (d[1] == 'Eq') == cv[1]:
                st.facts[x] = K
            else:
                st.facts[('ne', x)] = st.facts.get(('ne', x), frozenset()) | {K[1]}
        if cv[0] == 'bool' and d[0] == 'un' and d[1] == 'Not':
            self.learn(st, d[2], t_bool(not cv[1]))

    def do_call(self, body, frame, t, st, depth, stack):
        callee = self.callee_types(st, frame, t['callee'])
        args = [self.operand(st, frame, a) for a in t['args']]
        dest = self.resolve(st, frame, t['dest'])

        def resume(st2, ret):
            self.write(st2, dest, ret)
            if t['t'] is None:
                yield st2, ('panic', 'diverging call'), None
                return
            yield from self.exec(body, frame, t['t'], st2, depth, stack)

        if callee is None:
            # call through a function pointer / closure value held in a local
            f = self.operand(st, frame, t['f']) if t.get('f') else ('unknown',)
            ev = {'kind': 'call', 'path': '<indirect>', 'callee': None, 'f': f, 'args': args, 'line': t.get('l'), 'fn': body['path']}
            st.events.append(ev)
            self.havoc_args(st, body, t, args, len(st.events) - 1)
            yield from resume(st, ('ret', len(st.events) - 1))
            return
        res = callee.get('res') or {}
        rpath = res.get('path') or callee['path']
        model = self.model(st, callee, rpath, args)
        if model is not None:
            yield from resume(st, model)
            return
        if self.policy.transparent and callee['path'] in ('core::cmp::min', 'core::cmp::max', 'core::cmp::Ord::min', 'core::cmp::Ord::max') \
                and callee['path'].startswith(self.policy.transparent) and len(args) == 2 and callee.get('args') and callee['args'][0] in INT_TYPES:
            # min / max of two integers, for a rule that asked to see through them: one path per outcome
            a, b = args
            cond = self.binop('Le', a, b)
            d = self.decide(st, cond)
            is_min = callee['path'].endswith('min')
            for truth in (True, False):
                if d[0] == 'bool' and d[1] != truth:
                    continue
                st2 = st.clone() if d[0] != 'bool' else st
                if d[0] != 'bool':
                    self.learn(st2, cond, t_bool(truth))
                    st2.conds.append((cond, t_bool(truth), t.get('l')))
                yield from resume(st2, (a if truth else b) if is_min else (b if truth else a))
            return
        target = None
        if res.get('hash'):
            target = self.facts.by_hash.get(res['hash'])
        if target is None and res.get('kind') is None and callee.get('trait') is None:
            target = self.facts.by_hash.get(callee['hash'])
        if target is None and self.policy.inline_core:
            ext = getattr(self.facts, 'extern_by_hash', {})
            if res.get('hash') and res.get('kind') == 'item':
                target = ext.get(res['hash'])
            if target is None and callee.get('trait') is None:
                target = ext.get(callee['hash'])
        if target is None and not self.policy.inline_core and (rpath.startswith(TRANSPARENT_CORE) or (self.policy.transparent and (rpath.startswith(self.policy.transparent) or callee['path'].startswith(self.policy.transparent)))):
            # spellings, not operations: `c.then(|| x)` is `if c { Some(x) } else { None }`
            target = getattr(self.facts, 'extern_by_hash', {}).get(res.get('hash') or callee['hash'])
        # closure values called through Fn* traits
        if target is None and callee.get('trait') in ('core::ops::function::FnMut', 'core::ops::function::Fn', 'core::ops::function::FnOnce') and args:
            cv = args[0]
            if cv[0] == 'ref':
                cv = self.read(st, cv[1])
            if cv[0] == 'agg' and cv[1][0] == 'closure':
                target = self.facts.by_hash.get(cv[1][2])
            if cv[0] == 'fnitem':
                target = self.facts.by_hash.get(cv[2])
                if target is not None and target['hash'] not in stack and depth < self.policy.max_depth:
                    spread = list(args[1][2]) if (len(args) > 1 and args[1][0] == 'agg') else ([] if len(args) > 1 and args[1] == UNIT else None)
                    if spread is not None:
                        yield from self.inline(target, spread, st, depth, stack, resume)
                        return
                if target is None and '::' in cv[1]:
                    # a pure trait method used as a value (`half_wave(frame, PartialOrd::lt)`): calling it is the direct call
                    tr, nm = cv[1].rsplit('::', 1)
                    if (tr, nm) in PURE_TRAIT_METHODS or tr in PURE_TRAITS:
                        spread = list(args[1][2]) if (len(args) > 1 and args[1][0] == 'agg') else None
                        if spread is not None:
                            pargs = [('refval', self.read(st, a[1])) if a[0] == 'ref' else a for a in spread] if self.policy.pure_ref_values else spread
                            yield from resume(st, ('app', cv[1], tuple(pargs), tuple(cv[3])))
                            return
                    elif tr in self.facts.traits or tr.startswith('core::iter::traits::'):
                        # any other trait method used as a value (`opt.map(Iterator::next)`): the call it denotes, as an event
                        spread = list(args[1][2]) if (len(args) > 1 and args[1][0] == 'agg') else None
                        if spread is not None:
                            callee = {'path': cv[1], 'name': nm, 'trait': tr, 'args': list(cv[3]), 'hash': cv[2], 'krate': tr.split('::', 1)[0], 'kind': 'AssocFn'}
                            args = spread
                            res = {}
                            rpath = cv[1]
                            t = dict(t, args=[['other', 'spread']] * len(spread))      # (no operand types for the spread arguments: every reference may be written through)
                target = None
        if target is not None and 'blocks' in target and target['hash'] not in stack and depth < self.policy.max_depth \
                and self.policy.may_inline(callee, target):
            cargs = args
            if target['kind'] == 'Closure':
                # rust-call ABI: (env, (a, b, ..)) -> env, a, b, ..
                if len(args) == 2 and args[1][0] == 'agg' and args[1][1][0] == 'tuple':
                    cargs = [args[0]] + list(args[1][2])
                elif len(args) == 2 and args[1] == UNIT:
                    cargs = [args[0]]
                # FnOnce::call_once on a closure whose body takes &mut self / &self
                envty = self.facts.ty(target['locals'][1])
                if envty.get('k') == 'ref' and cargs[0][0] != 'ref':
                    tmp = (('L', ('tmp', st.nframes), 0), ())
                    st.nframes += 1
                    st.store[tmp] = cargs[0]
                    cargs[0] = ('ref', tmp)
            yield from self.inline(target, cargs, st, depth, stack, resume, tyargs=(res.get('args') if res.get('hash') == target['hash'] else callee['args']))
            return
        # opaque call: an event
        pure = self.policy.is_pure(callee)
        ev = {'kind': 'call', 'path': callee['path'], 'rpath': rpath, 'callee': callee, 'args': args, 'line': t.get('l'),
              'fn': body['path'], 'pure': pure, 'trait': callee.get('trait'), 'name': callee['name']}
        if self.policy.record_ref_values and not pure:
            ev['refvals'] = {i: self.read(st, a[1]) for i, a in enumerate(args) if a[0] == 'ref'}
        st.events.append(ev)
        k = len(st.events) - 1
        if pure:
            pargs = args
            if self.policy.pure_ref_values:
                # (the length of a slice is a property of the fat pointer itself, not of what it points to)
                if rpath not in ('core::slice::<impl [T]>::len', 'core::slice::<impl [T]>::is_empty'):
                    pargs = [('refval', self.read(st, a[1])) if a[0] == 'ref' else a for a in args]
            ret = ('app', rpath if res else (callee.get('trait') or '') + '::' + callee['name'], tuple(pargs), tuple(callee['args']))
        else:
            ret = ('ret', k)
            self.havoc_args(st, body, t, args, k)
        ev['result'] = ret
        yield from resume(st, ret)

    @staticmethod
    def subst_ty(mapping, ty):
        if not mapping or not isinstance(ty, str):
            return ty
        def rep(m):
            return mapping.get(m.group(0), m.group(0))
        return _IDENT.sub(rep, ty)

    _PROJ = re.compile(r"<([^<>]+) as ([A-Za-z_][\w:]*)>::([A-Za-z_]\w*)")

    def normalize_ty(self, ty):
        """resolve projections `<Concrete as Trait>::Name` through the impl table (innermost first)"""
        if not isinstance(ty, str) or ' as ' not in ty:
            return ty
        cache = self.__dict__.setdefault('_assoc', None)
        if cache is None:
            cache = {}
            for i in self.facts.impls:
                if i.get('trait'):
                    for it in i['items']:
                        if it.get('kind') == 'type' and it.get('ty'):
                            cache[(i['self_ty'], i['trait'], it['name'])] = it['ty']
            self._assoc = cache
        for _ in range(8):
            def rep(m):
                return cache.get((m.group(1), m.group(2), m.group(3)), m.group(0))
            new = self._PROJ.sub(rep, ty)
            if new == ty:
                break
            ty = new
        return ty

    def callee_types(self, st, frame, callee):
        """the callee record with its type arguments expressed in the root function's parameters"""
        mp = st.tys.get(frame)
        if not self.policy.subst_types or not mp or callee is None:
            return callee
        c2 = dict(callee)
        c2['args'] = [self.normalize_ty(self.subst_ty(mp, a)) for a in callee['args']]
        if c2.get('self_ty'):
            c2['self_ty'] = self.normalize_ty(self.subst_ty(mp, c2['self_ty']))
        if callee.get('res'):
            r2 = dict(callee['res'])
            r2['args'] = [self.normalize_ty(self.subst_ty(mp, a)) for a in callee['res']['args']]
            c2['res'] = r2
        return c2

    def inline(self, target, cargs, st, depth, stack, resume, tyargs=None):
        if target.get('crate') != '<extern>' and not any(b is target for b in self.inlined_bodies):
            self.inlined_bodies.append(target)
            if not self.policy.inline_core:      # (the equivalence engine's own inlining is not a rule looking at the body)
                examined.note(target)
        nf = st.nframes
        st.nframes += 1
        if self.policy.subst_types:
            gens = [g for g in (target.get('generics') or []) if not g.startswith("'")]
            if target['kind'] == 'Closure':
                st.tys[nf] = st.tys.get(('closure', target['hash']), {})
            elif tyargs is not None and len(gens) == len(tyargs):
                st.tys[nf] = dict(zip(gens, tyargs))
            else:
                st.tys[nf] = {}
        for i, a in enumerate(cargs):
            st.store[(('L', nf, i + 1), ())] = a
        for st2, end, ret in self.exec(target, nf, 0, st, depth + 1, stack + (target['hash'],)):
            if end == 'return':
                yield from resume(st2, ret)
            else:
                yield st2, end, ret

    def havoc_args(self, st, body, t, args, k):
        """an opaque call may write through every &mut argument (mutability taken from the operand's type)"""
        for i, a in enumerate(args):
            if a[0] != 'ref':
                continue
            op = t['args'][i]
            if op[0] in ('cp', 'mv') and not op[1][1]:
                ty = self.facts.ty(body['locals'][op[1][0]])
                if ty.get('k') in ('ref', 'ptr') and not ty.get('mut'):
                    continue
            loc = a[1]
            root, path = loc
            done = False
            # remember what the pointee held before the call (iterator creation terms, etc.)
            st.events[k].setdefault('pre', {})[i] = self.read(st, loc)
            for (r, q) in list(st.store):
                if r != root:
                    continue
                if self._is_prefix(q, path) and q != path:
                    st.store[(r, q)] = self.update_in(st.store[(r, q)], path[len(q):], ('mut', k, i))
                    done = True
                elif self._is_prefix(path, q):
                    del st.store[(r, q)]
            if not done:
                st.store[loc] = ('mut', k, i)

    # ------------------------------------------------------------ models of core accessors
    def model(self, st, callee, rpath, args):
        name = callee['name']
        p = callee['path']
        if p in ('core::cell::RefCell::<T>::borrow_mut', 'core::cell::RefCell::<T>::borrow'):
            a = args[0]
            loc = a[1] if a[0] == 'ref' else (('P', a), ())
            return ('guard', (loc[0], loc[1] + (('cell',),)))
        if rpath in ("<core::cell::RefMut<'_, T> as core::ops::deref::Deref>::deref", "<core::cell::RefMut<'_, T> as core::ops::deref::DerefMut>::deref_mut",
                     "<core::cell::Ref<'_, T> as core::ops::deref::Deref>::deref"):
            a = args[0]
            if a[0] == 'ref':
                g = self.read(st, a[1])
                if g[0] == 'guard':
                    return ('ref', g[1])
            return None
        if rpath in ('<core::mem::manually_drop::ManuallyDrop<T> as core::ops::deref::Deref>::deref',
                     '<core::mem::manually_drop::ManuallyDrop<T> as core::ops::deref::DerefMut>::deref_mut') and args[0][0] == 'ref':
            return ('ref', (args[0][1][0], args[0][1][1] + (('f', 0),)))      # a transparent wrapper: the reference to its only field
        if rpath.startswith('<alloc::rc::Rc<T') and name == 'deref':
            a = args[0]
            v = self.read(st, a[1]) if a[0] == 'ref' else ('deref', a)
            return ('ref', (('P', ('rcptr', v)), ()))
        if p == 'core::slice::<impl [T]>::len' and args[0][0] == 'ref':
            # the length of a slice made by from_raw_parts(ptr, n) is n
            loc = args[0][1]
            if loc[0][0] == 'P' and not loc[1] and loc[0][1][0] == 'ret':
                ev = st.events[loc[0][1][1]]
                if ev['kind'] == 'call' and ev['path'] in ('core::slice::raw::from_raw_parts', 'core::slice::raw::from_raw_parts_mut'):
                    return ev['args'][1]
            return None
        if p.startswith(('core::ptr::const_ptr::<impl *const T>::', 'core::ptr::mut_ptr::<impl *mut T>::')) and name in ('cast', 'cast_mut', 'cast_const') and len(args) == 1:
            # the method spellings of `ptr as *const U` / `as *mut T` / `as *const T`
            mut = ('mut' if 'mut_ptr' in p else 'const') if name == 'cast' else ('mut' if name == 'cast_mut' else 'const')
            tys = callee.get('args') or []
            pointee = tys[1] if name == 'cast' and len(tys) > 1 else (tys[0] if tys else '_')
            return ('cast', 'PtrToPtr', args[0], '*%s %s' % (mut, pointee))
        if p.startswith('core::num::<impl ') and name in ('cast_signed', 'cast_unsigned') and len(args) == 1:
            # the method spellings of `x as iN` / `x as uN` between the two integer types of one width
            ty = p[len('core::num::<impl '):].split('>')[0]
            if ty in INT_TYPES:
                return self.rvalue_cast('IntToInt', args[0], ('i' if name == 'cast_signed' else 'u') + ty[1:])
        if p.startswith('core::num::<impl u') and name == 'wrapping_add_signed' and len(args) == 2:
            # x.wrapping_add_signed(d)  is  (x as iN).wrapping_add(d) as uN: the value of the MIR `Add` (which wraps; the
            # overflow check of `+` is a separate assertion)
            ty = p[len('core::num::<impl '):].split('>')[0]
            if ty in INT_TYPES:
                sty = 'i' + ty[1:]
                return self.rvalue_cast('IntToInt', self.binop('Add', self.rvalue_cast('IntToInt', args[0], sty), args[1]), ty)
        if name in ('from', 'into') and callee.get('trait') in ('core::convert::From', 'core::convert::Into') and len(args) == 1 and len(callee.get('args') or []) >= 2:
            # the lossless conversions between primitive numbers are the `as` casts
            targs = callee['args']
            dst, src = (targs[0], targs[1]) if name == 'from' else (targs[1], targs[0])
            if src in INT_TYPES and dst in INT_TYPES:
                return self.rvalue_cast('IntToInt', args[0], dst)
            if src in INT_TYPES and dst in ('f32', 'f64'):
                return ('cast', 'IntToFloat', args[0], dst)
            if src == 'f32' and dst == 'f64':
                return ('cast', 'FloatToFloat', args[0], dst)
            if src == 'bool' and dst in INT_TYPES:
                return ('cast', 'IntToInt', args[0], dst)
        if name == 'recip' and len(args) == 1 and p in ('core::f64::<impl f64>::recip', 'std::f64::<impl f64>::recip', 'core::f32::<impl f32>::recip', 'std::f32::<impl f32>::recip'):
            # x.recip() is defined as 1.0 / x
            one = ('float', 0x3FF0000000000000, 64) if 'f64' in p else ('float', 0x3F800000, 32)
            return self.binop('Div.f' if self.policy.typed_floats else 'Div', one, args[0])
        if name == 'midpoint' and len(args) == 2 and re.match(r'^core::num::<impl u(8|16|32|64|128|size)>::midpoint$', p):
            # the overflow-free floor((a + b) / 2) of two unsigned integers, as a value
            return self.binop('Shr', self.binop('Add', args[0], args[1]), ('int', 1, 'i32'))
        if p in ('core::ptr::from_mut', 'core::ptr::from_ref') and len(args) == 1:
            return args[0]          # `ptr::from_mut(r)` is `r as *mut _`: the same address (references and raw pointers share one term)
        if name == 'into_iter' and rpath == '<I as core::iter::traits::collect::IntoIterator>::into_iter':
            return args[0]          # the blanket impl for iterators is the identity
        if p == 'core::option::Option::<T>::take' and args[0][0] == 'ref':
            loc = args[0][1]
            v = self.read(st, loc)
            self.write(st, loc, ('agg', ('adt', 'core::option::Option', 0, 'None'), ()))
            return v
        if p == 'core::mem::replace' and args[0][0] == 'ref':
            loc = args[0][1]
            v = self.read(st, loc)
            self.write(st, loc, args[1])
            return v
        if p == 'core::mem::swap' and args[0][0] == 'ref' and args[1][0] == 'ref':
            a, b = self.read(st, args[0][1]), self.read(st, args[1][1])
            self.write(st, args[0][1], b)
            self.write(st, args[1][1], a)
            return UNIT
        if p in ('core::option::Option::<T>::as_ref', 'core::option::Option::<T>::as_mut') and args[0][0] == 'ref':
            v = self.read(st, args[0][1])
            if v[0] == 'agg' and v[1][0] == 'adt':
                if v[1][2] == 0:
                    return v
                inner = (args[0][1][0], args[0][1][1] + (('d', 1), ('f', 0)))
                return ('agg', ('adt', 'core::option::Option', 1, 'Some'), (('ref', inner),))
            # an option whose variant an earlier test on this path has already established
            isnone = self.decide(st, ('op', 'Eq', ('discr', v), ('int', 0, 'isize')))
            if isnone == t_bool(True):
                return ('agg', ('adt', 'core::option::Option', 0, 'None'), ())
            if isnone == t_bool(False):
                inner = (args[0][1][0], args[0][1][1] + (('d', 1), ('f', 0)))
                return ('agg', ('adt', 'core::option::Option', 1, 'Some'), (('ref', inner),))
            return None
        if p in ('core::option::Option::<T>::is_none', 'core::option::Option::<T>::is_some') and args[0][0] == 'ref':
            v = self.read(st, args[0][1])
            if v[0] == 'agg' and v[1][0] == 'adt':
                return t_bool((v[1][2] == 0) == (name == 'is_none'))
            d = ('op', 'Eq', ('discr', v), ('int', 0 if name == 'is_none' else 1, 'isize'))
            return d
        return None
