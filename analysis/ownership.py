"""Completeness: every function of the library crates belongs to one property, and a function that no specific rule of
that property examines is still held to its reference behaviour.

The specific rules describe the functions the property statements name.  Around them sit thin public functions that
users reach just the same -- delegating setters (`DetectEnvelope::set_release_frames`), builder constructors
(`ConstHz::sine`), accessors (`Converter::source_mut`), hand-written `Clone` impls.  No rule mentions them, so a change
there would go unseen.  After a property's rules have run, every function it owns (table below) that none of them
evaluated is compared with the reference tree (analysis/equiv.py): provably equivalent -> fine; otherwise the check
reports, as UNPROVEN, that the function's behaviour changed and that no rule describes it.  A function the reference does
not know (new API) is only noted -- except for overrides of provided trait methods, which the inventories report."""
import re

import equiv
import examined

DERIVE_TRAITS = ('core::clone::Clone', 'core::fmt::Debug', 'core::cmp::PartialEq', 'core::cmp::Eq', 'core::hash::Hash', 'core::cmp::PartialOrd',
                 'core::cmp::Ord', 'core::marker::Copy', 'core::marker::StructuralPartialEq', 'core::default::Default')
CRATES = ('dasp_sample', 'dasp_frame', 'dasp_slice', 'dasp_ring_buffer', 'dasp_peak', 'dasp_rms', 'dasp_envelope', 'dasp_interpolate', 'dasp_window',
          'dasp_signal', 'dasp_graph')

# first match wins; matched against the function path
OWNERS = [
    (r'dasp_sample::conv::f(32|64)::|dasp_sample::conv::\w+::to_f(32|64)$', 'C02'),
    (r'dasp_sample::conv::|conv::(From|To)Sample|conv::Duplex', 'C01'),
    (r'dasp_sample::types::', 'C15'),
    (r'dasp_sample::ops::|FloatSample', 'C11'),
    (r'dasp_sample::', 'C03'),
    (r'dasp_frame::', 'C03'),
    (r'dasp_slice::', 'C10'),
    (r'dasp_ring_buffer::', 'C06'),
    (r'dasp_peak::|dasp_envelope::', 'C19'),
    (r'dasp_rms::', 'C11'),
    (r'dasp_window::', 'C20'),
    (r'dasp_interpolate::sinc', 'C18'),
    (r'dasp_interpolate::', 'C08'),
    (r'dasp_graph::node::|dasp_graph::buffer::', 'C16'),
    (r'dasp_graph::', 'C09'),
    (r'dasp_signal::bus::|Signal::bus$|SignalBus', 'C13'),
    (r'dasp_signal::envelope::|SignalEnvelope', 'C19'),
    (r'dasp_signal::rms::|SignalRms', 'C11'),
    (r'dasp_signal::window::', 'C20'),
    (r'dasp_signal::interpolate::|dasp_signal::MulHz|Signal::(from_hz_to_hz|scale_hz|mul_hz)$', 'C08'),
    (r'dasp_signal::ops::', 'C17'),
    (r'dasp_signal::(Fork|Branch)|Signal::fork$', 'C12'),
    (r'dasp_signal::Buffered|Signal::buffered$', 'C14'),
    (r'dasp_signal::(FromIterator|FromInterleavedSamplesIterator|IntoInterleavedSamples|UntilExhausted|Take)|dasp_signal::(from_iter|from_interleaved_samples_iter|lift)$|'
     r'Signal::(take|until_exhausted|into_interleaved_samples|is_exhausted|by_ref)$', 'C05'),
    (r'dasp_signal::(Rate|Hz|ConstHz|Phase|Sine|Saw|Square|Noise|NoiseSimplex|Gen|GenMut|Equilibrium|Step)\b|dasp_signal::(rate|phase|sine|saw|square|noise|noise_simplex|gen|gen_mut|equilibrium)$', 'C17'),
    (r'dasp_signal::', 'C04'),
]
OWNERS = [(re.compile(p), o) for p, o in OWNERS]
# properties whose own rules decide, for every input, which run-time checks can fire (exact abstract interpretation)
PANIC_AWARE = ('C01', 'C02', 'C06', 'C10', 'C15')
NOSTD_CODE = ('C11', 'C17', 'C18', 'C19', 'C20')      # dasp_sample::ops, dasp_signal::ops, sinc::ops, detect::ops, hann::ops
IMPLICIT_TRAITS = ('core::ops::drop::Drop', 'core::ops::deref::Deref', 'core::ops::deref::DerefMut')
NOT_SPECIFIC = re.compile(r'^(heap\.|dep\.|rms\.precision$|coverage\.)|inventory')


def owner_of(path):
    for rx, o in OWNERS:
        if rx.search(path):
            return o
    return None


def library_bodies(facts):
    derived = {(i['trait'], i['self_ty']) for i in facts.impls if i.get('derived') and i.get('trait')}
    for p, b in facts.bodies.items():
        if b['kind'] == 'Closure' or b['crate'] not in CRATES:
            continue
        imp = b.get('impl') or {}
        if imp.get('trait') in DERIVE_TRAITS and (imp['trait'], imp['self_ty']) in derived and imp['trait'] not in ('core::clone::Clone', 'core::default::Default'):
            continue        # (derived Clone / Default stay in: they create the state the properties talk about, and may be replaced by hand-written impls)
        yield p, b


def panic_signatures(summary):
    """the implicit arithmetic checks a function can fail: kind of check with the integer types its condition mentions"""
    import json as _json
    out = set()

    def types(t, acc):
        if isinstance(t, list):
            if len(t) == 3 and t[0] in ('int', 'float') and isinstance(t[2], (str, int)):
                acc.add(str(t[2]))
            if len(t) == 4 and t[0] == 'cast' and isinstance(t[3], str):
                acc.add(t[3])
            for x in t:
                types(x, acc)
    def visit(paths):
        for p in paths or []:
            for e in p.get('events', []):
                # the checks the COMPILER inserts (overflow, division by zero): invisible in the source, and exactly what a
                # narrower integer type changes.  Explicit assert! / expect / bounds checks are deliberate and visible.
                if e and e[0] == 'assert' and str(e[3]).startswith(('Overflow', 'DivisionByZero', 'RemainderByZero')):
                    acc = set()
                    types(e[1], acc)
                    out.add('%s[%s]' % (e[3], ','.join(sorted(acc))))
    visit(summary.get('paths'))
    for c in summary.get('closures') or []:
        visit(c)
    return out


def constructed_adts(body):
    """paths of the struct / enum types of which the body builds a value (MIR aggregates)"""
    out = set()
    for blk in body.get('blocks') or []:
        for st in blk['s']:
            if st[0] == '=' and st[2][0] == 'agg' and st[2][1][0] == 'adt':
                out.add(st[2][1][1])
    return out


def mutated_adts(facts, body):
    """existing-type state a body can change through a `&mut` argument: paths of the ADTs T such that an argument has type
    `&mut T` and the body either writes a field of it or takes a `&mut` to (part of) it (which it may hand out)"""
    args = {}
    for i in range(1, body.get('argc', 0) + 1):
        t = facts.ty(body['locals'][i])
        if t.get('k') == 'ref' and t.get('mut'):
            inner = facts.ty(t.get('inner'))
            if inner.get('k') == 'adt':
                args[i] = inner['path']
    if not args:
        return set()
    # locals that are copies / reborrows of such an argument
    alias = dict(args)
    changed = True
    while changed:
        changed = False
        for blk in body.get('blocks') or []:
            for st in blk['s']:
                if st[0] != '=' or st[1][1]:
                    continue
                rv = st[2]
                src = None
                if rv[0] == 'use' and rv[1][0] in ('cp', 'mv') and not rv[1][1][1]:
                    src = rv[1][1][0]
                elif rv[0] == 'ref' and rv[1] and rv[2][1] == ['*']:
                    src = rv[2][0]
                if src in alias and st[1][0] not in alias:
                    alias[st[1][0]] = alias[src]
                    changed = True
    out = set()
    for blk in body.get('blocks') or []:
        for st in blk['s']:
            if st[0] != '=':
                continue
            pl = st[1]
            if pl[0] in alias and pl[1] and pl[1][0] == '*' and len(pl[1]) > 1:
                out.add(alias[pl[0]])                     # *arg.field = ..
            rv = st[2]
            if rv[0] == 'ref' and rv[1] and rv[2][0] in alias and rv[2][1] and rv[2][1][0] == '*' and len(rv[2][1]) > 1:
                out.add(alias[rv[2][0]])                  # &mut (*arg).field
    return out


def check_uncovered(run, prop, loader, configs=('std-debug',)):
    evaluated = {fn for r, fn, _, _ in run.instances if not NOT_SPECIFIC.search(r)}
    inlined = set(examined.INLINED)
    for cfg in configs:
        facts = loader.cache.get(cfg) or loader(cfg, optional=(cfg == 'nostd'))
        if facts is None:
            continue
        # private helpers a rule interpreted as part of the function it is about (examined.py)
        helpers = {p for p in inlined if (facts.body(p) or {}).get('pub') is False}
        run.analysed['coverage.inlined-private-helpers:%s' % cfg] = len(helpers - evaluated)
        evaluated = evaluated | helpers
        ref = equiv.reference(cfg)
        n = new = 0
        for p, b in sorted(library_bodies(facts)):
            if owner_of(p) != prop or p in evaluated:
                continue
            r = ref.get(p)
            if r is None:
                new += 1
                # a NEW function that callers outside the crate can reach (pub, or a method of a trait impl) and that BUILDS a
                # value of a type that already existed: whatever the rules establish at that type's known constructors
                # (unique keys, index invariants, primed buffers) is not established here
                built = sorted(constructed_adts(b) & set((ref.get('#meta') or {}).get('adts') or {}))
                if built and (b.get('pub') is True or p.startswith('<')) and b.get('kind') != 'Closure':
                    run.unproven('coverage.new-constructor', p, cfg, 'a new function reachable from outside the crate builds a value of the existing type %s, and no rule of this '
                                 'check describes it: the invariants established where that type is constructed today are not established here' % ', '.join(built),
                                 where=b.get('span'))
                # ... or that can CHANGE a value of such a type from outside (a new setter, a `_mut` accessor handing out internal
                # state): the invariants the rules maintain across the known mutators are not maintained here
                touched = sorted(mutated_adts(facts, b) & set((ref.get('#meta') or {}).get('adts') or {})) if not built else []
                if touched and (b.get('pub') is True or p.startswith('<')) and b.get('kind') != 'Closure':
                    run.unproven('coverage.new-mutator', p, cfg, 'a new function reachable from outside the crate writes, or hands out `&mut` access to, the fields of the existing '
                                 'type %s, and no rule of this check describes it' % ', '.join(touched), where=b.get('span'))
                continue
            n += 1
            # callees that are not inlined (recursion, depth) are vouched for separately: each is examined by a rule of its
            # own property or compared with the reference right here
            ok, why = equiv.equivalent(r, equiv.summarize(facts, p), trust_callees=True)
            if not ok and (ref.get('#shallow') or {}).get(p) is not None:
                # compositional: the function's own body is what it was, and what it calls is vouched for separately
                ok2, _ = equiv.equivalent(ref['#shallow'][p], equiv.summarize(facts, p, shallow=True), trust_callees=True)
                ok = ok2
            if ok:
                run.ok('coverage.reference', p, cfg, nontrivial=False)
            else:
                run.unproven('coverage.reference', p, cfg, 'no rule of this check describes this function, and its behaviour is not provably that of the reference '
                             'implementation any more (%s)' % why, where=(b.get('span') or '').split(':')[0] + ':' + str((b.get('span') or ':0').split(':')[1]) if b.get('span') else None)
        run.analysed['coverage.reference:%s' % cfg] = n
        # panic surface of the functions the rules DO examine: most rules read the returning paths; a run-time check that did
        # not exist on the reference tree (an overflow check on a narrower type, a new bounds check, a new unwrap) is a new
        # way for the call not to return at all.  If the function acquired one, it must be provably equivalent to the reference.
        np_ = 0
        for p in sorted(evaluated if prop not in PANIC_AWARE else ()):
            b = facts.body(p)
            if b is None or b.get('crate') not in CRATES or owner_of(p) != prop:
                continue
            r = ref.get(p)
            if r is None:
                continue
            cur = equiv.summarize(facts, p)
            if cur is None:
                continue
            np_ += 1
            new_sigs = panic_signatures(cur) - panic_signatures(r)
            if new_sigs and not equiv.equivalent(r, cur, trust_callees=True)[0]:
                run.unproven('coverage.panic-surface', p, cfg, 'can fail a run-time check that the reference implementation does not have (%s), and is not provably equivalent to it: '
                             'a call that used to return may now panic' % '; '.join(sorted(new_sigs))[:300], where=b.get('span'))
        run.analysed['coverage.panic-surface:%s' % cfg] = np_
        # a NEW impl of a trait that acts implicitly, on a type that already existed: `Drop` runs at every scope end, `Deref`
        # reroutes method calls -- behaviour of existing code changes although no existing function did
        meta = ref.get('#meta') or {}
        ref_impls = {tuple(x) for x in meta.get('impls') or []}
        if ref_impls:
            for i in facts.impls:
                tr = i.get('trait')
                if tr not in IMPLICIT_TRAITS:
                    continue
                adt = facts.ty(i['self_ty']).get('path') or i['self_ty']
                if adt not in (meta.get('adts') or {}) or (tr, adt) in ref_impls:
                    continue
                for it in i.get('items', []):
                    fp = it.get('path')
                    if fp and facts.body(fp) is not None and owner_of(fp if not fp.startswith('<') else fp) == prop:
                        run.unproven('coverage.new-impl', fp, cfg, 'a new `impl %s for %s`: it acts on every value of an existing type without being called, '
                                     'and no rule of this check describes it' % (tr.rsplit('::', 1)[-1], adt), where=(facts.body(fp).get('span') or None))
        if new:
            run.note('%d function(s) of this property\'s code are unknown to the reference tree (new API); they are covered only by the inventories' % new)
