"""Cross-property dependencies.

A property inherits the obligations of the repository code that its own functions call: the adaptors of C04 are only
pointwise if `Frame::add_amp` is (C03) and if the conversions behind `to_sample` are exact (C01/C02).  After a
property's own rules have run, `apply()`

  1. takes as roots every function body that the property's rules evaluated (the function keys of its instances),
  2. closes them under resolved calls, closure construction and -- for trait-method calls that stay generic --
     every implementation of that method in the workspace (class-hierarchy style over-approximation),
  3. runs the quick tier of each property listed in DEPS for it (cached per source tree and checker version), and
  4. imports the instances whose function key lies in the closure, filed under `dep.<Cyy>.<rule>`.

An instance of the dependency about a function the property cannot reach is *not* imported, so breaking such a function
raises no alarm for this property."""
import hashlib
import importlib
import json
import os
import re

import facts as factsmod
from report import Run
from rules.common import callee_closure

DEPS = {
    'C03': ['C01', 'C02'],
    'C04': ['C03', 'C01', 'C02'],
    'C05': ['C03'],
    'C08': ['C03', 'C01', 'C02'],
    'C10': ['C03'],
    'C11': ['C03', 'C01', 'C02'],
    'C17': ['C03', 'C01', 'C02'],
    'C18': ['C03', 'C01', 'C02'],
    'C19': ['C03', 'C01', 'C02'],
    'C20': ['C03', 'C01', 'C02'],
}


# C04 evaluates pull counts and constructors of *every* Signal impl; its statement is about these adaptors only
ROOT_FILTER = {
    'C04': re.compile(r"^(<(&'a mut S|dasp_signal::(AddAmp|MulAmp|ScaleAmp|OffsetAmp|ScaleAmpPerChannel|OffsetAmpPerChannel|ClipAmp|Inspect|Map|ZipMap|Delay)<[^>]*>) as dasp_signal::Signal>::\w+"
                      r"|dasp_signal::Signal::(add_amp|mul_amp|scale_amp|offset_amp|scale_amp_per_channel|offset_amp_per_channel|clip_amp|inspect|map|zip_map|delay))$"),
    # C05 evaluates is_exhausted of every Signal impl; what its statement needs from frames is what the iterator-backed
    # sources and the interleaved-sample sink do with them (from_samples, EQUILIBRIUM, channels)
    'C05': re.compile(r".*(FromIterator|FromInterleavedSamplesIterator|IntoInterleavedSamples|UntilExhausted|dasp_signal::Take|::from_iter$|::from_interleaved_samples_iter$|::into_interleaved_samples$|::until_exhausted$|::take$)"),
}


def _code_version():
    h = hashlib.sha256()
    base = os.path.dirname(os.path.abspath(__file__))
    for root, dirs, files in os.walk(base):
        dirs[:] = sorted(d for d in dirs if d != '__pycache__')
        for f in sorted(files):
            if f.endswith('.py'):
                h.update(f.encode())
                with open(os.path.join(root, f), 'rb') as fh:
                    h.update(fh.read())
    return h.hexdigest()[:16]


def _dep_result(dep, loader):
    """instances and findings of the dependency's quick tier on the current tree"""
    cdir = os.path.join(factsmod.CACHE, 'deps', factsmod.tree_hash())
    cfile = os.path.join(cdir, '%s-%s.json' % (dep, _code_version()))
    if os.path.exists(cfile):
        try:
            with open(cfile) as fh:
                return json.load(fh)
        except (OSError, ValueError):
            pass
    mod = importlib.import_module('rules.' + dep)
    sub = Run(dep, 'quick', mod.LEVEL, '')
    mod.run(sub, 'quick', loader)
    # the dependency's verdict is what its own check would say: failures withdrawn by equivalence with the reference are
    # withdrawn here too
    import equiv
    equiv.second_chance(sub, loader)
    res = {'instances': [list(i) for i in sub.instances], 'findings': sub.findings, 'configs': sub.configs}
    try:
        os.makedirs(cdir, exist_ok=True)
        # keep the cache small: results of at most eight trees
        base = os.path.dirname(cdir)
        ents = sorted((os.path.getmtime(os.path.join(base, d)), d) for d in os.listdir(base))
        for _, d in ents[:-8]:
            if os.path.join(base, d) != cdir:
                import shutil
                shutil.rmtree(os.path.join(base, d), ignore_errors=True)
        tmp = cfile + '.%d' % os.getpid()
        with open(tmp, 'w') as fh:
            json.dump(res, fh, default=str)
        os.replace(tmp, cfile)
    except OSError:
        pass
    return res


SAMPLE = 'dasp_sample::Sample'
DISPATCH_LAYER = ('dasp_sample::Sample::to_sample', 'dasp_sample::Sample::from_sample', '<T as dasp_sample::conv::ToSample<U>>::to_sample_')
ALIAS = re.compile(r'^<(.+) as dasp_sample::Sample>::(Signed|Float)$')
CONV_FN = re.compile(r'^dasp_sample::conv::(\w+)::to_(\w+)$')
CONV_IMPL = re.compile(r'^<(.+) as dasp_sample::conv::FromSample<(.+)>>::from_sample_$')


def conversion_pairs(fx, used):
    """(source format, target format) pairs that the bodies in `used` can convert between.  Every conversion call site
    outside the dispatch layer names its two formats as patterns over one format variable V:  V, Signed(V), Float(V)
    or a concrete format.  Instantiating V over the 14 formats (with the Signed / Float table of the Sample impls)
    gives the reachable pairs; a site with two unrelated variables contributes all pairs of their instantiations."""
    from rules import formats as FM
    table = {}
    for i in fx.impls_of(SAMPLE):
        f = FM.fmt_of_type(i['self_ty'])
        items = {it['name']: it for it in i['items']}
        if f and 'Signed' in items and 'Float' in items:
            table[f] = {'Signed': FM.fmt_of_type(items['Signed']['ty']), 'Float': FM.fmt_of_type(items['Float']['ty'])}
    fmts = sorted(table)

    def parse(t):
        """-> (variable name | None, function from the variable's format to this type's format)"""
        f = FM.fmt_of_type(t)
        if f:
            return None, (lambda v, f=f: f)
        m = ALIAS.match(t)
        if m:
            var, g = parse(m.group(1))
            which = m.group(2)
            return var, (lambda v, g=g, which=which: table.get(g(v), {}).get(which))
        return t, (lambda v: v)

    pairs = set()
    sites = 0
    for path in used:
        if path in DISPATCH_LAYER:
            continue
        b = fx.body(path)
        for blk in b['blocks']:
            t = blk['t']
            if t['k'] != 'call' or not t.get('callee'):
                continue
            c = t['callee']
            a = c['args']
            if c['path'] == 'dasp_sample::Sample::to_sample' or c['path'] == 'dasp_sample::conv::ToSample::to_sample_':
                src, dst = a[0], a[1]
            elif c['path'] == 'dasp_sample::Sample::from_sample' or c['path'] == 'dasp_sample::conv::FromSample::from_sample_':
                src, dst = a[1], a[0]
            elif c['path'] == 'dasp_sample::Sample::to_signed_sample':
                src, dst = a[0], '<%s as dasp_sample::Sample>::Signed' % a[0]
            elif c['path'] == 'dasp_sample::Sample::to_float_sample':
                src, dst = a[0], '<%s as dasp_sample::Sample>::Float' % a[0]
            else:
                continue
            sites += 1
            (v1, f1), (v2, f2) = parse(src), parse(dst)
            for x in (fmts if v1 is not None else [None]):
                for y in ([x] if (v2 == v1 or v2 is None) else fmts):
                    p, q = f1(x), f2(y if v2 is not None else x)
                    if p and q:
                        pairs.add((p, q))
    return pairs, sites


def apply(run, prop, tier, loader):
    deps = DEPS.get(prop)
    if not deps:
        return
    fx = loader('std-debug')
    roots = sorted({fn for _, fn, _, _ in run.instances if fx.body(fn) is not None})
    if prop in ROOT_FILTER:
        roots = [r for r in roots if ROOT_FILTER[prop].match(r)]
    used = callee_closure(fx, roots, cha=True)
    run.analysed['dep.roots'] = len(roots)
    run.analysed['dep.closure'] = len(used)
    pairs, sites = conversion_pairs(fx, used)
    run.analysed['dep.conversion-sites'] = sites
    run.analysed['dep.conversion-pairs'] = len(pairs)

    def reaches(fn):
        m = CONV_FN.match(fn)
        if m:
            return (m.group(1), m.group(2)) in pairs
        m = CONV_IMPL.match(fn)
        if m:
            from rules import formats as FM
            return (FM.fmt_of_type(m.group(2)), FM.fmt_of_type(m.group(1))) in pairs
        return True
    for dep in deps:
        res = _dep_result(dep, loader)
        for c in res.get('configs', []):
            if c not in run.configs:
                run.configs.append(c)
        finds = {}
        for f in res['findings']:
            finds[(f['rule'], f['function'], f['instance'])] = f
        n = 0
        for rule, fn, inst, status in res['instances']:
            # function keys in the closure, plus the impl-level table rows (`impl Sample for u8`): the property's
            # functions are generic over every Sample / Frame implementation
            if fn not in used and not fn.startswith('impl '):
                continue
            if not reaches(fn):
                continue
            n += 1
            nrule = 'dep.%s.%s' % (dep, rule)
            if status == 'ok':
                run.ok(nrule, fn, inst, nontrivial=False)
            else:
                f = finds.get((rule, fn, inst), {})
                rec = run.fail if status == 'violation' else run.unproven
                rec(nrule, fn, inst, '[obligation of %s on a function this property reaches] %s' % (dep, f.get('what', '')), where=f.get('where'))
        run.analysed['dep.%s.imported' % dep] = n
    run.note('dependencies: obligations of %s imported for the %d functions reachable from the %d functions this check evaluates' % (', '.join(deps), len(used), len(roots)))
