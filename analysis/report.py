"""Findings, known-finding matching, evidence and VIOLATION plumbing."""
import json
import os
import sys
import time

VERIF = os.path.dirname(os.path.dirname(os.path.abspath(__file__)))
KNOWN = os.path.join(VERIF, 'known_findings.json')
EVID = os.environ.get('VERIF_EVIDENCE_DIR') or os.path.join(VERIF, 'evidence')


class Run:
    """One run of one property's check.

    Every rule instance evaluated is recorded with `ok()` / `fail()` / `unproven()`;
    floors are declared with `floor()`.  Keys are line-free:
    (property, rule, function key, instance)."""

    def __init__(self, prop, tier, level, checker_cmd):
        self.prop = prop
        self.tier = tier
        self.level = level
        self.checker_cmd = checker_cmd
        self.t0 = time.time()
        self.instances = []      # (rule, fn, inst, status, detail)
        self.findings = []       # dicts
        self.samples = []
        self.explanation = ''
        self.rule_text = ''
        self.assumptions = []
        self.trusted = []
        self.notes = []
        self.configs = []
        self.analysed = {}       # free-form counters
        self.nontrivial = set()
        self.only = None         # replay filter: (rule, fn, inst)

    # -- recording ---------------------------------------------------------
    def ok(self, rule, fn, inst='', detail=None, nontrivial=True, sample=None):
        self.instances.append((rule, fn, inst, 'ok'))
        if nontrivial:
            self.nontrivial.add((rule, fn, inst))
        if sample is not None and len(self.samples) < 40:
            self.samples.append({'rule': rule, 'fn': fn, 'instance': inst, 'result': 'holds', 'detail': sample})

    def fail(self, rule, fn, inst, what, detail=None, where=None):
        self.instances.append((rule, fn, inst, 'violation'))
        self.findings.append({'property': self.prop, 'rule': rule, 'function': fn, 'instance': inst,
                              'kind': 'violation', 'what': what, 'detail': detail, 'where': where})

    def unproven(self, rule, fn, inst, what, detail=None, where=None):
        self.instances.append((rule, fn, inst, 'unproven'))
        self.findings.append({'property': self.prop, 'rule': rule, 'function': fn, 'instance': inst,
                              'kind': 'unproven', 'what': what, 'detail': detail, 'where': where})

    def check(self, cond, rule, fn, inst, what, detail=None, where=None, sample=None):
        if cond:
            self.ok(rule, fn, inst, sample=sample)
        else:
            self.fail(rule, fn, inst, what, detail, where)
        return cond

    def floor(self, rule, what, found, minimum):
        """Fail closed when fewer instances than counted by hand are found."""
        if found < minimum:
            self.fail(rule, '<floor>', what, 'only %d instances of %s found, floor is %d (anchor moved or rule blind)' % (found, what, minimum))
        else:
            self.ok(rule, '<floor>', what, nontrivial=False)
        self.analysed['floor:' + rule + ':' + what] = found

    def note(self, text):
        self.notes.append(text)

    # -- finishing ---------------------------------------------------------
    def finish(self):
        try:
            with open(KNOWN) as fh:
                known = json.load(fh)
        except OSError:
            known = {'known': [], 'fixed': []}
        known_keys = {}
        for k in known.get('known', []):
            known_keys[(k['property'], k['rule'], k['function'], k['instance'])] = k
        os.makedirs(os.path.join(EVID, 'violations'), exist_ok=True)
        # remove stale violation files of this property
        for f in os.listdir(os.path.join(EVID, 'violations')):
            if f.startswith(self.prop + '-'):
                os.remove(os.path.join(EVID, 'violations', f))
        nviol = 0
        out = []
        seen = set()
        for f in self.findings:
            key = (f['property'], f['rule'], f['function'], f['instance'])
            if key in seen:
                continue
            seen.add(key)
            if key in known_keys and f['kind'] == 'violation':
                out.append('KNOWN-FINDING: property=%s rule=%s function=%s instance=%s -- %s' % (
                    self.prop, f['rule'], f['function'], f['instance'], known_keys[key].get('what', f['what'])))
                continue
            nviol += 1
            path = os.path.join(EVID, 'violations', '%s-%d.json' % (self.prop, nviol))
            with open(path, 'w') as fh:
                json.dump(f, fh, indent=1, default=str)
            out.append('%s %s rule=%s function=%s instance=%s%s\n    %s' % (
                'VIOLATION-DETAIL' if f['kind'] == 'violation' else 'UNPROVEN-DETAIL', self.prop, f['rule'], f['function'],
                f['instance'], (' at ' + f['where']) if f.get('where') else '', f['what']))
            out.append('VIOLATION property=%s replay=%s' % (self.prop, path))
        n_inst = len(self.instances)
        n_ok = sum(1 for i in self.instances if i[3] == 'ok')
        wall = time.time() - self.t0
        cov = {
            'evaluations': max(n_inst, 0),
            'distinct_nontrivial': len(self.nontrivial),
            'rule': self.rule_text,
            'samples': self.samples[:40] or [{'note': 'no instance matched'}],
            'explanation': self.explanation,
            'configs': self.configs,
            'analysed': self.analysed,
            'notes': self.notes,
            'known_findings_reported': [l for l in out if l.startswith('KNOWN-FINDING')],
        }
        if self.level == 'proof':
            cov.update({'obligations': n_inst, 'discharged': n_ok, 'checker_cmd': self.checker_cmd,
                        'trusted_base': self.trusted})
        ev = {
            'property_id': self.prop,
            'tier': self.tier,
            'seed': int(os.environ.get('VERIF_SEED', '0') or 0),
            'level': self.level,
            'coverage': cov,
            'assumptions': self.assumptions + self.trusted,
            'wall_s': round(wall, 3),
            'violations': nviol,
        }
        if self.only is None:
            with open(os.path.join(EVID, self.prop + '.json'), 'w') as fh:
                json.dump(ev, fh, indent=1, default=str)
        print('[%s] tier=%s configs=%s instances=%d ok=%d nontrivial=%d wall=%.1fs' % (
            self.prop, self.tier, ','.join(self.configs), n_inst, n_ok, len(self.nontrivial), wall))
        for k, v in sorted(self.analysed.items()):
            print('  analysed %s = %s' % (k, v))
        for l in out:
            print(l)
        sys.stdout.flush()
        return 1 if nviol else 0


class Prefixed:
    """view of a Run that files every instance under `<prefix><rule>`: used when one property's check re-runs the
    obligations of another property for exactly the functions it depends on (call-graph closure)"""

    def __init__(self, run, prefix):
        self._run, self._p = run, prefix

    def __getattr__(self, k):
        return getattr(self._run, k)

    def ok(self, rule, *a, **kw):
        return self._run.ok(self._p + rule, *a, **kw)

    def fail(self, rule, *a, **kw):
        return self._run.fail(self._p + rule, *a, **kw)

    def unproven(self, rule, *a, **kw):
        return self._run.unproven(self._p + rule, *a, **kw)

    def check(self, cond, rule, *a, **kw):
        return self._run.check(cond, self._p + rule, *a, **kw)

    def floor(self, rule, *a, **kw):
        return self._run.floor(self._p + rule, *a, **kw)
