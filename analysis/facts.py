"""Fact base: extraction orchestration (runs the mirfacts driver under cargo on
/repo's *current working tree*) and loader/indexes over the JSON it writes.

Nothing in here (or anywhere in /verif/analysis) executes dasp code: cargo is
run in `check` mode with the driver as RUSTC_WORKSPACE_WRAPPER, which stops
after type checking / MIR construction.
"""
import fcntl
import hashlib
import json
import os
import shutil
import subprocess
import sys
import time

VERIF = os.path.dirname(os.path.dirname(os.path.abspath(__file__)))
REPO = os.environ.get('VERIF_REPO', '/repo')
CACHE = os.path.join(VERIF, '.cache')
DRIVER = os.path.join(VERIF, 'driver', 'target', 'release', 'mirfacts')

WORKSPACE_LIBS = ['dasp_sample', 'dasp_frame', 'dasp_slice', 'dasp_ring_buffer', 'dasp_peak', 'dasp_rms',
                  'dasp_envelope', 'dasp_interpolate', 'dasp_window', 'dasp_signal', 'dasp_graph', 'dasp']

# configuration id -> (cargo args, extra rustflags, crates whose fact file must exist)
CONFIGS = {
    'std-debug': (['--workspace', '--exclude', 'examples', '--all-features'], '', WORKSPACE_LIBS),
    'std-release': (['--workspace', '--exclude', 'examples', '--all-features'],
                    '-C debug-assertions=off -C overflow-checks=off', WORKSPACE_LIBS),
    'nostd': (['-p', 'dasp', '--no-default-features', '--features', 'all-no-std'], '',
              [c for c in WORKSPACE_LIBS if c != 'dasp_graph']),
}


class ExtractionError(Exception):
    pass


def _nightly_sysroot():
    return subprocess.check_output(['rustc', '+nightly', '--print', 'sysroot'], text=True).strip()


def tree_hash(repo=None):
    """Content hash of the source tree (everything cargo can see), excluding target/ and .git/."""
    repo = repo or REPO
    h = hashlib.sha256()
    for root, dirs, files in os.walk(repo):
        dirs[:] = sorted(d for d in dirs if d not in ('target', '.git', 'assets'))
        for f in sorted(files):
            if not (f.endswith('.rs') or f.endswith('.toml') or f == 'Cargo.lock'):
                continue
            p = os.path.join(root, f)
            h.update(os.path.relpath(p, repo).encode())
            h.update(b'\0')
            with open(p, 'rb') as fh:
                h.update(fh.read())
            h.update(b'\0')
    with open(DRIVER, 'rb') as fh:
        h.update(hashlib.sha256(fh.read()).digest())
    return h.hexdigest()[:24]


def ensure_driver():
    if os.path.exists(DRIVER):
        src = os.path.join(VERIF, 'driver', 'src', 'main.rs')
        if os.path.getmtime(src) <= os.path.getmtime(DRIVER):
            return
    env = dict(os.environ, CARGO_NET_OFFLINE='true')
    r = subprocess.run(['cargo', 'build', '--release', '--offline'], cwd=os.path.join(VERIF, 'driver'), env=env,
                       stdout=subprocess.PIPE, stderr=subprocess.STDOUT, text=True)
    if r.returncode != 0 or not os.path.exists(DRIVER):
        raise ExtractionError('driver build failed:\n' + r.stdout[-4000:])


def extract(config, repo=None, quiet=False):
    """Return the directory holding <crate>.lib.json for `config`, extracting if the cache misses."""
    repo = repo or REPO
    ensure_driver()
    th = tree_hash(repo)
    outdir = os.path.join(CACHE, 'facts', th, config)
    marker = os.path.join(outdir, '.complete')
    if os.path.exists(marker):
        try:
            os.utime(os.path.dirname(outdir), None)      # most-recently-used order for the pruning
        except OSError:
            pass
        return outdir
    os.makedirs(os.path.join(CACHE, 'locks'), exist_ok=True)
    with open(os.path.join(CACHE, 'locks', config + '.lock'), 'w') as lock:
        fcntl.flock(lock, fcntl.LOCK_EX)
        if os.path.exists(marker):
            return outdir
        t0 = time.time()
        cargo_args, extra_flags, expect = CONFIGS[config]
        # a fresh target dir per extraction: cargo's freshness cache would otherwise
        # skip the wrapper and replay old output
        tdir = os.path.join(CACHE, 'target', '%s-%d' % (config, os.getpid()))
        shutil.rmtree(tdir, ignore_errors=True)
        shutil.rmtree(outdir, ignore_errors=True)
        os.makedirs(outdir)
        env = dict(os.environ)
        env.update({
            'LD_LIBRARY_PATH': _nightly_sysroot() + '/lib' + (':' + env['LD_LIBRARY_PATH'] if env.get('LD_LIBRARY_PATH') else ''),
            'RUSTFLAGS': ('-Zmir-opt-level=0 -Awarnings ' + extra_flags).strip(),
            'RUSTC_WORKSPACE_WRAPPER': DRIVER,
            'CARGO_TARGET_DIR': tdir,
            'VERIF_FACTS_DIR': outdir,
            'VERIF_CONFIG': config,
            'CARGO_NET_OFFLINE': 'true',
        })
        env.pop('RUSTC_WRAPPER', None)
        try:
            r = subprocess.run(['cargo', '+nightly', 'check', '--offline'] + cargo_args, cwd=repo, env=env,
                               stdout=subprocess.PIPE, stderr=subprocess.STDOUT, text=True)
        finally:
            shutil.rmtree(tdir, ignore_errors=True)
        if r.returncode != 0:
            shutil.rmtree(outdir, ignore_errors=True)
            raise ExtractionError('cargo check failed for config %s (the tree does not compile?):\n%s' % (config, r.stdout[-6000:]))
        missing = [c for c in expect if not os.path.exists(os.path.join(outdir, c + '.lib.json'))]
        if missing:
            shutil.rmtree(outdir, ignore_errors=True)
            raise ExtractionError('extractor wrote no facts for crates %s in config %s' % (missing, config))
        with open(marker, 'w') as fh:
            fh.write('%.2f\n' % (time.time() - t0))
        if not quiet:
            print('[facts] extracted %s for tree %s in %.1fs' % (config, th, time.time() - t0), file=sys.stderr)
        _prune_cache(keep=th)
    return outdir


def _prune_cache(keep):
    """Keep at most 12 tree hashes in the cache (most recently used), and never remove one used in the last 20 minutes:
    another check may be reading it (several scratch trees are analysed side by side by the regression tools)."""
    base = os.path.join(CACHE, 'facts')
    try:
        ents = sorted((os.path.getmtime(os.path.join(base, d)), d) for d in os.listdir(base))
    except OSError:
        return
    now = time.time()
    for mt, d in ents[:-12]:
        if d != keep and now - mt > 1200:
            shutil.rmtree(os.path.join(base, d), ignore_errors=True)


# ---------------------------------------------------------------------------


class Facts:
    """All crates of one configuration."""

    def __init__(self, config, repo=None):
        self.config = config
        self.dir = extract(config, repo)
        self.crates = {}
        for f in sorted(os.listdir(self.dir)):
            if not f.endswith('.lib.json'):
                continue
            with open(os.path.join(self.dir, f)) as fh:
                d = json.load(fh)
            self.crates[d['crate']] = d
        self.index()

    def index(self):
        """(re)build the lookup tables from self.crates"""
        self.bodies = {}        # path -> body
        self.by_hash = {}       # def-path hash -> body
        self.const_bodies = {}  # generic associated constants: path -> MIR body
        self.promoted = {}      # `<fn path>::promoted[i]` -> MIR body that builds the promoted constant
        self.extern_by_hash = {}  # small core combinators (Option::map, checked_sub, mem::swap ...): def-path hash -> body
        self.types = {}
        self.impls = []
        self.traits = {}
        self.adts = {}
        self.consts = {}
        self.fns = {}
        for name, d in self.crates.items():
            for b in d['bodies']:
                b['crate'] = name
                self.bodies[b['path']] = b
                self.by_hash[b['hash']] = b
            for b in d.get('extern_bodies', []):
                b['crate'] = '<extern>'
                self.extern_by_hash.setdefault(b['hash'], b)
            for b in d.get('const_bodies', []):
                b['crate'] = name
                self.const_bodies[b['path']] = b
            for b in d.get('promoted_bodies', []):
                b['crate'] = name
                self.promoted[b['path']] = b
            self.types.update({k: v for k, v in d['types'].items() if v is not None})
            for i in d['impls']:
                i['crate'] = name
                self.impls.append(i)
            for t in d['traits']:
                self.traits[t['path']] = t
            for a in d['adts']:
                a['crate'] = name
                self.adts[a['path']] = a
            for c in d['consts']:
                self.consts[c['path']] = c
            for fn in d['fns']:
                self.fns[fn['path']] = fn

    # -- helpers -----------------------------------------------------------
    def ty(self, s):
        return self.types.get(s) or {'k': 'unknown'}

    def body(self, path):
        return self.bodies.get(path)

    def bodies_in(self, crate):
        return [b for b in self.bodies.values() if b['crate'] == crate]

    def impls_of(self, trait):
        return [i for i in self.impls if i.get('trait') == trait]

    def const_int(self, path, signed=None):
        """Evaluated scalar const as python int (sign from its type if int)."""
        c = self.consts.get(path)
        if not c or not c.get('value') or 'bits' not in c['value']:
            return None
        return self.scalar(c['value'], c['ty'], signed)

    def scalar(self, val, ty, signed=None):
        bits = int(val['bits'])
        size = val['size'] * 8
        t = self.ty(ty)
        if signed is None:
            signed = t.get('k') == 'int' and t.get('signed')
            if t.get('k') == 'adt':
                # newtype over an integer: look at the field type
                a = self.adts.get(t['path'])
                if a and len(a['variants']) == 1 and len(a['variants'][0]['fields']) == 1:
                    ft = self.ty(a['variants'][0]['fields'][0]['ty'])
                    signed = ft.get('k') == 'int' and ft.get('signed')
        if signed and bits >= 1 << (size - 1):
            bits -= 1 << size
        return bits


def scalar_of_const(c, types):
    """MIR constant operand payload -> python value: int, float (as ('f', bits, width)), bool; or None."""
    if 'bits' not in c:
        return None
    t = types.get(c['ty']) or {}
    bits = int(c['bits'])
    if t.get('k') == 'int':
        w = t['bits']
        if t['signed'] and bits >= 1 << (w - 1):
            bits -= 1 << w
        return bits
    if t.get('k') == 'bool':
        return bool(bits)
    if t.get('k') == 'float':
        return ('f', bits, t['bits'])
    if t.get('k') == 'char':
        return bits
    return ('raw', bits, c.get('size'))


def float_from_bits(bits, width):
    import struct
    if width == 32:
        return struct.unpack('<f', struct.pack('<I', bits))[0]
    return struct.unpack('<d', struct.pack('<Q', bits))[0]
