"""Rename tolerance: align the names of *private* items with the reference tree before the rules run.

Rules name the things they examine: struct fields (`n_frames`), private helper functions (`array_from_iter`,
`SharedNode::next_frame`), parameters (`attack_frames`).  Renaming a private item changes no behaviour, so a rule that
no longer finds a name must first ask whether the thing is still there under another name:

  * a struct whose fields have the same types in the same positions as on the reference tree but other names gets the
    reference names back (MIR addresses fields by position, so nothing else changes);
  * a private function that the reference knows and the current tree lacks is matched against the private functions
    the current tree has and the reference lacks, in the same module / impl and with the same signature: a candidate
    is accepted only if its path summaries are provably equivalent (analysis/equiv.py) to the reference summaries of
    the missing function, and then every occurrence of its path in the fact base is rewritten to the reference name;
  * parameter names are looked up by position in the reference when the current body has other names.

Nothing here can make a check pass on changed behaviour: fields are matched by type and position only when the whole
struct agrees, functions only by proven equivalence."""
import re

import equiv


def _variants(a):
    return [[(f['name'], f['ty']) for f in v['fields']] for v in a['variants']]


def meta_of(facts):
    """what tools/make_reference.py stores about names"""
    adts = {p: _variants(a) for p, a in facts.adts.items()}
    fns = {}
    for p, b in facts.bodies.items():
        if b['kind'] == 'Closure':
            continue
        names = b.get('names') or {}
        fns[p] = {'pub': facts.fns.get(p, {}).get('pub'), 'sig': b['locals'][:b['argc'] + 1],
                  'params': [names.get(str(i)) for i in range(1, b['argc'] + 1)]}
    impls = sorted({(i.get('trait') or '', (facts.ty(i['self_ty']).get('path') or i['self_ty'])) for i in facts.impls if i.get('trait')})
    return {'adts': adts, 'fns': fns, 'impls': [list(x) for x in impls]}


_LT = re.compile(r"'[a-z_][a-z0-9_]*\b ?")


def _strip_lifetimes(p):
    return _LT.sub('', p).replace('<, ', '<').replace('<>', '')


def _rewrite(x, mapping):
    if isinstance(x, dict):
        return {k: _rewrite(v, mapping) for k, v in x.items()}
    if isinstance(x, list):
        return [_rewrite(v, mapping) for v in x]
    if isinstance(x, str):
        for new, old in mapping:
            if x == new:
                return old
            if x.startswith(new + '::{closure'):
                return old + x[len(new):]
    return x


def align(facts, cfg, note=None):
    meta = equiv.reference(cfg).get('#meta')
    if not meta:
        return
    say = note or (lambda s: None)
    # 0. impl headers whose lifetime parameters are spelled differently (`impl<'a, T> Node for &'a mut T` vs
    #    `impl<T> Node for &mut T`): the same impl, the same functions
    ref_fns0 = meta['fns']
    gone = {}
    for p in ref_fns0:
        if p not in facts.bodies and (p.startswith('<') or "'" in p):
            gone.setdefault(_strip_lifetimes(p), p)
    mapping0 = []
    for p in list(facts.bodies):
        if p not in ref_fns0 and (p.startswith('<') or "'" in p) and _strip_lifetimes(p) in gone:
            r = gone[_strip_lifetimes(p)]
            if ref_fns0[r]['sig'] == facts.bodies[p]['locals'][:facts.bodies[p]['argc'] + 1]:
                mapping0.append((p, r))
    if mapping0:
        selfs = {}
        for c, r in mapping0:
            if ' as ' in c and ' as ' in r:
                selfs[c[1:c.index(' as ')]] = r[1:r.index(' as ')]
        for name in list(facts.crates):
            facts.crates[name] = _rewrite(facts.crates[name], mapping0)
            for i in facts.crates[name].get('impls', []):
                if i.get('self_ty') in selfs and any(it.get('path') in {r for _, r in mapping0} for it in i.get('items', [])):
                    cs, rs = i['self_ty'], selfs[i['self_ty']]
                    i['self_ty'] = rs
                    types = facts.crates[name].get('types') or {}
                    if cs in types and rs not in types:
                        types[rs] = types[cs]
                    if isinstance(i.get('path'), str) and i['path'].startswith('<%s as ' % cs):
                        i['path'] = '<%s as ' % rs + i['path'][len('<%s as ' % cs):]
                    for it in i.get('items', []):
                        if isinstance(it.get('path'), str) and it['path'].startswith('<%s as ' % cs):
                            it['path'] = '<%s as ' % rs + it['path'][len('<%s as ' % cs):]
        facts.index()
        say('%d function(s) of impls whose lifetime parameters are spelled differently in this tree (e.g. %s, here %s) are addressed by their reference names' % (
            len(mapping0), mapping0[0][1], mapping0[0][0]))
    # 1. field names
    for p, ref_vs in meta['adts'].items():
        a = facts.adts.get(p)
        if a is None:
            continue
        cur_vs = [[list(f) for f in v] for v in _variants(a)]
        ref_vs = [[list(f) for f in v] for v in ref_vs]
        if cur_vs == ref_vs or len(cur_vs) != len(ref_vs):
            continue
        if all(len(c) == len(r) and [t for _, t in c] == [t for _, t in r] for c, r in zip(cur_vs, ref_vs)):
            renamed = [(c[i][0], r[i][0]) for c, r in zip(cur_vs, ref_vs) for i in range(len(c)) if c[i][0] != r[i][0]]
            if not renamed:
                continue
            for v, r in zip(a['variants'], ref_vs):
                for f, (rn, _) in zip(v['fields'], r):
                    f['name'] = rn
            say('struct %s: fields %s carry other names in this tree (same types, same positions); the rules use the reference names' % (
                p, ', '.join('%s (here %s)' % (o, c) for c, o in renamed)))
    # 1b. fields declared in another order (named-field structs: the order of declaration carries no meaning)
    perms = {}
    for p, ref_vs in meta['adts'].items():
        a = facts.adts.get(p)
        if a is None or a.get('kind') == 'Enum' or len(ref_vs) != 1 or len(a['variants']) != 1:
            continue
        cur, ref = _variants(a)[0], [tuple(x) for x in ref_vs[0]]
        names = [n for n, _ in cur]
        if cur != ref and sorted(cur) == sorted(ref) and len(set(names)) == len(names) and not any(n.isdigit() for n in names):
            perm = [ref.index(f) for f in cur]          # position in this tree -> position on the reference tree
            perms[p] = perm
            fields = a['variants'][0]['fields']
            a['variants'][0]['fields'] = [fields[perm.index(i)] for i in range(len(fields))]
            say('struct %s: fields declared in the order (%s) in this tree; the rules and the comparison with the reference use the reference order' % (p, ', '.join(names)))
    if perms:
        _permute_fields(facts, perms)
    # 2. private functions
    ref_fns = meta['fns']
    missing = [p for p, m in ref_fns.items() if m.get('pub') is False and p not in facts.bodies and p in equiv.reference(cfg)]
    if not missing:
        return
    extra = [p for p, b in facts.bodies.items() if b['kind'] != 'Closure' and p not in ref_fns and facts.fns.get(p, {}).get('pub') is False]
    mapping = []
    for m in sorted(missing):
        scope = m.rsplit('::', 1)[0]
        sig = ref_fns[m]['sig']
        cands = [c for c in extra if c.rsplit('::', 1)[0] == scope and facts.bodies[c]['locals'][:facts.bodies[c]['argc'] + 1] == sig]
        if not cands:
            # moved to another module of the same crate
            crate = m.split('::', 1)[0].lstrip('<')
            cands = [c for c in extra if facts.bodies[c]['crate'] == crate and facts.bodies[c]['locals'][:facts.bodies[c]['argc'] + 1] == sig]
        ok = []
        for c in cands:
            cur = equiv.summarize(facts, c)
            if cur is not None and equiv.equivalent(equiv.reference(cfg)[m], cur)[0]:
                ok.append(c)
        if len(ok) == 1:
            mapping.append((ok[0], m))
            extra.remove(ok[0])
            say('private function %s is called %s in this tree (same module, same signature, provably equivalent body); the rules use the reference name' % (m, ok[0]))
    if mapping:
        for name in list(facts.crates):
            facts.crates[name] = _rewrite(facts.crates[name], mapping)
        facts.index()


def _permute_fields(facts, perms):
    """rewrite every field projection on, and every aggregate of, the structs in `perms` to the reference field order.
    Places are typed by walking their projections from the local's declared type."""
    def place(body, pl):
        cur = facts.ty(body['locals'][pl[0]])
        for pr in pl[1]:
            if pr == '*':
                if cur.get('k') == 'adt' and cur.get('path') == 'alloc::boxed::Box' and cur.get('args'):
                    cur = facts.ty(cur['args'][0])
                else:
                    cur = facts.ty(cur.get('inner')) if cur.get('inner') is not None else {}
            elif isinstance(pr, list) and pr[0] == 'f':
                if cur.get('k') == 'adt' and cur.get('path') in perms and pr[1] < len(perms[cur['path']]):
                    pr[1] = perms[cur['path']][pr[1]]
                cur = facts.ty(pr[2])
            elif isinstance(pr, list) and pr[0] in ('i', 'ci'):
                cur = facts.ty(cur.get('inner')) if cur.get('inner') is not None else {}
            # sub-slice, downcast, opaque: the type stays what matters here

    def operand(body, op):
        if isinstance(op, list) and op and op[0] in ('cp', 'mv'):
            place(body, op[1])

    def rvalue(body, rv):
        k = rv[0]
        if k in ('use', 'repeat'):
            operand(body, rv[1])
        elif k == 'un':
            operand(body, rv[2])
        elif k in ('ref', 'rawptr'):
            place(body, rv[2])
        elif k == 'cast':
            operand(body, rv[2])
        elif k == 'bin':
            operand(body, rv[2])
            operand(body, rv[3])
        elif k in ('discr', 'len'):
            place(body, rv[1])
        elif k == 'agg':
            for o in rv[2]:
                operand(body, o)
            kind = rv[1]
            if kind[0] == 'adt' and kind[1] in perms and len(rv[2]) == len(perms[kind[1]]):
                pm = perms[kind[1]]
                rv[2] = [rv[2][pm.index(i)] for i in range(len(pm))]
    for d in facts.crates.values():
        for b in list(d['bodies']) + list(d.get('const_bodies', [])):
            for blk in b.get('blocks', []):
                for st in blk['s']:
                    if st[0] == '=':
                        place(b, st[1])
                        rvalue(b, st[2])
                    elif st[0] == 'setdiscr':
                        place(b, st[1])
                    else:
                        for x in st[1:]:
                            operand(b, x)
                t = blk['t']
                k = t['k']
                if k == 'switch':
                    operand(b, t['d'])
                elif k == 'call':
                    if t.get('f'):
                        operand(b, t['f'])
                    for a in t['args']:
                        operand(b, a)
                    place(b, t['dest'])
                elif k == 'assert':
                    operand(b, t['c'])
                    for o in t.get('mo') or []:
                        operand(b, o)
                elif k == 'drop':
                    place(b, t['p'])


def param_index(facts, cfg, body, name):
    """1-based index of the parameter called `name`, by its current name or, failing that, by the position the
    reference tree gives that name in a function of the same signature"""
    names = {v: int(k) for k, v in (body.get('names') or {}).items() if k.isdigit() and int(k) <= body['argc']}
    if name in names:
        return names[name]
    m = (equiv.reference(cfg).get('#meta') or {}).get('fns', {}).get(body['path'])
    if m and m['sig'] == body['locals'][:body['argc'] + 1] and name in m['params']:
        return m['params'].index(name) + 1
    return None
