"""Rename tolerance: align the names of *private* items with the reference tree before the rules run.

Rules name the things they examine: struct fields (`n_frames`), private helper functions (`array_from_iter`,
`SharedNode::next_frame`), parameters (`attack_frames`).  Renaming a private item changes no behaviour, so a rule that
no longer finds a name must first ask whether the thing is still there under another name:

  * a struct whose fields have the same types in the same positions as on the reference tree but other names gets the
    reference names back (MIR addresses fields by position, so nothing else changes);
  * a private function that the reference knows and the current tree lacks is matched against the private functions
    the current tree has and the reference lacks, in the same module / impl and with the same signature: a candidate
    is accepted only if its path summaries are provably equivalent (analysis/equiv.py) to the reference summaries of
    the missing function, and then every occurrence of its path in the fact base is rewritten to the reference name;
  * parameter names are looked up by position in the reference when the current body has other names.

Nothing here can make a check pass on changed behaviour: fields are matched by type and position only when the whole
struct agrees, functions only by proven equivalence."""
import equiv


def _variants(a):
    return [[(f['name'], f['ty']) for f in v['fields']] for v in a['variants']]


def meta_of(facts):
    """what tools/make_reference.py stores about names"""
    adts = {p: _variants(a) for p, a in facts.adts.items()}
    fns = {}
    for p, b in facts.bodies.items():
        if b['kind'] == 'Closure':
            continue
        names = b.get('names') or {}
        fns[p] = {'pub': facts.fns.get(p, {}).get('pub'), 'sig': b['locals'][:b['argc'] + 1],
                  'params': [names.get(str(i)) for i in range(1, b['argc'] + 1)]}
    return {'adts': adts, 'fns': fns}


def _rewrite(x, mapping):
    if isinstance(x, dict):
        return {k: _rewrite(v, mapping) for k, v in x.items()}
    if isinstance(x, list):
        return [_rewrite(v, mapping) for v in x]
    if isinstance(x, str):
        for new, old in mapping:
            if x == new:
                return old
            if x.startswith(new + '::{closure'):
                return old + x[len(new):]
    return x


def align(facts, cfg, note=None):
    meta = equiv.reference(cfg).get('#meta')
    if not meta:
        return
    say = note or (lambda s: None)
    # 1. field names
    for p, ref_vs in meta['adts'].items():
        a = facts.adts.get(p)
        if a is None:
            continue
        cur_vs = _variants(a)
        if cur_vs == ref_vs or len(cur_vs) != len(ref_vs):
            continue
        if all(len(c) == len(r) and [t for _, t in c] == [t for _, t in r] for c, r in zip(cur_vs, ref_vs)):
            renamed = [(c[i][0], r[i][0]) for c, r in zip(cur_vs, ref_vs) for i in range(len(c)) if c[i][0] != r[i][0]]
            for v, r in zip(a['variants'], ref_vs):
                for f, (rn, _) in zip(v['fields'], r):
                    f['name'] = rn
            say('struct %s: fields %s carry other names in this tree (same types, same positions); the rules use the reference names' % (
                p, ', '.join('%s (here %s)' % (o, c) for c, o in renamed)))
    # 2. private functions
    ref_fns = meta['fns']
    missing = [p for p, m in ref_fns.items() if m.get('pub') is False and p not in facts.bodies and p in equiv.reference(cfg)]
    if not missing:
        return
    extra = [p for p, b in facts.bodies.items() if b['kind'] != 'Closure' and p not in ref_fns and facts.fns.get(p, {}).get('pub') is False]
    mapping = []
    for m in sorted(missing):
        scope = m.rsplit('::', 1)[0]
        sig = ref_fns[m]['sig']
        cands = [c for c in extra if c.rsplit('::', 1)[0] == scope and facts.bodies[c]['locals'][:facts.bodies[c]['argc'] + 1] == sig]
        if not cands:
            # moved to another module of the same crate
            crate = m.split('::', 1)[0].lstrip('<')
            cands = [c for c in extra if facts.bodies[c]['crate'] == crate and facts.bodies[c]['locals'][:facts.bodies[c]['argc'] + 1] == sig]
        ok = []
        for c in cands:
            cur = equiv.summarize(facts, c)
            if cur is not None and equiv.equivalent(equiv.reference(cfg)[m], cur)[0]:
                ok.append(c)
        if len(ok) == 1:
            mapping.append((ok[0], m))
            extra.remove(ok[0])
            say('private function %s is called %s in this tree (same module, same signature, provably equivalent body); the rules use the reference name' % (m, ok[0]))
    if mapping:
        for name in list(facts.crates):
            facts.crates[name] = _rewrite(facts.crates[name], mapping)
        facts.index()


def param_index(facts, cfg, body, name):
    """1-based index of the parameter called `name`, by its current name or, failing that, by the position the
    reference tree gives that name in a function of the same signature"""
    names = {v: int(k) for k, v in (body.get('names') or {}).items() if k.isdigit() and int(k) <= body['argc']}
    if name in names:
        return names[name]
    m = (equiv.reference(cfg).get('#meta') or {}).get('fns', {}).get(body['path'])
    if m and m['sig'] == body['locals'][:body['argc'] + 1] and name in m['params']:
        return m['params'].index(name) + 1
    return None
