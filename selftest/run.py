#!/usr/bin/env python3
"""E7 — checker self-test: applies each mutant of selftest/mutants.json to a scratch copy of /repo (outside /repo
and /verif), runs the owning check against it (VERIF_REPO), and requires
   breaking  -> exit 1 and a VIOLATION-DETAIL/UNPROVEN-DETAIL line naming `expect` (substring of the function key)
   benign    -> exit 0.
The scratch copy is deleted at the end.  --validate additionally confirms that a breaking mutant compiles and passes
the baseline tests of the touched crate (slow; done once when the corpus is assembled).
usage: selftest/run.py [--prop C04] [--id m1,m2] [--validate] [--keep]"""
import argparse, json, os, shutil, subprocess, sys, tempfile, time

VERIF = os.path.dirname(os.path.dirname(os.path.abspath(__file__)))
REPO = '/repo'


def main():
    ap = argparse.ArgumentParser()
    ap.add_argument('--prop')
    ap.add_argument('--id')
    ap.add_argument('--validate', action='store_true')
    ap.add_argument('--tier', default='quick')
    a = ap.parse_args()
    muts = json.load(open(os.path.join(VERIF, 'selftest', 'mutants.json')))
    if a.prop:
        muts = [m for m in muts if m['prop'] in a.prop.split(',')]
    if a.id:
        muts = [m for m in muts if m['id'] in a.id.split(',')]
    scratch = tempfile.mkdtemp(prefix='dasp-selftest-')
    evid = tempfile.mkdtemp(prefix='dasp-selftest-evid-')
    rc = 0
    try:
        subprocess.check_call(['rsync', '-a', '--exclude', 'target', '--exclude', '.git', REPO + '/', scratch + '/'])
        for m in muts:
            path = os.path.join(scratch, m['file'])
            src = open(path).read()
            if m['old'] not in src:
                print('SKIP  %-28s patch does not apply (tree changed)' % m['id'])
                continue
            open(path, 'w').write(src.replace(m['old'], m['new'], 1))
            try:
                if a.validate and m['kind'] == 'breaking':
                    crate = m['file'].split('/')[0]
                    env = dict(os.environ, CARGO_NET_OFFLINE='true', CARGO_TARGET_DIR=os.path.join(scratch, 'target'))
                    r = subprocess.run(['cargo', 'test', '--offline', '-q', '-p', crate, '--tests'], cwd=scratch, env=env,
                                       stdout=subprocess.PIPE, stderr=subprocess.STDOUT, text=True)
                    if r.returncode != 0:
                        print('INVALID %-26s does not compile / fails the baseline tests of %s' % (m['id'], crate))
                        rc = 1
                        continue
                env = dict(os.environ, VERIF_REPO=scratch, VERIF_EVIDENCE_DIR=evid)
                t0 = time.time()
                r = subprocess.run([os.path.join(VERIF, 'check'), m['prop'], '--tier', m.get('tier', a.tier)], env=env, stdout=subprocess.PIPE, stderr=subprocess.STDOUT, text=True)
                out = r.stdout
                if m['kind'] == 'breaking':
                    named = [l for l in out.splitlines() if ('VIOLATION-DETAIL' in l or 'UNPROVEN-DETAIL' in l) and m.get('expect', '') in l]
                    ok = r.returncode == 1 and named
                else:
                    ok = r.returncode == 0
                print('%s %-28s %-4s %-8s exit=%d %.1fs %s' % ('ok   ' if ok else 'FAIL ', m['id'], m['prop'], m['kind'], r.returncode, time.time() - t0,
                                                        (named[0].split('rule=')[1][:110] if m['kind'] == 'breaking' and ok else '')))
                if not ok:
                    rc = 1
                    print('\n'.join('      | ' + l for l in out.splitlines()[-12:]))
            finally:
                open(path, 'w').write(src)
    finally:
        shutil.rmtree(scratch, ignore_errors=True)
        shutil.rmtree(evid, ignore_errors=True)
    sys.exit(rc)


if __name__ == '__main__':
    main()
