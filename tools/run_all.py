#!/usr/bin/env python3
"""Runs every claimed check (quick tier by default) on /repo, validates evidence + manifest against the schemas.
usage: tools/run_all.py [--tier thorough] [C01 C02 ...]"""
import json, os, subprocess, sys, time
VERIF = os.path.dirname(os.path.dirname(os.path.abspath(__file__)))
tier = 'quick'
args = sys.argv[1:]
if '--tier' in args:
    tier = args[args.index('--tier') + 1]
    del args[args.index('--tier'):args.index('--tier') + 2]
m = json.load(open(os.path.join(VERIF, 'MANIFEST.json')))
bad = 0
for c in m['checks']:
    pid = c['property_id']
    if args and pid not in args:
        continue
    t0 = time.time()
    cmd = c['quick_cmd'] if tier == 'quick' else c['thorough_cmd']
    r = subprocess.run(cmd, shell=True, cwd=VERIF, stdout=subprocess.PIPE, stderr=subprocess.STDOUT, text=True)
    lines = [l for l in r.stdout.splitlines() if l.startswith(('VIOLATION', 'KNOWN-FINDING', '['))]
    print('%s exit=%d %.1fs %s' % (pid, r.returncode, time.time() - t0, ' | '.join(l for l in lines if not l.startswith('[facts]'))[:200]))
    if r.returncode != 0:
        bad += 1
        print(r.stdout[-1500:])
v = subprocess.run(['python3-vt', '-c', '''
import json, jsonschema, sys
m = json.load(open("%s/MANIFEST.json"))
jsonschema.validate(m, json.load(open("/root/.vp/MANIFEST.schema.json")))
s = json.load(open("/root/.vp/EVIDENCE.schema.json"))
for c in m["checks"]:
    e = json.load(open(c["evidence_file"]))
    jsonschema.validate(e, s)
    cov = e["coverage"]
    assert e["level"] == c["level_claimed"]["category"], c["property_id"]
    if e["level"] == "proof":
        assert cov["obligations"] == cov["discharged"], (c["property_id"], cov["obligations"], cov["discharged"])
    assert e.get("violations", 0) == 0, c["property_id"]
print("manifest + %%d evidence files valid" %% len(m["checks"]))
''' % VERIF], stdout=subprocess.PIPE, stderr=subprocess.STDOUT, text=True)
print(v.stdout.strip()[-600:])
sys.exit(1 if bad or v.returncode else 0)
