#!/usr/bin/env python3
"""Debug helper: print E3 path summaries. usage: showpaths.py <config> <substr>... [--stop path,...]"""
import os, sys
sys.path.insert(0, os.path.join(os.path.dirname(os.path.abspath(__file__)), '..', 'analysis'))
import facts as F, terms as T
args=[a for a in sys.argv[2:] if not a.startswith('--')]
stop=[a[7:].split(',') for a in sys.argv if a.startswith('--stop=')]
fx = F.Facts(sys.argv[1])
def short(t, d=0):
    if not isinstance(t, tuple): return repr(t)
    if d>7: return '...'
    k=t[0]
    if k=='param': return 'p%d'%t[1]
    if k=='int': return str(t[1])
    if k=='bool': return str(t[1]).lower()
    if k=='float':
        import struct
        return repr(struct.unpack('<f',struct.pack('<I',t[1]))[0] if t[2]==32 else struct.unpack('<d',struct.pack('<Q',t[1]))[0])
    if k=='field': return '%s.%d'%(short(t[1],d+1),t[2])
    if k=='deref': return '*%s'%short(t[1],d+1)
    if k=='ret': return 'ret#%d'%t[1]
    if k=='mut': return 'mut#%d.%d'%(t[1],t[2])
    if k=='op': return '(%s %s %s)'%(short(t[2],d+1),t[1],short(t[3],d+1))
    if k=='un': return '%s(%s)'%(t[1],short(t[2],d+1))
    if k=='app': return '%s(%s)'%(t[1].split('::')[-1] if '<' not in t[1] else t[1],', '.join(short(x,d+1) for x in t[2]))
    if k=='agg': return '%s{%s}'%(t[1][-1] if t[1][0]=='adt' else t[1][0]+(':'+t[1][1] if t[1][0]=='closure' else ''),', '.join(short(x,d+1) for x in t[2]))
    if k=='ref': return '&%s'%short_loc(t[1],d+1)
    if k=='assoc': return '%s'%t[1]
    if k=='variant': return '(%s as v%d)'%(short(t[1],d+1),t[2])
    if k=='discr': return 'discr(%s)'%short(t[1],d+1)
    if k=='phi': return 'phi%d@bb%d(_%d)'%(t[2],t[1],t[3])
    if k=='cast': return '(%s as %s)'%(short(t[2],d+1),t[3])
    return '%s(%s)'%(k,', '.join(short(x,d+1) if isinstance(x,tuple) else str(x) for x in t[1:]))
def short_loc(loc,d=0):
    root,path=loc
    r = ('_%s.%s'%(root[1],root[2]) if root[0]=='L' else '[*%s]'%short(root[1],d+1))
    for e in path:
        if e[0]=='f': r+='.%d'%e[1]
        elif e[0]=='idx': r+='[%s]'%short(e[1],d+1)
        else: r+='.%s'%(e,)
    return r
for b in fx.bodies.values():
    if all(s in b['path'] for s in args):
        print('==', b['path'])
        eng=T.Engine(fx, T.Policy(stop=stop[0] if stop else ()))
        try: ps=eng.summarize(b)
        except T.TooComplex as e:
            print('  TOO COMPLEX', e); continue
        for i,p in enumerate(ps):
            print(' path %d end=%s'%(i,p['end']))
            for c in p['conds']: print('    if %s == %s  (l%s)'%(short(c[0]),short(c[1]),c[2]))
            for k,e in enumerate(p['events']):
                if e['kind']=='call': print('    #%d %s %s(%s)%s'%(k,'pure' if e.get('pure') else 'CALL',e.get('rpath') or e['path'],', '.join(short(a) for a in e['args']),''))
                elif e['kind']=='assert': print('    #%d assert %s == %s [%s]'%(k,short(e['cond']),e['expected'],e['msg']))
                else: print('    #%d %s %s'%(k,e['kind'],{kk:(short(v) if isinstance(v,tuple) else ({a:short(b2) for a,b2 in v.items()} if isinstance(v,dict) else v)) for kk,v in e.items() if kk not in('kind','fn')}))
            for loc,v in p['writes'].items(): print('    write %s := %s'%(short_loc(loc),short(v)))
            print('    ret', short(p['ret']) if p['ret'] else None)
