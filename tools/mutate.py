#!/usr/bin/env python3
"""Systematic mutation sweep over the anchored code (a tool for finding blind spots of the rules, not a check).

For every property, the line ranges its anchors name (properties.jsonl: anchors.mechanism[].where) are mutated one
token at a time with the classic operators (relational and arithmetic operator replacement, constant +1, && / ||,
negated / dropped conditions, true / false, min / max, statement deletion).  Each mutant is applied to one of N scratch
worktrees of /repo (outside /repo and /verif, removed afterwards), then
    1. the baseline test suite is run (cargo nextest, the 239 tests of /root/.vp/BASELINE.json): a mutant that does not
       build or that a test kills is of no interest -- the tests already settle it;
    2. for the survivors, the owning property's check is run against the worktree (VERIF_REPO).
Output: one JSON line per mutant in <out>, and a summary.  `survived-silent` mutants are the interesting ones: each is either
an equivalent mutant (behaviour unchanged: fine) or a change that breaks the property, passes the tests and is missed
by the check.  They are triaged by hand; confirmed misses become rules and self-test mutants.

usage: tools/mutate.py [--props C06,C13] [--per-prop 40] [--workers 6] [--out /tmp/mutate.jsonl] [--seed 1]"""
import argparse, hashlib, json, os, random, re, shutil, subprocess, sys, tempfile, threading, queue

VERIF = os.path.dirname(os.path.dirname(os.path.abspath(__file__)))
REPO = '/repo'

REL = [(' <= ', ' < '), (' < ', ' <= '), (' >= ', ' > '), (' > ', ' >= '), (' == ', ' != '), (' != ', ' == ')]
ARITH = [(' + ', ' - '), (' - ', ' + '), (' * ', ' / '), (' / ', ' * '), (' % ', ' / '), (' << ', ' >> '), (' >> ', ' << ')]
LOGIC = [(' && ', ' || '), (' || ', ' && ')]
WORDS = [('true', 'false'), ('false', 'true'), ('.min(', '.max('), ('.max(', '.min('), ('Incoming', 'Outgoing'), ('Outgoing', 'Incoming'),
         ('next_back()', 'next()'), ('iter_mut()', 'iter_mut().skip(1)'), ('.is_some()', '.is_none()'), ('.is_none()', '.is_some()'),
         ('wrapping_add', 'wrapping_sub'), ('wrapping_sub', 'wrapping_add'), ('saturating_sub', 'wrapping_sub')]


SIBLINGS = [('attack_gain', 'release_gain'), ('attack_frames', 'release_frames'), ('left', 'right'), ('bin', 'hop'), ('start', 'len'), ('first', 'len'),
            ('slice', 'slice_mut'), ('push', 'pop'), ('signal', 'other'), ('a', 'b'), ('frames_read', 'num_frames'), ('phil', 'phir'), ('nl', 'nr'),
            ('source_hz', 'target_hz'), ('set_playback_hz_scale', 'set_sample_hz_scale'), ('scale_playback_hz', 'scale_sample_hz'), ('in_n', 'n'), ('inputs', 'output'),
            ('min', 'max'), ('is_empty', 'is_full'), ('add_amp', 'mul_amp'), ('offset_amp', 'scale_amp'), ('to_signed_sample', 'to_float_sample'), ('iter', 'iter_mut'),
            ('next', 'next_back'), ('floor', 'ceil'), ('sin', 'cos'), ('MIN_REP', 'MAX_REP')]


def anchors():
    out = {}
    for line in open(os.path.join(VERIF, 'properties.jsonl')):
        d = json.loads(line)
        spans = []
        for m in d['anchors']['mechanism']:
            cur = None
            for part in m['where'].split(','):
                part = part.strip()
                mm = re.match(r'^(?:(\S+?):)?(\d+)(?:-(\d+))?$', part)
                if not mm:
                    continue
                if mm.group(1):
                    cur = mm.group(1)
                if cur and cur.endswith('.rs'):
                    lo = int(mm.group(2))
                    hi = int(mm.group(3) or lo)
                    spans.append((cur, lo, hi))
        out[d['id']] = spans
    return out


def code_part(line):
    """the part of a line before a `//` comment (string literals with // are rare enough here to ignore)"""
    i = line.find('//')
    return line if i < 0 else line[:i]


def mutants_of_line(line):
    code = code_part(line)
    s = code.strip()
    if not s or s.startswith(('#', 'use ', 'pub use ', '///', '//', 'fn ', 'pub fn ', 'impl', 'where', 'type ', 'pub struct', 'struct ', 'mod ', 'pub mod', 'const ', 'pub const', 'macro_rules', '}', '{', ')')):
        return
    generic_ish = '::<' in code or ' -> ' in code or '=>' in code and False
    for a, b in REL + ARITH + LOGIC:
        if a.strip() in ('<', '>', '<=', '>=') and ('::<' in code or '->' in code or 'impl<' in code or 'for<' in code):
            continue
        start = 0
        while True:
            i = code.find(a, start)
            if i < 0:
                break
            yield ('op %s->%s' % (a.strip(), b.strip()), line[:i] + b + line[i + len(a):])
            start = i + len(a)
    for a, b in WORDS:
        i = code.find(a)
        if i >= 0:
            yield ('word %s->%s' % (a, b), line[:i] + b + line[i + len(a):])
    # two simple arguments of one call exchanged (they often have the same type: bin / hop, attack / release, start / len)
    for m in re.finditer(r'\((\s*)((?:self\.)?[a-z_][\w.]*)(\s*,\s*)((?:self\.)?[a-z_][\w.]*)(\s*)\)', code):
        if m.group(2) != m.group(4):
            yield ('swap-args', line[:m.start()] + '(' + m.group(1) + m.group(4) + m.group(3) + m.group(2) + m.group(5) + ')' + line[m.end():])
    # a sibling name in place of a name (same-typed fields / methods that sit next to each other)
    for a, b in SIBLINGS:
        for x, y in ((a, b), (b, a)):
            for m in re.finditer(r'(?<![\w])' + re.escape(x) + r'(?![\w])', code):
                yield ('sibling %s->%s' % (x, y), line[:m.start()] + y + line[m.end():])
    for m in re.finditer(r'(?<![\w.])(\d+)(?![\w.])', code):
        n = int(m.group(1))
        if n > 4096:
            continue
        yield ('const %d->%d' % (n, n + 1), line[:m.start(1)] + str(n + 1) + line[m.end(1):])
    m = re.match(r'^(\s*)if (.+) \{\s*$', code)
    if m and not m.group(2).startswith('let '):
        yield ('negate-if', '%sif !(%s) {\n' % (m.group(1), m.group(2)))
    if s.endswith(';') and not s.startswith(('let ', 'return', 'break', 'continue', 'assert', 'debug_assert')) and s.count('(') == s.count(')') and s.count('{') == s.count('}'):
        yield ('delete-statement', line[:len(line) - len(line.lstrip())] + '// (deleted) ' + line.lstrip())


def outside_anchors(props):
    """{property: [(file, lo, hi)]} for the library code OUTSIDE every anchored range, attributed to the property that owns
    the enclosing function (analysis/ownership.py)"""
    sys.path.insert(0, os.path.join(VERIF, 'analysis'))
    import facts as F, ownership
    fx = F.Facts('std-debug')
    anc = anchors()
    covered = {}
    for spans in anc.values():
        for f, lo, hi in spans:
            covered.setdefault(f, set()).update(range(lo, hi + 1))
    per_file = {}
    for path, b in fx.bodies.items():
        if b.get('crate') not in ownership.CRATES or b['kind'] == 'Closure' or ':' not in (b.get('span') or ''):
            continue
        f, ln = b['span'].rsplit(':', 1)
        per_file.setdefault(f, []).append((int(ln), path))
    out = {}
    for f, lst in per_file.items():
        lst.sort()
        full = os.path.join(REPO, f)
        if not os.path.exists(full):
            continue
        n = len(open(full).read().split('\n'))
        for i, (start, path) in enumerate(lst):
            end = (lst[i + 1][0] - 1) if i + 1 < len(lst) else n
            o = ownership.owner_of(path)
            if o is None or o not in props:
                continue
            run = None
            for ln in range(start, end + 1):
                if ln in covered.get(f, ()):
                    if run:
                        out.setdefault(o, []).append((f, run[0], run[1])); run = None
                else:
                    run = (run[0], ln) if run else (ln, ln)
            if run:
                out.setdefault(o, []).append((f, run[0], run[1]))
    return out


def generate(props, per_prop, seed, outside=False):
    rnd = random.Random(seed)
    anc = outside_anchors(props) if outside else anchors()
    out = []
    for p in props:
        cands = []
        seen = set()
        for f, lo, hi in anc.get(p, []):
            path = os.path.join(REPO, f)
            if not os.path.exists(path):
                continue
            lines = open(path).read().split('\n')
            for ln in range(lo, min(hi, len(lines)) + 1):
                orig = lines[ln - 1] + '\n'
                for kind, new in mutants_of_line(orig):
                    if new == orig or (f, ln, new) in seen:
                        continue
                    seen.add((f, ln, new))
                    cands.append({'prop': p, 'file': f, 'line': ln, 'kind': kind, 'old': orig.rstrip('\n'), 'new': new.rstrip('\n')})
        rnd.shuffle(cands)
        # spread over kinds: round-robin by kind
        by = {}
        for c in cands:
            by.setdefault(c['kind'].split(' ')[0], []).append(c)
        pick = []
        while len(pick) < per_prop and any(by.values()):
            for k in sorted(by):
                if by[k] and len(pick) < per_prop:
                    pick.append(by[k].pop())
        out += pick
    for m in out:
        m['id'] = hashlib.sha1(('%s:%s:%d:%s' % (m['prop'], m['file'], m['line'], m['new'])).encode()).hexdigest()[:10]
    return out


def sh(cmd, cwd, env=None, timeout=900):
    try:
        r = subprocess.run(cmd, shell=True, cwd=cwd, env=env, stdout=subprocess.PIPE, stderr=subprocess.STDOUT, text=True, timeout=timeout)
        return r.returncode, r.stdout
    except subprocess.TimeoutExpired:
        return 124, 'timeout'


def worker(wt, q, out_lock, out_fh):
    env = dict(os.environ, CARGO_NET_OFFLINE='true')
    while True:
        try:
            m = q.get_nowait()
        except queue.Empty:
            return
        path = os.path.join(wt, m['file'])
        src = open(path).read()
        lines = src.split('\n')
        if lines[m['line'] - 1] != m['old']:
            m['status'] = 'stale'
        else:
            lines[m['line'] - 1] = m['new']
            open(path, 'w').write('\n'.join(lines))
            try:
                rc, o = sh('cargo nextest run --workspace --no-fail-fast --offline --test-threads 4 2>&1 | tail -25', wt, env, timeout=600)
                if 'error: could not compile' in o or 'error[' in o or 'error: ' in o and 'Summary' not in o:
                    m['status'] = 'no-build'
                elif re.search(r'Summary .* (\d+) failed', o) or 'FAIL [' in o or 'timeout' == o or ' timed out' in o:
                    m['status'] = 'killed-by-tests'
                    m['tests'] = [l.strip()[:120] for l in o.splitlines() if 'FAIL [' in l][:3]
                elif re.search(r'Summary .* (\d+) passed', o):
                    evid = tempfile.mkdtemp(prefix='mut-evid-')
                    env2 = dict(os.environ, VERIF_REPO=wt, VERIF_EVIDENCE_DIR=evid)
                    rc2, o2 = sh('%s/check %s --tier quick' % (VERIF, m['prop']), VERIF, env2, timeout=600)
                    shutil.rmtree(evid, ignore_errors=True)
                    det = [l for l in o2.splitlines() if l.startswith(('VIOLATION-DETAIL', 'UNPROVEN-DETAIL'))]
                    m['check_exit'] = rc2
                    m['status'] = 'survived-flagged' if rc2 == 1 else ('survived-silent' if rc2 == 0 else 'survived-check-error')
                    m['report'] = det[0][:200] if det else ''
                else:
                    m['status'] = 'unknown'
                    m['tail'] = o[-300:]
            finally:
                open(path, 'w').write(src)
        with out_lock:
            out_fh.write(json.dumps(m) + '\n')
            out_fh.flush()
            print('%-18s %s %s:%d %s | %s' % (m['status'], m['prop'], m['file'], m['line'], m['kind'], m['new'].strip()[:70]), flush=True)


def main():
    ap = argparse.ArgumentParser()
    ap.add_argument('--props', default=','.join('C%02d' % i for i in range(1, 21)))
    ap.add_argument('--per-prop', type=int, default=30)
    ap.add_argument('--workers', type=int, default=6)
    ap.add_argument('--out', default='/tmp/mutate.jsonl')
    ap.add_argument('--seed', type=int, default=1)
    ap.add_argument('--list', action='store_true')
    ap.add_argument('--kinds', default='', help='comma-separated kind prefixes to keep (e.g. swap-args,sibling)')
    ap.add_argument('--outside', action='store_true', help='mutate the library code outside the anchored ranges (attributed to the owning property)')
    a = ap.parse_args()
    muts = generate(a.props.split(','), a.per_prop if not a.kinds else 100000, a.seed, outside=a.outside)
    if a.kinds:
        ks = tuple(a.kinds.split(','))
        muts = [m for m in muts if m['kind'].startswith(ks)]
    if a.list:
        for m in muts:
            print(m['prop'], m['file'], m['line'], m['kind'], '|', m['new'].strip()[:90])
        print(len(muts), 'mutants')
        return
    base = tempfile.mkdtemp(prefix='mutate-')
    wts = []
    try:
        for i in range(a.workers):
            wt = os.path.join(base, 'w%d' % i)
            subprocess.check_call(['git', '-C', REPO, 'worktree', 'add', '--detach', '-q', wt, 'HEAD'])
            wts.append(wt)
        # warm the target directories once (sequentially would be slow: in parallel)
        ps = [subprocess.Popen('cargo nextest run --workspace --no-fail-fast --offline --no-run >/dev/null 2>&1', shell=True, cwd=wt, env=dict(os.environ, CARGO_NET_OFFLINE='true')) for wt in wts]
        for p in ps:
            p.wait()
        q = queue.Queue()
        for m in muts:
            q.put(m)
        lock = threading.Lock()
        with open(a.out, 'a') as fh:
            ts = [threading.Thread(target=worker, args=(wt, q, lock, fh)) for wt in wts]
            for t in ts:
                t.start()
            for t in ts:
                t.join()
    finally:
        for wt in wts:
            subprocess.call(['git', '-C', REPO, 'worktree', 'remove', '--force', wt])
        shutil.rmtree(base, ignore_errors=True)
    res = [json.loads(l) for l in open(a.out)]
    cnt = {}
    for m in res:
        cnt[m['status']] = cnt.get(m['status'], 0) + 1
    print(json.dumps(cnt))


if __name__ == '__main__':
    main()
