#!/usr/bin/env python3
"""False-alarm regression: apply each stored behaviour-preserving refactoring (refactorings/Cxx/rN.diff) to a scratch
worktree of /repo (outside /repo and /verif, removed afterwards) and run the property's check: it must exit 0, except
for the entries listed in refactorings/expected.json (known limits of the rules), which must still exit 1 -- so that the
list is updated when a rule is generalised.  usage: tools/refac_check.py [Cxx ...] [--tier quick|thorough] [--corpora name,name]"""
import json, os, subprocess, sys, tempfile, shutil
VERIF = os.path.dirname(os.path.dirname(os.path.abspath(__file__)))
args = [a for a in sys.argv[1:] if not a.startswith('--') and a.startswith('C') and len(a) == 3]
tier = 'thorough' if '--tier' in sys.argv and sys.argv[sys.argv.index('--tier') + 1] == 'thorough' else 'quick'
CORPORA = ['refactorings', 'refactorings2', 'refactorings3', 'refactorings4', 'refactorings5', 'refactorings6']
if '--corpora' in sys.argv:         # e.g. --corpora refactorings5,refactorings6
    CORPORA = [c for c in CORPORA if c in sys.argv[sys.argv.index('--corpora') + 1].split(',')]
wt = tempfile.mkdtemp(prefix='refac-')
os.rmdir(wt)
subprocess.check_call(['git', '-C', '/repo', 'worktree', 'add', '--detach', '-q', wt, 'HEAD'])
bad = 0
try:
  for corpus in CORPORA:
    exp = json.load(open(os.path.join(VERIF, corpus, 'expected.json')))['false_alarm']
    for prop in sorted(os.listdir(os.path.join(VERIF, corpus))):
        d = os.path.join(VERIF, corpus, prop)
        if not os.path.isdir(d) or (args and prop not in args):
            continue
        for r in ('r1', 'r2', 'r3'):
            patch = os.path.join(d, r + '.diff')
            if not os.path.exists(patch):
                continue
            subprocess.check_call(['git', '-C', wt, 'checkout', '-q', '--', '.'])
            subprocess.check_call(['git', '-C', wt, 'clean', '-fdq'])
            if subprocess.call(['git', '-C', wt, 'apply', patch]) != 0:
                print('SKIP  %s/%s does not apply' % (prop, r)); continue
            evid = tempfile.mkdtemp(prefix='refac-evid-')
            env = dict(os.environ, VERIF_REPO=wt, VERIF_EVIDENCE_DIR=evid)
            res = subprocess.run([os.path.join(VERIF, 'check'), prop, '--tier', tier], env=env, stdout=subprocess.PIPE, stderr=subprocess.STDOUT, text=True)
            shutil.rmtree(evid, ignore_errors=True)
            key = '%s/%s' % (prop, r)
            want = 1 if key in exp else 0
            ok = res.returncode == want
            bad += 0 if ok else 1
            first = next((l for l in res.stdout.splitlines() if 'DETAIL' in l), '')
            print('%s %s:%s exit=%d%s %s' % ('ok   ' if ok else 'FAIL ', corpus, key, res.returncode, ' (listed false alarm)' if key in exp else '', first[17:130] if res.returncode else ''))
finally:
    subprocess.call(['git', '-C', '/repo', 'worktree', 'remove', '--force', wt])
sys.exit(1 if bad else 0)
