#!/usr/bin/env python3
"""False-alarm regression for ordinary maintenance: each maintenance/*.diff (additive or cosmetic changes that touch
several crates -- a new method, a new adaptor / node / window type, a provided trait method, attributes, a version bump,
reworded panic messages, a debug_assert! of an invariant, private fields declared in another order) is applied to a
scratch worktree of /repo (outside /repo and /verif, removed afterwards) and ALL twenty checks are run on it: every one
must exit 0.   usage: tools/maint_check.py [name-substring ...]"""
import os, subprocess, sys, tempfile, shutil
from concurrent.futures import ThreadPoolExecutor
VERIF = os.path.dirname(os.path.dirname(os.path.abspath(__file__)))
want = sys.argv[1:]
wt = tempfile.mkdtemp(prefix='maint-')
os.rmdir(wt)
subprocess.check_call(['git', '-C', '/repo', 'worktree', 'add', '--detach', '-q', wt, 'HEAD'])
bad = 0
try:
    d = os.path.join(VERIF, 'maintenance')
    for name in sorted(os.listdir(d)):
        if not name.endswith('.diff') or (want and not any(w in name for w in want)):
            continue
        subprocess.check_call(['git', '-C', wt, 'checkout', '-q', '--', '.'])
        subprocess.check_call(['git', '-C', wt, 'clean', '-fdq'])
        if subprocess.call(['git', '-C', wt, 'apply', os.path.join(d, name)]) != 0:
            print('SKIP  %s does not apply' % name); bad += 1; continue

        def one(prop):
            evid = tempfile.mkdtemp(prefix='maint-evid-')
            env = dict(os.environ, VERIF_REPO=wt, VERIF_EVIDENCE_DIR=evid)
            r = subprocess.run([os.path.join(VERIF, 'check'), prop, '--tier', 'quick'], env=env, stdout=subprocess.PIPE, stderr=subprocess.STDOUT, text=True)
            shutil.rmtree(evid, ignore_errors=True)
            first = next((l for l in r.stdout.splitlines() if 'DETAIL' in l), '')
            return prop, r.returncode, first
        # the first check extracts the facts; the others reuse the cache
        res = [one('C01')]
        with ThreadPoolExecutor(4) as ex:
            res += list(ex.map(one, ['C%02d' % i for i in range(2, 21)]))
        alarms = [(p, rc, f) for p, rc, f in res if rc != 0]
        bad += len(alarms)
        print('%s %s %s' % ('ok   ' if not alarms else 'FAIL ', name, '' if not alarms else '; '.join('%s exit=%d %s' % (p, rc, f[17:150]) for p, rc, f in alarms)))
finally:
    subprocess.call(['git', '-C', '/repo', 'worktree', 'remove', '--force', wt])
sys.exit(1 if bad else 0)
