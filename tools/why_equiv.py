#!/usr/bin/env python3
"""usage: VERIF_REPO=<tree> tools/why_equiv.py <cfg> <function path>  -- show why the equivalence with the reference fails"""
import json, os, sys
VERIF = os.path.dirname(os.path.dirname(os.path.abspath(__file__)))
sys.path.insert(0, os.path.join(VERIF, 'analysis'))
import facts as F, equiv
cfg, fn = sys.argv[1], sys.argv[2]
fx = F.Facts(cfg)
cur = equiv.summarize(fx, fn)
ref = equiv.reference(cfg).get(fn)
print(equiv.equivalent(ref, cur))
def show(s, name):
    print('==', name, 'ctx', s and s['ctx'])
    for i, p in enumerate((s or {}).get('paths', [])):
        print(' path', i, 'end', p['end'])
        for c in p['conds']: print('    if', json.dumps(c)[:300])
        for e in p['events']: print('    ev', json.dumps(e)[:300])
        for w in p['writes']: print('    wr', json.dumps(w)[:300])
        print('    ret', json.dumps(p['ret'])[:300])
show(ref, 'reference'); show(cur, 'current')

def deep(a, b, path=''):
    if isinstance(a, (list, tuple)) and isinstance(b, (list, tuple)):
        if len(a) != len(b):
            print('LEN DIFF at', path, len(a), len(b)); print('   A:', json.dumps(a)[:400]); print('   B:', json.dumps(b)[:400]); return 2
        for i, (x, y) in enumerate(zip(a, b)):
            r = deep(x, y, path + '/%d' % i)
            if r:
                if r < 5:
                    print('   in A:', json.dumps(a)[:500]); print('   in B:', json.dumps(b)[:500])
                return r + 1
        return False
    if a != b:
        print('DIFF at', path, '\n   A:', json.dumps(a)[:300], '\n   B:', json.dumps(b)[:300]); return 2
    return False
if ref and cur:
    for pa in ref['paths']:
        for pb in cur['paths']:
            ca, cb = equiv.literals(pa['conds']), equiv.literals(pb['conds'])
            if equiv.jointly_unsat(ca, cb): continue
            ba, bb = equiv.behaviour(pa), equiv.behaviour(pb)
            lits = ca + cb
            A, B = equiv.drop_noop_writes(equiv.norm(equiv.substitute_equalities(ba, lits))), equiv.drop_noop_writes(equiv.norm(equiv.substitute_equalities(bb, lits)))
            if not equiv.Cmp(ref, cur).same(A, B):
                print('--- first differing compatible pair'); deep(equiv.tl(A), equiv.tl(B)); raise SystemExit
