#!/usr/bin/env python3
"""Re-run every stored seeded change against the current checks: each must still be reported (exit 1).
Uses one scratch worktree of /repo outside /repo and /verif; removes it afterwards."""
import glob, json, os, subprocess, sys, tempfile, shutil
VERIF = os.path.dirname(os.path.dirname(os.path.abspath(__file__)))
wt = tempfile.mkdtemp(prefix='seedcheck-')
os.rmdir(wt)
subprocess.check_call(['git', '-C', '/repo', 'worktree', 'add', '--detach', '-q', wt, 'HEAD'])
bad = 0
try:
    only = sys.argv[1:]
    for d in sorted(glob.glob(os.path.join(VERIF, 'seeded', '*'))):
        meta = json.load(open(os.path.join(d, 'meta.json')))
        prop = meta['property']
        if only and not any(o in d for o in only):
            continue
        subprocess.check_call(['git', '-C', wt, 'checkout', '-q', '--', '.'])
        r = subprocess.run(['git', '-C', wt, 'apply', os.path.join(d, 'patch.diff')], stdout=subprocess.PIPE, stderr=subprocess.STDOUT, text=True)
        if r.returncode != 0:
            print('SKIP  %s patch does not apply' % os.path.basename(d)); continue
        evid = tempfile.mkdtemp(prefix='seedcheck-evid-')
        env = dict(os.environ, VERIF_REPO=wt, VERIF_EVIDENCE_DIR=evid)
        r = subprocess.run([os.path.join(VERIF, 'check'), prop, '--tier', 'quick'], env=env, stdout=subprocess.PIPE, stderr=subprocess.STDOUT, text=True)
        shutil.rmtree(evid, ignore_errors=True)
        first = next((l for l in r.stdout.splitlines() if 'DETAIL' in l), '')
        ok = r.returncode == 1
        if not ok:
            bad += 1
        print('%s %-55s %s exit=%d %s' % ('ok   ' if ok else 'MISS ', os.path.basename(d), prop, r.returncode, first[17:110]))
finally:
    subprocess.call(['git', '-C', '/repo', 'worktree', 'remove', '--force', wt])
sys.exit(1 if bad else 0)
