#!/usr/bin/env python3
"""Regenerates /verif/MANIFEST.json from the table below (single source of truth for the interface)."""
import json
import os

VERIF = os.path.dirname(os.path.dirname(os.path.abspath(__file__)))

TB = ('rustc (nightly) type checker, MIR construction and const evaluation; the mirfacts extractor; '
      'the rule tables and abstract domains in /verif/analysis')

CHECKS = {
    'C01': dict(level='proof', ref='DESIGN.md §5 C01',
                technique='abstract interpretation over MIR (exact ScaledInt domain with trace partitioning), compared with a closed-form spec',
                text='For all 132 int->int conversion functions and every source value (full 2^8..2^64 ranges), in debug and release MIR, '
                     'the abstract result equals floor((s-off)*2^d)+off\', no overflow assert can fire and every 24/48-bit wrapper value is in range; '
                     'the 182 dispatch impls forward to the matching function. A proof by exact abstract interpretation, no sampling.',
                note=TB + '; two\'s-complement semantics of `as`, shifts and wrapping arithmetic.'),
    'C02': dict(level='proof', ref='DESIGN.md §5 C02',
                technique='abstract interpretation over MIR (FloatExact + ScaledInt domains), compared with a closed-form spec',
                text='For the 24 int->float, 24 float->int and 2 float<->float functions: int->float is RN_F(s-off)*2^-(b-1) with a bit-exact power-of-two scale; '
                     'float->int is trunc(s*2^(b-1))+off for every s in [-1,1) with no saturation and in-range wrappers; both profiles.',
                note=TB + '; IEEE-754 exactness of power-of-two scaling and correct rounding of casts; inputs in the documented domain [-1,1).'),
    'C15': dict(level='proof', ref='DESIGN.md §5 C15',
                technique='path-sensitive interval x congruence abstract interpretation over MIR, plus item-table rules (consts, derives)',
                text='For the eight custom-width types, in debug and release MIR: constants describe the 2^bits range; new() is Some exactly on [MIN,MAX]; '
                     'From<Rep> terminates and wraps into range congruent mod 2^bits; widening From impls preserve the value; Add/Sub/Mul (and Neg where a signed type '
                     'implements it) return in-range values congruent to the exact result (release) or the exact result / panic only on overflow (debug), for ALL operand pairs.',
                note=TB + '; two\'s-complement wrap of the backing integer when overflow checks are off.'),
    'C04': dict(level='other', ref='DESIGN.md §5 C04',
                technique='path summaries with value terms over MIR (symbolic execution without solver): call-count/order and return-term rules on every acyclic path',
                text='All 35 impl Signal are enumerated from the type-checked program; on every non-panicking path of next(), Signal::next is called exactly once on each '
                     'Signal-typed source field and on nothing else (Delay: none while silent), and the return term of each pointwise adaptor is the documented frame operation '
                     '(clip: three-cell clamp closure). Composition is a paper induction; numeric frame semantics are C03.',
                note=TB + '; user closures / user Signal impls are opaque effects; no feasibility solving (only constant folding).'),
    'C05': dict(level='other', ref='DESIGN.md §5 C05',
                technique='item-table sibling rule (override of is_exhausted) + path summaries: boolean truth tables and step-function conformance; call-graph import of the frame obligations (C03) reached from the iterator-backed sources',
                text='Decides structurally, for all paths: every impl Signal storing a Signal source overrides is_exhausted; each override is the OR of its sources '
                     '(Delay: n==0 AND source; iterator-backed: look-ahead slot empty); look-ahead protocol of from_iter/from_interleaved_samples_iter; step functions of '
                     'UntilExhausted, Take, IntoInterleavedSamples::next_sample; lift wiring. The history-level statement follows by induction (paper).',
                note=TB + '; user iterators and closures are opaque effects.'),
    'C08': dict(level='other', ref='DESIGN.md §5 C08, Appendix C.4',
                technique='path summaries over MIR with generic-loop-iteration summarisation; rational-function normal form for ratio formulas and the linear blend',
                text='Converter::next conforms to the accumulator step function (one pull per whole unit, frame handed over unmodified, interpolate at the fraction, add ratio), '
                     'exhaustion predicate, ratio constructors/setters as rational functions with the > 0 assert, MulHz wiring, Floor/Linear update order and blend polynomial. '
                     'Positions/counts follow by induction on paper; accumulator rounding is not decided.',
                note=TB + '; amplitude abstraction (sample conversions = identity on the real amplitude, C01/C02); rounding ignored in polynomial identities.'),
    'C12': dict(level='other', ref='DESIGN.md §5 C12, Appendix C.2',
                technique='path summaries over MIR: step-function conformance against the three-transition fork automaton, sibling agreement, construction-site rules',
                text='Each of the four branch next() bodies has exactly the transitions hit/dry/lead with the stated effects, order, argument flow and flag write; A/B use opposite flag '
                     'values and Rc/Ref siblings agree; pending_frames, branch exhaustion, fork() (asserted empty buffer, definite flag) and by_ref/by_rc aliasing. The quantifier over '
                     'interleavings is discharged by the paper invariant over exactly these transitions; no schedule is explored.',
                note=TB + '; ring buffer treated as an opaque FIFO (C06); RefCell/Rc as documented.'),
    'C14': dict(level='other', ref='DESIGN.md §5 C14',
                technique='path summaries over MIR with loop summarisation: step-function conformance of the prefetch protocol',
                text='Buffered::next pops first and refills with exactly 0..max_len() pulls (each pushed) only when empty; next_frames refills iff len()==0 and hands out the same ring buffer; '
                     'BufferedFrames::next is pop; is_exhausted = empty AND source exhausted. With FIFO semantics (C06) the stream is prefill ++ source (paper).',
                note=TB + '; ring buffer treated as an opaque FIFO (C06).'),
    'C06': dict(level='proof', ref='DESIGN.md §5 C06, Appendix C.1',
                technique='path summaries over MIR + small polyhedra (Fourier-Motzkin entailment with affine-modulo forms): per-operation refinement proof of the ideal queue',
                text='For every method of Bounded / Fixed and every acyclic path, for ALL (start, len, cap, index): every unchecked or checked element access, split and range is in '
                     'bounds, every modulo has a non-zero divisor, the representation invariant is established by each safe constructor and preserved, and the physical slot / post-state of '
                     'push, pop, get, get_mut, slices, iterators, set_first equal the ideal-queue spec as affine-modulo forms; wrappers (Index, Extend, Drain, From) forward. '
                     'The forward simulation implies the statement over histories (Appendix C.1).',
                note=TB + '; core slice/iterator primitives as documented; user Slice impls are length-stable; index arithmetic does not overflow usize.'),
    'C13': dict(level='other', ref='DESIGN.md §5 C13, Appendix C.3',
                technique='path summaries over MIR: necessary structural conditions (pairing, provenance, comparison operator, loop bodies) of the bus operations',
                text='Decides the necessary conditions of send / next_frame / pending_frames / drop_output / Drop / Output::{next,is_exhausted} on every path (see evidence explanation). '
                     'The history-level statement (gap-free streams, backlog == slowest lag) is NOT decided; it follows from these conditions by the paper invariant of Appendix C.3.',
                note=TB + '; VecDeque / BTreeMap as documented; no hook is needed or added.'),
    'C10': dict(level='proof', ref='DESIGN.md §5 C10',
                technique='item-table rule (N = 1..=32 per trait) + path summaries over MIR: arithmetic/provenance rules per impl, forget/from_raw pairing (R8), dominance of the length assert, who-may-call',
                text='For each of the 12 conversion traits: impls for exactly N = 1..=32; per impl and for all lengths: Some iff N | len (N of the type = constant of the test), '
                     'new length len/N resp. len*N, pointer = the argument\'s own pointer through casts only; boxed variants re-own the forgotten allocation on every returning path. '
                     'In-place ops: a.len()==b.len() established on every path into the unchecked loop (private, unsafe, single caller), loop 0..a.len() with a[i] = f(a[i], b[i]); '
                     'write/add/add-with-gain/equilibrium/map are the documented element-wise frame operations; the mismatch path panics before any write.',
                note=TB + '; from_raw_parts / Box::from_raw / array layout as documented by core/alloc.'),
    'C11': dict(level='other', ref='DESIGN.md §5 C11, Appendix C.6',
                technique='path summaries over MIR + per-channel scalarisation into a rational-function normal form (piecewise cases); bit-exact constant check of the no_std sqrt',
                text='Decides formula conformance in std and no_std builds: next_squared pushes x*x, adds the same term, subtracts the value returned by that push, clamps at zero, divides by '
                     'window.len(); sqrt applied exactly once in next/current; reset; signal adaptor; sample_sqrt dispatch; no_std bit-trick with bias bit-equal to 1.0 of that type. '
                     'The windowed-sum statement follows with C06; the numeric error bound is NOT decided (paper: <= 6.07 % for the bit trick).',
                note=TB + '; amplitude abstraction; rounding ignored in polynomial identities.'),
    'C19': dict(level='other', ref='DESIGN.md §5 C19',
                technique='per-channel scalarisation of closures into piecewise rational functions, sibling-agreement rule, write-set rules, who-may-call rule (no float-companion route inside a rectifier)',
                text='Rectifier cell functions (|x|, max(x,0), min(x,0)) on the three cells, each Rectifier impl forwards to its own kind, gain = select(n==0, 0, powf(e, -1/n)) with bit-exact e, '
                     'the rectifier bodies never leave the integer / native format (no mul_amp / to_float_sample / to_sample), one-pole update d + select(l<d, attack, release)*(l-d) stored and returned, constructor and setter write sets, Detect impls, signal adaptor. No-overshoot / convergence are a paper step.',
                note=TB + '; amplitude abstraction (comparisons in a format agree with comparisons of amplitudes).'),
    'C20': dict(level='other', ref='DESIGN.md §5 C20, Appendix C.5',
                technique='rational-function normal form (Hann), path summaries, Fourier-Motzkin over (bin, hop, remaining) for the windower transition and the size_hint consistency rule',
                text='Hann = 0.5(1-cos(2 pi p)) with bit-exact 2 pi, Rectangle = identity, Window::new step 1/(n-1) from phase 0, one phase step per item, Windowed = window x source; Windower transition '
                     '(Some iff bin <= L, chunk frames[..bin], L\' = L-hop or 0); size_hint guard = next guard and count = (L-bin)/hop+1. Chunk count closed form by induction (paper).',
                note=TB + '; rounding ignored in the Hann identity.'),
    'C17': dict(level='other', ref='DESIGN.md §5 C17',
                technique='path summaries + rational-function normal form + interval evaluation; exact Sturm-based maximisation of the extracted simplex polynomial',
                text='Phase protocol (starts at 0, returns old phase, stores (old + step()) % rem with one step()), step = hz/rate / one pull per frame, sine/saw/square formulas (2 pi bit-exact) and '
                     'their ranges, noise = pure function of the seed with output in [-1+2^-30, 1] and seed += 1, simplex: wrap 2^16, table indices through `as u8`, and a rigorous bound '
                     'sup|0.395(n0+n1)| = 0.99984 <= 1 computed from the extracted polynomial. Long-run phase drift is not decided.',
                note=TB + '; |sin| <= 1; fmod of a non-negative dividend lies in [0, rem).'),
    'C18': dict(level='other', ref='DESIGN.md §5 C18',
                technique='path summaries + scalarisation of the fold closure into piecewise rational functions; Fourier-Motzkin for the tap-count arithmetic',
                text='State protocol (new: even length asserted, idx 0; next_source_frame: one push, idx+1 iff idx < depth; reset), kernel per tap = sinc(pi(phi+n)) * (0.5+0.5cos(pi(phi+n)/depth)) with '
                     'guarded divisions, phi = x left / 1-x right, each tap added once to an accumulator starting at EQUILIBRIUM, coefficients free of frame data (linearity), tap count <= idx+1 in all three '
                     'branches. The 1e-12 / 1 % numeric statements are NOT decided (paper).',
                note=TB + '; amplitude abstraction; rounding ignored.'),
    'C03': dict(level='other', ref='DESIGN.md §5 C03',
                technique='item-table rules (impl Sample / impl Frame rows, evaluated and generic associated constants) + path summaries of provided methods, map/zip_map closures and from_samples',
                text='14 impl Sample rows (Signed/Float companions, EQUILIBRIUM = image of amplitude 0, no provided method overridden); provided add_amp/mul_amp are to_sample(signed + amp) / '
                     'to_sample(float * amp); 15 impl Frame: CHANNELS = N of NChannels<N>, single NumChannels implementor; map/zip_map apply the user function once to channel idx of each operand '
                     '(idx = from_fn parameter, so every channel_unchecked index is < N); defaults and the 14 mono overrides agree; array_from_iter fill/cleanup step function; channel iteration and indexing. '
                     'The numeric identities follow with C01/C02 (paper).',
                note=TB + '; core::array::from_fn / array map are element-wise in order.'),
    'C09': dict(level='other', ref='DESIGN.md §5 C09, §6 F6',
                technique='path summaries over MIR (step function of process()), who-may-call rule, constant/provenance rules for sources/sinks',
                text='Decides dasp\'s use of the traversal: per-call reset and move_to before the loop, Reversed at both sites, one Node::process per yielded node on its own weight with '
                     '(&processor.inputs, &mut own buffers), clear before the pushes, one Input per incoming neighbour other than the node itself built from that neighbour\'s buffers, Input::new private with a '
                     'single caller; sources/sinks direction constants, emptiness filter and index-scan bound. NOT decided: correctness of petgraph\'s DfsPostOrder (which nodes, in which order). '
                     'Known finding: sources()/sinks() scan 0..node_count() (wrong for graphs with vacant indices).',
                note=TB + '; petgraph as documented; dasp_graph links the registry copies of the sibling crates.'),
    'C16': dict(level='other', ref='DESIGN.md §5 C16',
                technique='path summaries with an element-of abstraction for iterator-driven loops (iter/iter_mut/zip/enumerate/range)',
                text='Sum (silence all, then add the same-index buffer of every input that has it), SumBuffers (silence first, add every buffer of every input, copy to the rest), Pass (first input, position-wise copy, '
                     'untouched when absent), Delay (out[c][i] = ring[c].push(in[c][i])), signal node (min(CHANNELS, outputs) channels, Buffer::LEN frames, one next per frame, scatter), GraphNode (copy in, process once, copy out), '
                     'seven forwarding wrappers. Delay length / nested-graph equivalence follow with C06 / C09 (paper).',
                note=TB + '; core iterator adaptors position-wise in order; registry dasp_slice / dasp_ring_buffer API as documented.'),
    'C07': dict(level='other', ref='DESIGN.md §5 C07',
                technique='whole-workspace may-allocate effect analysis over MIR: resolved-callee crate-of-origin classification, heap-owning drop / owned-value rule, frozen exception table, positive control',
                text='Every body of the eleven library crates (std and no_std builds) is classified: no call into alloc/std outside a read allowlist of non-allocating accessors, no drop or creation/move of a '
                     'heap-owning value, no foreign call, except in the documented exceptions (bus, Rc fork creation, boxed slices, constructors/Clone bodies); graph clause: process() only clears/pushes the processor-owned '
                     'input list and drives the processor-owned traversal, and nothing but the constructor assigns that storage. A sound over-approximation of the runtime statement: calls through type parameters are '
                     'attributed to the user; petgraph amortisation is a paper argument.',
                note=TB + '; `core` cannot allocate; the allowlisted accessors were read; positive control must see >= 20 allocating sites inside the exception table.'),
}

NOT_YET = 'check not implemented yet in this revision of /verif (see DESIGN.md §10 build order)'


def main():
    props = [json.loads(l) for l in open(os.path.join(VERIF, 'properties.jsonl'))]
    checks = []
    na = []
    for p in props:
        pid = p['id']
        c = CHECKS.get(pid)
        if c is None:
            na.append({'property_id': pid, 'reason': NOT_YET})
            continue
        checks.append({
            'property_id': pid,
            'quick_cmd': './check %s --tier quick' % pid,
            'thorough_cmd': './check %s --tier thorough' % pid,
            'evidence_file': '/verif/evidence/%s.json' % pid,
            'replay_cmd_template': './check %s --replay {path}' % pid,
            'engine': 'mirfacts+analysis',
            'level_claimed': {'category': c['level'], 'text': c['text'], 'design_ref': c['ref']},
            'level_note': c['note'],
            'technique': c['technique'],
        })
    m = {
        'version': 1,
        'setup_cmd': 'cd /verif/driver && CARGO_NET_OFFLINE=true cargo build --release --offline',
        'hooks': {
            'guard': 'rustaudio_dasp_verif',
            'enable': 'none needed: the static analysis reads the unmodified sources through a rustc_private driver (RUSTC_WORKSPACE_WRAPPER under cargo +nightly check)',
            'baseline_off_cmd': 'cd /repo && cargo test --workspace --no-fail-fast --offline',
            'source_commits': [],
            'add_only': True,
        },
        'engines': [
            {'name': 'mirfacts', 'path': 'driver/', 'serves_properties': sorted(CHECKS), 'kind_free_text': 'rustc_private fact extractor: items, unoptimised MIR, resolved callees, evaluated constants -> JSON'},
            {'name': 'analysis', 'path': 'analysis/', 'serves_properties': sorted(CHECKS), 'kind_free_text': 'Python static analyses over the fact base: abstract interpretation (exact numeric domains), path summaries with value terms, effect/who-may-call analysis, item-table rules'},
        ],
        'checks': checks,
        'not_applicable': na,
        'notes': 'Static analysis only: no check executes dasp code. After the rules of a property, the obligations of the properties it depends on are imported for the functions it reaches (analysis/deps.py), and a failing body-determined rule instance is withdrawn only if the function is provably equivalent, path by path, to the reference implementation on which the rule was established (analysis/equiv.py, reference/). See DESIGN.md sections 11-12.',
    }
    with open(os.path.join(VERIF, 'MANIFEST.json'), 'w') as fh:
        json.dump(m, fh, indent=1)
    print('MANIFEST.json: %d checks, %d not_applicable' % (len(checks), len(na)))


if __name__ == '__main__':
    main()
