#!/usr/bin/env python3
"""Evaluate one independently seeded change.
usage: tools/seed_eval.py <prop> <dir with patch.diff, demo*, notes.md> <worktree> [--demo-dest PATH --demo-cmd CMD] [--check-only]
Steps (in the scratch worktree, never in /repo):
  1. git apply patch; cargo build; run the baseline tests of the workspace -> must pass
  2. copy the demo in, run it -> must FAIL with the patch; revert patch, run it -> must PASS
  3. with the patch applied: VERIF_REPO=<worktree> ./check <prop> (quick, then thorough) -> report exit code / lines
Prints a JSON summary."""
import argparse, json, os, shutil, subprocess, sys, tempfile

VERIF = os.path.dirname(os.path.dirname(os.path.abspath(__file__)))


def sh(cmd, cwd, env=None, timeout=3000):
    r = subprocess.run(cmd, shell=True, cwd=cwd, env=env, stdout=subprocess.PIPE, stderr=subprocess.STDOUT, text=True, timeout=timeout)
    return r.returncode, r.stdout


def main():
    ap = argparse.ArgumentParser()
    ap.add_argument('prop'); ap.add_argument('dir'); ap.add_argument('worktree')
    ap.add_argument('--demo-dest'); ap.add_argument('--demo-cmd'); ap.add_argument('--demo-src', default='demo.rs')
    ap.add_argument('--check-only', action='store_true'); ap.add_argument('--also', default='')
    ap.add_argument('--store'); ap.add_argument('--needs', default=''); ap.add_argument('--what', default='')
    a = ap.parse_args()
    wt = a.worktree
    env = dict(os.environ, CARGO_NET_OFFLINE='true')
    out = {'prop': a.prop}
    sh('git checkout -q -- . && git clean -fdq -e target', wt)
    patch = os.path.join(a.dir, 'patch.diff')
    rc, o = sh('git apply --check %s && git apply %s' % (patch, patch), wt)
    if rc != 0:
        print(json.dumps({'error': 'patch does not apply', 'out': o[-500:]})); return
    evid = tempfile.mkdtemp(prefix='seed-evid-')
    try:
        if not a.check_only:
            rc, o = sh('cargo test --workspace --no-fail-fast --offline 2>&1 | grep -E "^test result|FAILED|error(\\[|:)" | sort | uniq -c | head -20', wt, env)
            out['baseline_with_patch'] = o.strip().splitlines()[-6:]
            out['baseline_ok'] = ('FAILED' not in o and 'error' not in o and 'test result: ok' in o)
            if a.demo_dest and a.demo_cmd:
                dst = os.path.join(wt, a.demo_dest)
                os.makedirs(os.path.dirname(dst), exist_ok=True)
                src = os.path.join(a.dir, a.demo_src)
                if os.path.isdir(src):
                    shutil.copytree(src, dst, dirs_exist_ok=True)
                else:
                    shutil.copy(src, dst)
                rc1, o1 = sh(a.demo_cmd + ' 2>&1 | tail -15', wt, env)
                out['demo_with_patch_fails'] = ('FAILED' in o1 or 'panicked' in o1 or 'failed' in o1)
                out['demo_with_patch_tail'] = o1.strip().splitlines()[-4:]
                sh('git apply -R %s' % patch, wt)
                rc2, o2 = sh(a.demo_cmd + ' 2>&1 | tail -15', wt, env)
                out['demo_without_patch_passes'] = ('test result: ok' in o2 and 'FAILED' not in o2) or (rc2 == 0 and 'panicked' not in o2 and 'FAILED' not in o2)
                out['demo_without_patch_tail'] = o2.strip().splitlines()[-3:]
                sh('git apply %s' % patch, wt)
                if os.path.isdir(dst):
                    shutil.rmtree(dst)
                else:
                    os.remove(dst)
        env2 = dict(os.environ, VERIF_REPO=wt, VERIF_EVIDENCE_DIR=evid)
        for prop in [a.prop] + [x for x in a.also.split(',') if x]:
            for tier in ('quick', 'thorough'):
                rc, o = sh('%s/check %s --tier %s' % (VERIF, prop, tier), VERIF, env2)
                lines = [l for l in o.splitlines() if l.startswith(('VIOLATION-DETAIL', 'UNPROVEN-DETAIL'))]
                out['check_%s_%s' % (prop, tier)] = {'exit': rc, 'reports': [l[:260] for l in lines[:4]], 'n_reports': len(lines)}
    finally:
        sh('git checkout -q -- . && git clean -fdq -e target', wt)
        shutil.rmtree(evid, ignore_errors=True)
    if a.store:
        dst = os.path.join(VERIF, 'seeded', a.store)
        os.makedirs(dst, exist_ok=True)
        shutil.copy(patch, os.path.join(dst, 'patch.diff'))
        src = os.path.join(a.dir, a.demo_src)
        if os.path.isdir(src):
            shutil.copytree(src, os.path.join(dst, os.path.basename(src)), dirs_exist_ok=True)
        elif os.path.exists(src):
            shutil.copy(src, os.path.join(dst, os.path.basename(src)))
        if os.path.exists(os.path.join(a.dir, 'notes.md')):
            shutil.copy(os.path.join(a.dir, 'notes.md'), os.path.join(dst, 'notes.md'))
        detected = {k: {'exit': v['exit'], 'reports': v['reports'][:2]} for k, v in out.items() if k.startswith('check_')}
        meta = {'id': a.store, 'property': a.prop, 'origin': 'independent sub-agent given only the property text and a scratch worktree',
                'what': a.what, 'needs_to_manifest': a.needs,
                'demonstration': {'file': a.demo_src, 'copy_to': a.demo_dest, 'command': a.demo_cmd,
                                  'fails_with_change': out.get('demo_with_patch_fails'), 'passes_without_change': out.get('demo_without_patch_passes')},
                'existing_tests_pass_with_change': out.get('baseline_ok'),
                'ran': ['git apply patch.diff (scratch worktree of /repo HEAD)', 'cargo test --workspace --no-fail-fast --offline', a.demo_cmd or '',
                        'VERIF_REPO=<worktree> ./check %s --tier quick|thorough' % a.prop],
                'detected_by': detected}
        with open(os.path.join(dst, 'meta.json'), 'w') as fh:
            json.dump(meta, fh, indent=1)
    print(json.dumps(out, indent=1))


if __name__ == '__main__':
    main()
