#!/usr/bin/env python3
"""Regenerate reference/summaries-<cfg>.json.gz from the CURRENT tree of /repo.

Run only on a tree on which every check passes (tools/run_all.py --tier thorough): the stored path summaries are the
reference against which analysis/equiv.py compares a function when a rule does not recognise its shape."""
import gzip, importlib, json, os, sys, time
VERIF = os.path.dirname(os.path.dirname(os.path.abspath(__file__)))
sys.path.insert(0, os.path.join(VERIF, 'analysis'))
import facts as F, report, equiv, rename, main as M   # noqa


def main():
    fns = {}
    bad = set()
    for n in range(1, 21):
        prop = 'C%02d' % n
        mod = importlib.import_module('rules.' + prop)
        run = report.Run(prop, 'thorough', mod.LEVEL, '')
        run_tier = 'quick'
        mod.run(run, 'quick', M.Loader(run))
        # a function with any finding (the known C09 finding) is no reference for anything
        bad |= {f['function'] for f in run.findings}
        for rule, fn, inst, st in run.instances:
            if equiv.INELIGIBLE.search(rule) or fn == '<floor>':
                continue
            fns.setdefault(fn, set()).add(rule)
    for fn in bad:
        print('not a reference (has findings): %s' % fn)
        fns.pop(fn, None)
    if True:
        pass
    os.makedirs(equiv.REFDIR, exist_ok=True)
    for cfg in ('std-debug', 'std-release', 'nostd'):
        fx = F.Facts(cfg)
        out = {}
        t0 = time.time()
        none = 0
        import ownership
        every = sorted(set(fns) | {p for p, b in ownership.library_bodies(fx)})
        for fn in every:
            if fn in bad or fx.body(fn) is None:
                continue
            s = equiv.summarize(fx, fn)
            if s is None:
                none += 1
                continue
            # self-check: a summary must be equivalent to itself
            ok, why = equiv.equivalent(json.loads(json.dumps(s)), s)
            if not ok:
                print('  not self-equivalent (dropped): %s: %s' % (fn, why))
                continue
            out[fn] = s
        # own-body summaries of the library functions (calls of workspace functions kept as events), for ownership.py
        shallow = {}
        for fn, b in sorted(ownership.library_bodies(fx)):
            if fn in bad:
                continue
            s = equiv.summarize(fx, fn, shallow=True)
            if s is not None and equiv.equivalent(json.loads(json.dumps(s)), s)[0]:
                shallow[fn] = s
        out['#shallow'] = shallow
        out['#meta'] = rename.meta_of(fx)
        with gzip.open(equiv.ref_file(cfg), 'wt') as fh:
            json.dump(out, fh, separators=(',', ':'))
        print('%s: %d functions summarised (%d not summarisable) in %.1fs -> %s' % (cfg, len(out), none, time.time() - t0, equiv.ref_file(cfg)))


if __name__ == '__main__':
    main()
