#!/usr/bin/env python3
"""Debug helper: print the MIR facts of bodies whose path contains the given substrings.
usage: showmir.py <config> <substr> [...]"""
import json, os, sys
sys.path.insert(0, os.path.join(os.path.dirname(os.path.abspath(__file__)), '..', 'analysis'))
import facts as F
fx = F.Facts(sys.argv[1])
def op(o):
    if o is None: return 'None'
    if o[0] in ('cp','mv'): return ('' if o[0]=='cp' else 'move ')+pl(o[1])
    if o[0]=='c':
        c=o[1]
        if 'fn' in c: return 'fn:'+c['fn']['path']
        return 'const %s: %s' % (c.get('disp'), c['ty'])
    return str(o)
def pl(p):
    s='_%d'%p[0]
    for e in p[1]:
        if e=='*': s='(*%s)'%s
        elif e[0]=='f': s='%s.%d'%(s,e[1])
        elif e[0]=='d': s='(%s as %s)'%(s,e[2])
        elif e[0]=='i': s='%s[_%d]'%(s,e[1])
        else: s='%s%s'%(s,e)
    return s
def rv(r):
    k=r[0]
    if k=='use': return op(r[1])
    if k=='ref': return ('&mut ' if r[1] else '&')+pl(r[2])
    if k=='rawptr': return '&raw %s %s'%(r[1],pl(r[2]))
    if k=='bin': return '%s(%s, %s)'%(r[1],op(r[2]),op(r[3]))
    if k=='un': return '%s(%s)'%(r[1],op(r[2]))
    if k=='cast': return '%s as %s (%s)'%(op(r[2]),r[3],r[1])
    if k=='agg': return 'agg %s [%s]'%(r[1][:4] if r[1][0]!='closure' else r[1][:2],', '.join(op(x) for x in r[2]))
    if k=='discr': return 'discr(%s)'%pl(r[1])
    return str(r)
for b in fx.bodies.values():
    if all(s in b['path'] for s in sys.argv[2:]):
        print('==', b['path'], b['span'], 'argc', b['argc'])
        for i,t in enumerate(b['locals']): print('   _%d: %s %s'%(i,t,b['names'].get(str(i),'')))
        for i,blk in enumerate(b['blocks']):
            if blk['c'] and not os.environ.get('CLEANUP'): continue
            print(' bb%d:'%i)
            for s in blk['s']:
                if s[0]=='=': print('    %s = %s   // l%s'%(pl(s[1]),rv(s[2]),s[3]))
                else: print('    ',s)
            t=blk['t']; k=t['k']
            if k=='call':
                c=t['callee']
                print('    %s = call %s [res %s] (%s) -> bb%s   // l%s'%(pl(t['dest']), c['path'] if c else op(t['f']), (c.get('res') or {}).get('path') if c else None, ', '.join(op(a) for a in t['args']), t['t'], t['l']))
            elif k=='switch': print('    switch %s %s else bb%s'%(op(t['d']), t['ts'], t['o']))
            elif k=='assert': print('    assert %s == %s (%s) -> bb%s'%(op(t['c']), t['e'], t['m'], t['t']))
            elif k=='drop': print('    drop %s -> bb%s'%(pl(t['p']), t['t']))
            elif k=='goto': print('    goto bb%s'%t['t'])
            else: print('    ',k)
